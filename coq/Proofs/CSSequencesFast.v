(* Proofs/CSSequencesFast.v — CS_sequences_fast (Stmts6.v): without isolate initiators the fast path
   of prepare::isolating_run_sequences (one sequence per level run) yields exactly the isolating run
   sequences of BD13 with the sos/eos of X10.  The first half of the file is shared with
   Proofs/CSSequences.v: first/last live position lookups of the model against the filtered
   position lists of the specification. *)
From BidiVerif Require Import Base ConstsGen TablesGen ModelText ModelResolve ModelLine Spec Obs Judge StageRel
     Stmts Stmts2 Stmts3 Stmts4 Stmts5 Stmts6.
From BidiVerif.Proofs Require Import LevelOps ExplicitSpec TotalSequences.
From Coq Require Import Permutation.

(* ------------------------------------------------------------------ *)
(* first / last position satisfying a predicate inside [a,b) *)

Definition first_in (f : nat -> bool) (a b : nat) (o : option nat) : Prop :=
  match o with
  | Some j => a <= j /\ j < b /\ f j = true /\ forall j', a <= j' -> j' < j -> f j' = false
  | None => forall j, a <= j -> j < b -> f j = false
  end.
Definition last_in (f : nat -> bool) (a b : nat) (o : option nat) : Prop :=
  match o with
  | Some j => a <= j /\ j < b /\ f j = true /\ forall j', j < j' -> j' < b -> f j' = false
  | None => forall j, a <= j -> j < b -> f j = false
  end.

Lemma first_in_fun f a b o1 o2 : first_in f a b o1 -> first_in f a b o2 -> o1 = o2.
Proof.
  destruct o1 as [j1|], o2 as [j2|]; cbn; intros H1 H2; try reflexivity.
  - destruct H1 as [A1 [B1 [C1 D1]]]. destruct H2 as [A2 [B2 [C2 D2]]].
    destruct (Nat.lt_trichotomy j1 j2) as [H|[H|H]]; [|congruence|].
    + rewrite (D2 j1 A1 H) in C1. discriminate.
    + rewrite (D1 j2 A2 H) in C2. discriminate.
  - destruct H1 as [A1 [B1 [C1 D1]]]. rewrite (H2 j1 A1 B1) in C1. discriminate.
  - destruct H2 as [A2 [B2 [C2 D2]]]. rewrite (H1 j2 A2 B2) in C2. discriminate.
Qed.

Lemma last_in_fun f a b o1 o2 : last_in f a b o1 -> last_in f a b o2 -> o1 = o2.
Proof.
  destruct o1 as [j1|], o2 as [j2|]; cbn; intros H1 H2; try reflexivity.
  - destruct H1 as [A1 [B1 [C1 D1]]]. destruct H2 as [A2 [B2 [C2 D2]]].
    destruct (Nat.lt_trichotomy j1 j2) as [H|[H|H]]; [|congruence|].
    + rewrite (D1 j2 H B2) in C2. discriminate.
    + rewrite (D2 j1 H B1) in C1. discriminate.
  - destruct H1 as [A1 [B1 [C1 D1]]]. rewrite (H2 j1 A1 B1) in C1. discriminate.
  - destruct H2 as [A2 [B2 [C2 D2]]]. rewrite (H1 j2 A2 B2) in C2. discriminate.
Qed.

Definition olast (l : list nat) : option nat := hd_error (rev l).

Lemma olast_snoc l x : olast (l ++ [x]) = Some x.
Proof. unfold olast. rewrite rev_app_distr. reflexivity. Qed.

Lemma hd_filter_first f : forall n a, first_in f a (a + n) (hd_error (filter f (seq a n))).
Proof.
  induction n as [|n IH]; intros a; cbn [seq filter].
  - cbn. intros j H1 H2. lia.
  - destruct (f a) eqn:E.
    + cbn. repeat split; try lia. exact E.
    + specialize (IH (S a)). destruct (hd_error (filter f (seq (S a) n))) as [j|]; cbn in *.
      * destruct IH as [A [B [C D]]]. repeat split; try lia; [exact C|].
        intros j' H1 H2. destruct (Nat.eq_dec j' a) as [->|N]; [exact E|]. apply D; lia.
      * intros j H1 H2. destruct (Nat.eq_dec j a) as [->|N]; [exact E|]. apply IH; lia.
Qed.

Lemma last_filter_last f : forall n a, last_in f a (a + n) (olast (filter f (seq a n))).
Proof.
  induction n as [|n IH]; intros a.
  - cbn. intros j H1 H2. lia.
  - rewrite seq_S, filter_app. cbn [filter]. destruct (f (a + n)) eqn:E.
    + rewrite olast_snoc. cbn. repeat split; try lia. exact E.
    + rewrite app_nil_r. specialize (IH a).
      destruct (olast (filter f (seq a n))) as [j|]; cbn in *.
      * destruct IH as [A [B [C D]]]. repeat split; try lia; [exact C|].
        intros j' H1 H2. destruct (Nat.eq_dec j' (a + n)) as [->|N]; [exact E|]. apply D; lia.
      * intros j H1 H2. destruct (Nat.eq_dec j (a + n)) as [->|N]; [exact E|]. apply IH; lia.
Qed.

Lemma hd_filter_range f a b : a <= b -> first_in f a b (hd_error (filter f (range a b))).
Proof. intros H. unfold range. replace b with (a + (b - a)) at 1 by lia. apply hd_filter_first. Qed.

Lemma last_filter_range f a b : a <= b -> last_in f a b (olast (filter f (range a b))).
Proof. intros H. unfold range. replace b with (a + (b - a)) at 1 by lia. apply last_filter_last. Qed.

Lemma range_app a c b : a <= c -> c <= b -> range a b = range a c ++ range c b.
Proof.
  intros H1 H2. unfold range. replace (b - a) with ((c - a) + (b - c)) by lia.
  rewrite seq_app. replace (a + (c - a)) with c by lia. reflexivity.
Qed.

Lemma filter_all_true {A} (g : A -> bool) l : (forall x, In x l -> g x = true) -> filter g l = l.
Proof.
  induction l as [|x t IH]; intros H; cbn [filter]; [reflexivity|].
  rewrite (H x (or_introl eq_refl)). rewrite IH; [reflexivity|]. intros y Hy. apply H. right; exact Hy.
Qed.

Lemma filter_all_false {A} (g : A -> bool) l : (forall x, In x l -> g x = false) -> filter g l = [].
Proof.
  induction l as [|x t IH]; intros H; cbn [filter]; [reflexivity|].
  rewrite (H x (or_introl eq_refl)). apply IH. intros y Hy. apply H. right; exact Hy.
Qed.

Lemma in_filter_range f a b x : In x (filter f (range a b)) <-> (a <= x /\ x < b /\ f x = true).
Proof.
  rewrite filter_In. unfold range. rewrite in_seq. split; intros H; repeat split; try lia; apply H.
Qed.

Lemma filter_lt_range f a b c : a <= c -> c <= b ->
  filter (fun i => i <? c) (filter f (range a b)) = filter f (range a c).
Proof.
  intros H1 H2. rewrite (range_app a c b H1 H2), !filter_app.
  rewrite (filter_all_true (fun i => i <? c) (filter f (range a c))).
  - rewrite (filter_all_false (fun i => i <? c) (filter f (range c b))); [apply app_nil_r|].
    intros x Hx. apply in_filter_range in Hx. apply Nat.ltb_ge. lia.
  - intros x Hx. apply in_filter_range in Hx. apply Nat.ltb_lt. lia.
Qed.

Lemma filter_gt_range f a b c : a <= S c -> S c <= b ->
  filter (fun i => c <? i) (filter f (range a b)) = filter f (range (S c) b).
Proof.
  intros H1 H2. rewrite (range_app a (S c) b H1 H2), !filter_app.
  rewrite (filter_all_false (fun i => c <? i) (filter f (range a (S c)))).
  - rewrite (filter_all_true (fun i => c <? i) (filter f (range (S c) b))); [reflexivity|].
    intros x Hx. apply in_filter_range in Hx. apply Nat.ltb_lt. lia.
  - intros x Hx. apply in_filter_range in Hx. apply Nat.ltb_ge. lia.
Qed.

(* widening the interval over a stretch without hits *)
Lemma last_in_extend f a b b' o : b <= b' -> (forall j, b <= j -> j < b' -> f j = false) ->
  last_in f a b o -> last_in f a b' o.
Proof.
  intros Hb Hn. destruct o as [j|]; cbn.
  - intros [A [B [C D]]]. repeat split; try lia; [exact C|].
    intros j' H1 H2. destruct (Nat.lt_ge_cases j' b); [apply D; lia|apply Hn; lia].
  - intros H j H1 H2. destruct (Nat.lt_ge_cases j b); [apply H; lia|apply Hn; lia].
Qed.

Lemma first_in_extend f a a' b o : a' <= a -> (forall j, a' <= j -> j < a -> f j = false) ->
  first_in f a b o -> first_in f a' b o.
Proof.
  intros Hb Hn. destruct o as [j|]; cbn.
  - intros [A [B [C D]]]. repeat split; try lia; [exact C|].
    intros j' H1 H2. destruct (Nat.lt_ge_cases j' a); [apply Hn; lia|apply D; lia].
  - intros H j H1 H2. destruct (Nat.lt_ge_cases j a); [apply Hn; lia|apply H; lia].
Qed.

(* ------------------------------------------------------------------ *)
(* position / rposition *)

Lemma position_first {A} (p : A -> bool) d : forall l,
  first_in (fun i => p (nth i l d)) 0 (length l) (position p l).
Proof.
  induction l as [|x t IH]; cbn [position length].
  - cbn. intros j H1 H2. lia.
  - destruct (p x) eqn:E.
    + cbn. repeat split; try lia. exact E.
    + destruct (position p t) as [j|]; cbn in *.
      * destruct IH as [A0 [B [C D]]]. repeat split; try lia; [exact C|].
        intros [|j'] H1 H2; [exact E|]. apply D; lia.
      * intros [|j] H1 H2; [exact E|]. apply IH; lia.
Qed.

Lemma rposition_aux_last {A} (p : A -> bool) d : forall l i acc pre,
  length pre = i ->
  last_in (fun j => p (nth j pre d)) 0 i acc ->
  last_in (fun j => p (nth j (pre ++ l) d)) 0 (i + length l) (rposition_aux p l i acc).
Proof.
  induction l as [|x t IH]; intros i acc pre Hi Hacc; cbn [rposition_aux length].
  - rewrite app_nil_r, Nat.add_0_r. exact Hacc.
  - replace (pre ++ x :: t) with ((pre ++ [x]) ++ t) by (rewrite <- app_assoc; reflexivity).
    replace (i + S (length t)) with (S i + length t) by lia.
    apply IH; [rewrite app_length; cbn; lia|].
    destruct (p x) eqn:E.
    + cbn. repeat split; try lia.
      rewrite app_nth2 by lia. replace (i - length pre) with 0 by lia. exact E.
    + destruct acc as [j|]; cbn in *.
      * destruct Hacc as [A0 [B [C D]]]. repeat split; try lia.
        -- rewrite app_nth1 by lia. exact C.
        -- intros j' H1 H2. destruct (Nat.eq_dec j' i) as [->|N].
           ++ rewrite app_nth2 by lia. replace (i - length pre) with 0 by lia. exact E.
           ++ rewrite app_nth1 by lia. apply D; lia.
      * intros j H1 H2. destruct (Nat.eq_dec j i) as [->|N].
        -- rewrite app_nth2 by lia. replace (i - length pre) with 0 by lia. exact E.
        -- rewrite app_nth1 by lia. apply Hacc; lia.
Qed.

Lemma rposition_last {A} (p : A -> bool) d l :
  last_in (fun i => p (nth i l d)) 0 (length l) (rposition p l).
Proof.
  unfold rposition. apply (rposition_aux_last p d l 0 None []); [reflexivity|].
  cbn. intros j H1 H2. lia.
Qed.

Lemma rfind_last {A} (p : A -> bool) d l :
  rfind p l = option_map (fun i => nth i l d) (rposition p l).
Proof.
  unfold rfind. induction l as [|x t IH] using rev_ind; [reflexivity|].
  rewrite rev_app_distr. cbn [rev app find].
  pose proof (rposition_last p d (t ++ [x])) as H. rewrite app_length in H. cbn [length] in H.
  destruct (p x) eqn:E.
  - assert (E2 : rposition p (t ++ [x]) = Some (length t)).
    { eapply last_in_fun; [exact H|]. cbn. repeat split; try lia.
      rewrite app_nth2 by lia. rewrite Nat.sub_diag. exact E. }
    rewrite E2. cbn. rewrite app_nth2 by lia. rewrite Nat.sub_diag. reflexivity.
  - rewrite IH. pose proof (rposition_last p d t) as Ht.
    assert (E2 : rposition p (t ++ [x]) = rposition p t).
    { eapply last_in_fun; [exact H|]. destruct (rposition p t) as [j|]; cbn in *.
      - destruct Ht as [A0 [B [C D]]]. repeat split; try lia.
        + rewrite app_nth1 by lia. exact C.
        + intros j' H1 H2. destruct (Nat.eq_dec j' (length t)) as [->|N].
          * rewrite app_nth2 by lia. rewrite Nat.sub_diag. exact E.
          * rewrite app_nth1 by lia. apply D; lia.
      - intros j H1 H2. destruct (Nat.eq_dec j (length t)) as [->|N].
        + rewrite app_nth2 by lia. rewrite Nat.sub_diag. exact E.
        + rewrite app_nth1 by lia. apply Ht; lia. }
    rewrite E2. destruct (rposition p t) as [j|] eqn:Ej; cbn; [|reflexivity].
    cbn in Ht. rewrite app_nth1 by lia. reflexivity.
Qed.

Lemma nth_slice {A} (l : list A) d a b i : b <= length l -> i < b - a ->
  nth i (firstn (b - a) (skipn a l)) d = nth (a + i) l d.
Proof.
  intros Hb Hi. rewrite <- (firstn_skipn a l) at 2.
  rewrite app_nth2 by (rewrite firstn_length; lia).
  rewrite firstn_length. replace (a + i - Nat.min a (length l)) with i by lia.
  rewrite <- (firstn_skipn (b - a) (skipn a l)) at 2.
  rewrite app_nth1; [reflexivity|]. rewrite firstn_length, skipn_length. lia.
Qed.

Lemma slice_length {A} (l : list A) a b : a <= b -> b <= length l ->
  length (firstn (b - a) (skipn a l)) = b - a.
Proof. intros. rewrite firstn_length, skipn_length. lia. Qed.

(* position / rposition inside the slice [a,b) of l *)
Lemma position_slice {A} (p : A -> bool) d l a b : a <= b -> b <= length l ->
  first_in (fun i => p (nth i l d)) a b
           (option_map (Nat.add a) (position p (firstn (b - a) (skipn a l)))).
Proof.
  intros Ha Hb. pose proof (position_first p d (firstn (b - a) (skipn a l))) as H.
  rewrite slice_length in H by lia.
  destruct (position p (firstn (b - a) (skipn a l))) as [j|]; cbn in *.
  - destruct H as [A0 [B [C D]]]. repeat split; try lia.
    + rewrite nth_slice in C by lia. exact C.
    + intros j' H1 H2. specialize (D (j' - a)). rewrite nth_slice in D by lia.
      replace (a + (j' - a)) with j' in D by lia. apply D; lia.
  - intros j H1 H2. specialize (H (j - a)). rewrite nth_slice in H by lia.
    replace (a + (j - a)) with j in H by lia. apply H; lia.
Qed.

Lemma rposition_slice {A} (p : A -> bool) d l a b : a <= b -> b <= length l ->
  last_in (fun i => p (nth i l d)) a b
          (option_map (Nat.add a) (rposition p (firstn (b - a) (skipn a l)))).
Proof.
  intros Ha Hb. pose proof (rposition_last p d (firstn (b - a) (skipn a l))) as H.
  rewrite slice_length in H by lia.
  destruct (rposition p (firstn (b - a) (skipn a l))) as [j|]; cbn in *.
  - destruct H as [A0 [B [C D]]]. repeat split; try lia.
    + rewrite nth_slice in C by lia. exact C.
    + intros j' H1 H2. specialize (D (j' - a)). rewrite nth_slice in D by lia.
      replace (a + (j' - a)) with j' in D by lia. apply D; lia.
  - intros j H1 H2. specialize (H (j - a)). rewrite nth_slice in H by lia.
    replace (a + (j - a)) with j in H by lia. apply H; lia.
Qed.

Lemma firstn_as_slice {A} (l : list A) s : firstn s l = firstn (s - 0) (skipn 0 l).
Proof. rewrite Nat.sub_0_r. reflexivity. Qed.

Lemma skipn_as_slice {A} (l : list A) s : s <= length l ->
  skipn s l = firstn (length l - s) (skipn s l).
Proof. intros H. rewrite firstn_all2; [reflexivity|]. rewrite skipn_length. lia. Qed.

(* ------------------------------------------------------------------ *)
(* reported classes against input classes *)

Lemma nth_rep_from cls0 : forall l j i,
  nth i (rep_from cls0 j l) BN = ExplicitSpec.rep cls0 (j + i) (nth i l BN).
Proof.
  induction l as [|c r IH]; intros j i; cbn [rep_from].
  - destruct i; reflexivity.
  - destruct i as [|i]; cbn [nth].
    + rewrite Nat.add_0_r. reflexivity.
    + rewrite IH. f_equal. lia.
Qed.

Lemma nth_reported cls0 i :
  nth i (reported_classes cls0) BN = ExplicitSpec.rep cls0 i (nth i cls0 BN).
Proof. rewrite reported_rep_from, nth_rep_from. reflexivity. Qed.

Lemma reported_length cls0 : length (reported_classes cls0) = length cls0.
Proof. rewrite reported_rep_from. apply rep_from_length. Qed.

Lemma rep_removed cls0 i c : removed_by_x9 (ExplicitSpec.rep cls0 i c) = is_removed c.
Proof.
  unfold ExplicitSpec.rep. destruct (c =c FSI) eqn:E.
  - apply ceq_eq in E. subst c. destruct (fsi_strong cls0 i) as [[]|]; reflexivity.
  - destruct c; reflexivity.
Qed.

Lemma rep_init cls0 i c : is_isolate_init (ExplicitSpec.rep cls0 i c) = is_init c.
Proof.
  unfold ExplicitSpec.rep. destruct (c =c FSI) eqn:E.
  - apply ceq_eq in E. subst c. destruct (fsi_strong cls0 i) as [[]|]; reflexivity.
  - destruct c; reflexivity.
Qed.

Lemma rep_pdi cls0 i c : (ExplicitSpec.rep cls0 i c =c PDI) = (c =c PDI).
Proof.
  unfold ExplicitSpec.rep. destruct (c =c FSI) eqn:E.
  - apply ceq_eq in E. subst c. destruct (fsi_strong cls0 i) as [[]|]; reflexivity.
  - reflexivity.
Qed.

Lemma live_reported cls0 i :
  live (reported_classes cls0) i = negb (is_removed (snth cls0 i BN)).
Proof. unfold live, not_removed_by_x9, snth. rewrite nth_reported, rep_removed. reflexivity. Qed.

Lemma init_reported cls0 i :
  is_isolate_init (nth i (reported_classes cls0) BN) = is_init (nth i cls0 BN).
Proof. rewrite nth_reported. apply rep_init. Qed.

Lemma pdi_reported cls0 i :
  (nth i (reported_classes cls0) BN =c PDI) = (nth i cls0 BN =c PDI).
Proof. rewrite nth_reported. apply rep_pdi. Qed.

Lemma remaining_live cls0 :
  remaining cls0 = filter (live (reported_classes cls0)) (range 0 (length cls0)).
Proof.
  unfold remaining, range. rewrite Nat.sub_0_r. apply filter_ext. intros i.
  symmetry. apply live_reported.
Qed.

Lemma live_lt oc i : live oc i = true -> i < length oc.
Proof.
  unfold live. intros H. destruct (Nat.lt_ge_cases i (length oc)) as [Hl|Hl]; [exact Hl|].
  rewrite nth_overflow in H by lia. discriminate.
Qed.

(* ------------------------------------------------------------------ *)
(* level_class = dir_of_level *)

Lemma level_class_dir l : level_class l = dir_of_level l.
Proof.
  unfold level_class, dir_of_level, is_rtl. rewrite even_mod2.
  destruct (l mod 2 =? 1) eqn:E1, (l mod 2 =? 0) eqn:E0; try reflexivity.
  - apply Nat.eqb_eq in E1, E0. lia.
  - apply Nat.eqb_neq in E1, E0. pose proof (Nat.mod_upper_bound l 2). lia.
Qed.

(* ------------------------------------------------------------------ *)
(* the model's level lookups *)

Section Lookups.
Variable oc : list bclass.
Variable lv : list nat.
Variable pl k : nat.
Hypothesis Hoc : length oc = k.
Hypothesis Hlv : length lv = k.

Definition lives (a b : nat) : list nat := filter (live oc) (range a b).

Definition lvl_or (o : option nat) : nat := match o with Some i => nth i lv 0 | None => pl end.

Lemma get_nth site i x : get site lv i = Ok x -> x = nth i lv 0.
Proof. intros H. apply get_ok in H. symmetry. apply nth_error_nth. exact H. Qed.

Lemma pred_level_spec s x : s <= k -> pred_level_of pl oc lv s = Ok x ->
  x = lvl_or (olast (lives 0 s)).
Proof.
  intros Hs. unfold pred_level_of.
  assert (E : (length oc <? s) = false) by (apply Nat.ltb_ge; lia). rewrite E.
  pose proof (rposition_slice not_removed_by_x9 BN oc 0 s) as H.
  rewrite <- firstn_as_slice in H. specialize (H ltac:(lia) ltac:(lia)).
  assert (Eo : option_map (Nat.add 0) (rposition not_removed_by_x9 (firstn s oc)) = olast (lives 0 s)).
  { eapply last_in_fun; [exact H|]. apply last_filter_range. lia. }
  rewrite <- Eo. destruct (rposition not_removed_by_x9 (firstn s oc)) as [j|]; cbn.
  - apply get_nth.
  - intros Hx. injection Hx as <-. reflexivity.
Qed.

Lemma succ_level_spec en x : en <= k -> succ_level_of pl oc lv en = Ok x ->
  x = lvl_or (hd_error (lives en k)).
Proof.
  intros Hs. unfold succ_level_of.
  assert (E : (length oc <? en) = false) by (apply Nat.ltb_ge; lia). rewrite E.
  assert (H : first_in (fun i => not_removed_by_x9 (nth i oc BN)) en k
                       (option_map (Nat.add en) (position not_removed_by_x9 (skipn en oc)))).
  { rewrite (skipn_as_slice oc en) by lia. rewrite Hoc. apply position_slice; lia. }
  assert (Eo : option_map (Nat.add en) (position not_removed_by_x9 (skipn en oc)) = hd_error (lives en k)).
  { eapply first_in_fun; [exact H|]. apply hd_filter_range. lia. }
  rewrite <- Eo. destruct (position not_removed_by_x9 (skipn en oc)) as [j|]; cbn.
  - apply get_nth.
  - intros Hx. injection Hx as <-. reflexivity.
Qed.

End Lookups.

(* ------------------------------------------------------------------ *)
(* list odds and ends *)

Lemma hd_error_hd l f : hd_error l = Some f -> hd 0 l = f.
Proof. destruct l; cbn; intros H; [discriminate|injection H as ->; reflexivity]. Qed.

Lemma olast_last l x : olast l = Some x -> last l 0 = x.
Proof.
  induction l as [|y t IH] using rev_ind; [discriminate|].
  rewrite olast_snoc, last_last. intros H; injection H as ->; reflexivity.
Qed.

Lemma hd_error_in l (f : nat) : hd_error l = Some f -> In f l.
Proof. destruct l; cbn; intros H; [discriminate|injection H as ->; left; reflexivity]. Qed.

Lemma olast_in l x : olast l = Some x -> In x l.
Proof. unfold olast. intros H. apply in_rev. apply hd_error_in. exact H. Qed.

Lemma nonempty_hd_last (l : list nat) : StageRel.nonempty l = true ->
  exists f x, hd_error l = Some f /\ olast l = Some x.
Proof.
  destruct l as [|a t]; [discriminate|]. intros _. exists a.
  destruct (exists_last (l := a :: t)) as [t' [x E]]; [discriminate|].
  exists x. split; [reflexivity|]. rewrite E. apply olast_snoc.
Qed.

Lemma map_res_Forall2 {A B} (f : A -> res B) : forall l ys,
  map_res f l = Ok ys -> Forall2 (fun x y => f x = Ok y) l ys.
Proof.
  induction l as [|x t IH]; intros ys H; cbn [map_res] in H.
  - injection H as <-. constructor.
  - apply bind_ok in H. destruct H as [y [Hy H]]. apply bind_ok in H. destruct H as [ys' [Hys H]].
    injection H as <-. constructor; [exact Hy|apply IH; exact Hys].
Qed.

Lemma tile_le' k : forall runs pos, tile_from pos k runs -> pos <= k.
Proof.
  induction runs as [|[s en] t IH]; intros pos H; cbn [tile_from] in H.
  - lia.
  - destruct H as [-> [H2 H3]]. apply IH in H3. lia.
Qed.

Lemma ll_eqb_eq a b : nat_ll_eqb a b = true -> a = b.
Proof.
  unfold nat_ll_eqb. apply list_eqb_eq. intros x y. apply list_eqb_eq. apply Nat.eqb_eq.
Qed.

(* ------------------------------------------------------------------ *)
(* one paragraph *)

Section Para.
Variable cls0 : list bclass.
Variable pl : nat.
Variable lv : list nat.
Let oc := reported_classes cls0.
Let k := length cls0.
Let xlev := fst (explicit_levels cls0 pl).
Hypothesis Hlv : length lv = k.
Hypothesis Hagree : forall i, i < k -> live oc i = true -> nth_error lv i = nth i xlev None.

Lemma oc_length : length oc = k.
Proof. apply reported_length. Qed.

Lemma lev_at_live i : live oc i = true -> lev_at xlev pl i = nth i lv 0.
Proof.
  intros H. pose proof (live_lt oc i H) as Hi. rewrite oc_length in Hi.
  unfold lev_at, snth. rewrite <- (Hagree i Hi H).
  rewrite (nth_error_nth' lv 0) by lia. reflexivity.
Qed.

Lemma in_lives a b x : In x (lives oc a b) <-> (a <= x /\ x < b /\ live oc x = true).
Proof. apply in_filter_range. Qed.

Lemma seq_sos_lives sq f : first_of sq = f -> live oc f = true ->
  seq_sos xlev pl (remaining cls0) sq =
  dir_of_level (Nat.max (nth f lv 0) (lvl_or lv pl (olast (lives oc 0 f)))).
Proof.
  intros Hf Hl. unfold seq_sos. rewrite Hf, (lev_at_live f Hl). f_equal. f_equal.
  rewrite remaining_live. fold oc. fold k.
  pose proof (live_lt oc f Hl) as Hfk. rewrite oc_length in Hfk.
  rewrite (filter_lt_range (live oc) 0 k f) by lia. fold (lives oc 0 f).
  unfold olast. destruct (rev (lives oc 0 f)) as [|i r] eqn:E; cbn; [reflexivity|].
  apply lev_at_live. assert (Hi : In i (lives oc 0 f)) by (apply in_rev; rewrite E; left; reflexivity).
  apply in_lives in Hi. apply Hi.
Qed.

Lemma seq_eos_lives sq l : last_of sq = l -> live oc l = true ->
  seq_eos cls0 xlev pl (remaining cls0) sq =
  dir_of_level (Nat.max (nth l lv 0)
     (if is_init (snth cls0 l ON) && match matching_pdi cls0 l with None => true | Some _ => false end
      then pl else lvl_or lv pl (hd_error (lives oc (S l) k)))).
Proof.
  intros Hf Hl. unfold seq_eos. rewrite Hf, (lev_at_live l Hl). f_equal. f_equal.
  destruct (is_init (snth cls0 l ON) && _); [reflexivity|].
  rewrite remaining_live. fold oc. fold k.
  pose proof (live_lt oc l Hl) as Hfk. rewrite oc_length in Hfk.
  rewrite (filter_gt_range (live oc) 0 k l) by lia. fold (lives oc (S l) k).
  destruct (lives oc (S l) k) as [|i r] eqn:E; cbn; [reflexivity|].
  apply lev_at_live. assert (Hi : In i (lives oc (S l) k)) by (rewrite E; left; reflexivity).
  apply in_lives in Hi. apply Hi.
Qed.

(* what the fast path computes for one run *)
Lemma fast_one_spec s en sq : s < en -> en <= k ->
  irs_fast_one pl oc lv (s, en) = Ok sq ->
  irs_runs sq = [(s, en)] /\
  forall f l, hd_error (lives oc s en) = Some f -> olast (lives oc s en) = Some l ->
    irs_sos sq = dir_of_level (Nat.max (nth f lv 0) (lvl_or lv pl (olast (lives oc 0 f)))) /\
    irs_eos sq = dir_of_level (Nat.max (nth l lv 0) (lvl_or lv pl (hd_error (lives oc (S l) k)))).
Proof.
  intros H1 H2. unfold irs_fast_one.
  destruct (slice_total 73 lv s en) as [E1 L1]; [lia|lia|]. rewrite E1. cbn [bind].
  destruct (slice_total 74 oc s en) as [E2 L2]; [lia|rewrite oc_length; lia|]. rewrite E2. cbn [bind].
  intros H. apply bind_ok in H. destruct H as [x1 [G1 H]].
  assert (E : (en <=? s) = false) by (apply Nat.leb_gt; lia). rewrite E in H. cbn [bind] in H.
  apply bind_ok in H. destruct H as [x2 [G2 H]].
  apply bind_ok in H. destruct H as [x3 [G3 H]].
  apply bind_ok in H. destruct H as [x4 [G4 H]].
  injection H as <-. cbn [irs_runs irs_sos irs_eos]. split; [reflexivity|].
  intros f l Hf Hl.
  pose proof (position_slice not_removed_by_x9 BN oc s en ltac:(lia) ltac:(rewrite oc_length; lia)) as P1.
  pose proof (rposition_slice not_removed_by_x9 BN oc s en ltac:(lia) ltac:(rewrite oc_length; lia)) as P2.
  pose proof (hd_filter_range (live oc) s en ltac:(lia)) as Q1. fold (lives oc s en) in Q1.
  pose proof (last_filter_range (live oc) s en ltac:(lia)) as Q2. fold (lives oc s en) in Q2.
  pose proof (first_in_fun _ _ _ _ _ P1 Q1) as F1. rewrite Hf in F1, Q1.
  pose proof (last_in_fun _ _ _ _ _ P2 Q2) as F2. rewrite Hl in F2, Q2.
  destruct (position not_removed_by_x9 (firstn (en - s) (skipn s oc))) as [j1|]; [|discriminate].
  destruct (rposition not_removed_by_x9 (firstn (en - s) (skipn s oc))) as [j2|]; [|discriminate].
  cbn in F1, F2. injection F1 as F1. injection F2 as F2. cbn [opt_or] in G1, G2.
  cbn in Q1, Q2. destruct Q1 as [Q1a [Q1b [Q1c Q1d]]]. destruct Q2 as [Q2a [Q2b [Q2c Q2d]]].
  apply get_ok in G1. apply get_ok in G2.
  assert (X1 : x1 = nth f lv 0).
  { erewrite <- (nth_error_nth _ _ 0 G1). rewrite nth_slice by lia. rewrite F1. reflexivity. }
  assert (X2 : x2 = nth l lv 0).
  { erewrite <- (nth_error_nth _ _ 0 G2). rewrite nth_slice by lia. rewrite F2. reflexivity. }
  apply (pred_level_spec oc lv pl k oc_length Hlv) in G3; [|lia].
  apply (succ_level_spec oc lv pl k oc_length Hlv) in G4; [|lia].
  rewrite !level_class_dir. subst x1 x2 x3 x4. split; f_equal; f_equal; f_equal.
  - eapply last_in_fun; [|apply last_filter_range; lia].
    eapply last_in_extend; [| |apply last_filter_range; lia]; [lia|].
    intros j Ha Hb. apply Q1d; lia.
  - eapply first_in_fun; [|apply hd_filter_range; lia].
    eapply first_in_extend; [| |apply hd_filter_range; lia]; [lia|].
    intros j Ha Hb. apply Q2d; lia.
Qed.

Definition liveR (r : run) : list nat := lives oc (fst r) (snd r).
Definition spec3 (s : list nat) : seq3 :=
  (s, seq_sos xlev pl (remaining cls0) s, seq_eos cls0 xlev pl (remaining cls0) s).

Lemma runs_live_liveR runs : runs_live oc runs = filter StageRel.nonempty (map liveR runs).
Proof. reflexivity. Qed.

Lemma model_seq3_cons sq seqs :
  model_seq3 oc (sq :: seqs) =
  (if StageRel.nonempty (live_idx oc sq) then [(live_idx oc sq, irs_sos sq, irs_eos sq)] else [])
  ++ model_seq3 oc seqs.
Proof.
  unfold model_seq3. cbn [map filter fst]. destruct (StageRel.nonempty (live_idx oc sq)); reflexivity.
Qed.

Lemma live_idx_single sq r : irs_runs sq = [r] -> live_idx oc sq = liveR r.
Proof.
  intros H. unfold live_idx, seq_idx. rewrite H. cbn [flat_map]. rewrite app_nil_r. reflexivity.
Qed.

Hypothesis Hnoinit : forall i, is_init (snth cls0 i ON) = false.

Lemma fast_runs : forall runs pos seqs,
  tile_from pos k runs ->
  Forall2 (fun r sq => irs_fast_one pl oc lv r = Ok sq) runs seqs ->
  model_seq3 oc seqs = map spec3 (filter StageRel.nonempty (map liveR runs)).
Proof.
  induction runs as [|[s en] runs IH]; intros pos seqs Ht HF; inversion HF as [|r sq rs sqs Hsq Hrest]; subst.
  - reflexivity.
  - cbn [tile_from] in Ht. destruct Ht as [Hs [Hlt Ht]]. subst pos.
    pose proof (tile_le' k runs en Ht) as Hen.
    destruct (fast_one_spec s en sq Hlt Hen Hsq) as [Hr Hse].
    rewrite model_seq3_cons, (IH en sqs Ht Hrest), (live_idx_single sq (s, en) Hr).
    cbn [map filter]. destruct (StageRel.nonempty (liveR (s, en))) eqn:En; [|reflexivity].
    cbn [map app]. f_equal.
    destruct (nonempty_hd_last _ En) as [f [l [Hf Hl]]]. unfold liveR in *. cbn [fst snd] in *.
    destruct (Hse f l Hf Hl) as [Hsos Heos].
    assert (Lf : live oc f = true) by (apply hd_error_in in Hf; apply in_lives in Hf; apply Hf).
    assert (Ll : live oc l = true) by (apply olast_in in Hl; apply in_lives in Hl; apply Hl).
    unfold spec3. rewrite Hsos, Heos.
    rewrite (seq_sos_lives _ f (hd_error_hd _ _ Hf) Lf).
    rewrite (seq_eos_lives _ l (olast_last _ _ Hl) Ll).
    rewrite Hnoinit. reflexivity.
Qed.

Lemma existsb_none (runs : list (list nat)) (g : list nat -> option nat) (p : nat) :
  (forall q, g q = None) ->
  existsb (fun t : option nat => match t with Some x => x =? p | None => false end) (map g runs) = false.
Proof.
  intros Hg. induction runs as [|q t IH]; cbn [map existsb]; [reflexivity|].
  rewrite Hg, IH. reflexivity.
Qed.

Lemma isolating_noinit lev : isolating_sequences cls0 lev = level_runs lev (remaining cls0).
Proof.
  unfold isolating_sequences. set (runs := level_runs lev (remaining cls0)).
  assert (Hc : forall rs r, continuation cls0 rs r = None).
  { intros rs r. unfold continuation. rewrite Hnoinit. reflexivity. }
  rewrite filter_all_true.
  - rewrite (map_ext_in _ (fun r => r)); [apply map_id|].
    intros r _. destruct (length runs); cbn [chain]; [reflexivity|]. rewrite Hc. reflexivity.
  - intros r _. rewrite existsb_none; [reflexivity|]. intros q. rewrite Hc. reflexivity.
Qed.

End Para.

(* ------------------------------------------------------------------ *)

Lemma noinit_from_reported cls0 :
  forallb (fun c => negb (is_isolate_init c)) (reported_classes cls0) = true ->
  forall i, is_init (snth cls0 i ON) = false.
Proof.
  intros H i. unfold snth. destruct (Nat.lt_ge_cases i (length cls0)) as [Hi|Hi].
  - rewrite (nth_indep cls0 ON BN Hi), <- init_reported.
    rewrite forallb_forall in H. apply negb_true_iff. apply H. apply nth_In.
    rewrite reported_length. exact Hi.
  - rewrite nth_overflow by lia. reflexivity.
Qed.

Theorem cs_sequences_fast_proof : CS_sequences_fast.
Proof.
  unfold CS_sequences_fast, cs_sequences_hyps.
  intros cls0 pl lv runs seqs H. cbv zeta in H.
  destruct H as [Hpl [Hsp [Hlv [Hk [Ht [Hag Hbd]]]]]]. intros Hno Hm.
  apply andb_true_iff in Hbd. destruct Hbd as [Hbd _].
  apply andb_true_iff in Hbd. destruct Hbd as [Hbd _]. apply ll_eqb_eq in Hbd.
  unfold isolating_run_sequences in Hm. cbn [negb] in Hm. apply map_res_Forall2 in Hm.
  pose proof (noinit_from_reported cls0 Hno) as Hni.
  rewrite (fast_runs cls0 pl lv Hlv Hag Hni runs 0 seqs Ht Hm).
  unfold spec_seq3. rewrite (isolating_noinit cls0 Hni). rewrite <- Hbd.
  apply Permutation_refl.
Qed.
