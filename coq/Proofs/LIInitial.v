(* Proofs/LIInitial.v — LENGTH INDEPENDENCE of compute_initial_info (Stmts3.LI_initial):
   the scan of a text in any encoding is the per-unit expansion of the scan of its character list in
   the ghost encoding U32.
   1. a self-contained library about [total], [expand], [ustart];
   2. the unit-level state as a FUNCTION [ust j] of the character-level state after j characters,
      the invariant [Inv j] of the character-level state, and the one-step simulation;
   3. the fold and the final theorem. *)
From BidiVerif Require Import Base ConstsGen TablesGen ModelText ModelResolve ModelLine Spec Obs Judge
     Stmts Stmts2 Stmts3.
From BidiVerif.Proofs Require Import TextView.
From Coq Require Import Lia.

(* ================================================================== *)
(* 1. library *)

Lemma li_bind_ok {A B} (r : res A) (f : A -> res B) y :
  bind r f = Ok y -> exists x, r = Ok x /\ f x = Ok y.
Proof. destruct r as [x|s]; cbn [bind]; intros H; [exists x; auto | discriminate H]. Qed.

Lemma li_fold_add_acc l : forall a, fold_left Nat.add l a = a + fold_left Nat.add l 0.
Proof.
  induction l as [|x l IH]; intros a; cbn [fold_left]; [lia|].
  rewrite (IH (a + x)), (IH (0 + x)). lia.
Qed.

Lemma li_total_nil : total [] = 0.
Proof. reflexivity. Qed.

Lemma li_total_cons x l : total (x :: l) = x + total l.
Proof. unfold total. cbn [fold_left]. rewrite li_fold_add_acc. lia. Qed.

Lemma li_total_app a b : total (a ++ b) = total a + total b.
Proof.
  induction a as [|x a IH]; [reflexivity|].
  rewrite <- app_comm_cons, !li_total_cons, IH. lia.
Qed.

Lemma li_xp_nil_l {A} (v : list A) : expand [] v = [].
Proof. reflexivity. Qed.

Lemma li_xp_cons {A} (n : nat) (lens : list nat) (x : A) (xs : list A) :
  expand (n :: lens) (x :: xs) = repeat x n ++ expand lens xs.
Proof. reflexivity. Qed.

Lemma li_xp_app {A} (l1 : list nat) : forall (v1 : list A) l2 v2, length l1 = length v1 ->
  expand (l1 ++ l2) (v1 ++ v2) = expand l1 v1 ++ expand l2 v2.
Proof.
  induction l1 as [|n l1 IH]; intros [|x v1] l2 v2 H; try discriminate H; [reflexivity|].
  rewrite <- !app_comm_cons, !li_xp_cons, IH by (cbn [length] in H; lia).
  apply app_assoc.
Qed.

Lemma li_xp_snoc {A} (l1 : list nat) (v1 : list A) n x : length l1 = length v1 ->
  expand (l1 ++ [n]) (v1 ++ [x]) = expand l1 v1 ++ repeat x n.
Proof.
  intros H. rewrite li_xp_app by exact H. rewrite li_xp_cons.
  change (expand [] []) with (@nil A). rewrite app_nil_r. reflexivity.
Qed.

Lemma li_xp_length {A} (l : list nat) : forall (v : list A), length l = length v ->
  length (expand l v) = total l.
Proof.
  induction l as [|n l IH]; intros [|x v] H; try discriminate H; [reflexivity|].
  rewrite li_xp_cons, app_length, repeat_length, li_total_cons, IH by (cbn [length] in H; lia).
  reflexivity.
Qed.

(* ---- [ustart] ---- *)
Lemma li_ustart_0 lens : ustart lens 0 = 0.
Proof. reflexivity. Qed.

Lemma li_firstn_S {A} (l : list A) : forall j x, nth_error l j = Some x ->
  firstn (S j) l = firstn j l ++ [x].
Proof.
  induction l as [|h t IH]; intros [|j] x H; try discriminate H.
  - injection H as ->. reflexivity.
  - cbn [nth_error] in H. change (firstn (S (S j)) (h :: t)) with (h :: firstn (S j) t).
    rewrite (IH j x H). reflexivity.
Qed.

Lemma li_ustart_S lens j len : nth_error lens j = Some len ->
  ustart lens (S j) = ustart lens j + len.
Proof.
  intros H. unfold ustart. rewrite (li_firstn_S lens j len H), li_total_app, li_total_cons, li_total_nil. lia.
Qed.

Lemma li_ustart_all lens : ustart lens (length lens) = total lens.
Proof. unfold ustart. rewrite firstn_all. reflexivity. Qed.

Lemma li_ustart_firstn lens m s : s <= m -> ustart (firstn m lens) s = ustart lens s.
Proof. intros H. unfold ustart. rewrite firstn_firstn. replace (Nat.min s m) with s by lia. reflexivity. Qed.

Lemma li_total_pos lens : Forall (fun n => 0 < n) lens -> lens <> [] -> 0 < total lens.
Proof.
  intros H Hne. destruct lens as [|x l]; [congruence|].
  inversion H; subst. rewrite li_total_cons. lia.
Qed.

(* strict monotonicity against the end of the text *)
Lemma li_ustart_lt_total lens s : Forall (fun n => 0 < n) lens -> s < length lens ->
  ustart lens s < total lens.
Proof.
  intros Hp Hs. unfold ustart.
  rewrite <- (firstn_skipn s lens) at 2. rewrite li_total_app.
  assert (0 < total (skipn s lens)); [|lia].
  apply li_total_pos.
  - rewrite <- (firstn_skipn s lens) in Hp. apply Forall_app in Hp. apply Hp.
  - intros E. apply (f_equal (@length nat)) in E. rewrite skipn_length in E. cbn [length] in E. lia.
Qed.

Lemma li_ustart_le_total lens s : ustart lens s <= total lens.
Proof.
  unfold ustart. rewrite <- (firstn_skipn s lens) at 2. rewrite li_total_app. lia.
Qed.

Lemma li_nth_firstn {A} (l : list A) : forall m s d, s < m -> nth s (firstn m l) d = nth s l d.
Proof.
  induction l as [|h t IH]; intros m s d H.
  - rewrite firstn_nil. reflexivity.
  - destruct m as [|m]; [lia|]. destruct s as [|s]; [reflexivity|].
    cbn [firstn nth]. apply IH. lia.
Qed.

(* ---- [upd] ---- *)
Lemma li_upd_mid {A} site (X : list A) y Z k : upd site (X ++ y :: Z) (length X) k = Ok (X ++ k :: Z).
Proof.
  unfold upd.
  assert (E : upd_opt (X ++ y :: Z) (length X) k = Some (X ++ k :: Z)).
  { induction X as [|h X IH]; [reflexivity|]. cbn [app length upd_opt]. rewrite IH. reflexivity. }
  rewrite E. reflexivity.
Qed.

Lemma li_upd_opt_app {A} (l : list A) : forall s y l' t, upd_opt l s y = Some l' ->
  upd_opt (l ++ t) s y = Some (l' ++ t).
Proof.
  induction l as [|h l IH]; intros s y l' t H; [discriminate H|].
  destruct s as [|s].
  - cbn [upd_opt] in H. injection H as <-. reflexivity.
  - cbn [upd_opt] in H. destruct (upd_opt l s y) as [l1|] eqn:E; [|discriminate H].
    injection H as <-. rewrite <- !app_comm_cons. cbn [upd_opt]. rewrite (IH s y l1 t E). reflexivity.
Qed.

Lemma li_upd_opt_length {A} (l : list A) : forall s y l', upd_opt l s y = Some l' -> length l' = length l.
Proof.
  induction l as [|h l IH]; intros s y l' H; [discriminate H|].
  destruct s as [|s]; cbn [upd_opt] in H.
  - injection H as <-. reflexivity.
  - destruct (upd_opt l s y) as [l1|] eqn:E; [|discriminate H].
    injection H as <-. cbn [length]. rewrite (IH s y l1 E). reflexivity.
Qed.

Lemma li_upd_opt_nth {A} (l : list A) : forall s y l' i, upd_opt l s y = Some l' ->
  nth_error l' i = if i =? s then Some y else nth_error l i.
Proof.
  induction l as [|h l IH]; intros s y l' i H; [discriminate H|].
  destruct s as [|s]; cbn [upd_opt] in H.
  - injection H as <-. destruct i; reflexivity.
  - destruct (upd_opt l s y) as [l1|] eqn:E; [|discriminate H].
    injection H as <-. destruct i as [|i]; [reflexivity|].
    cbn [nth_error]. rewrite (IH s y l1 i E). reflexivity.
Qed.

(* ---- the units of character [s] inside an expansion ---- *)
Lemma li_xp_split {A} (ls : list nat) : forall (v : list A) s,
  length ls = length v -> s < length v ->
  exists P Q x, length P = ustart ls s /\ nth_error v s = Some x /\
    expand ls v = P ++ repeat x (nth s ls 0) ++ Q /\
    forall y, exists v', upd_opt v s y = Some v' /\ expand ls v' = P ++ repeat y (nth s ls 0) ++ Q.
Proof.
  induction ls as [|m l IH]; intros [|x r] s H Hs; cbn [length] in *; try lia.
  destruct s as [|s].
  - exists [], (expand l r), x. split; [reflexivity|]. split; [reflexivity|]. split; [reflexivity|].
    intros y. exists (y :: r). split; reflexivity.
  - destruct (IH r s ltac:(lia) ltac:(lia)) as (P & Q & x0 & HP & Hx & HE & HU).
    exists (repeat x m ++ P), Q, x0. split; [|split; [|split]].
    + unfold ustart in *. cbn [firstn]. rewrite app_length, repeat_length, li_total_cons, HP. reflexivity.
    + exact Hx.
    + cbn [nth]. rewrite li_xp_cons, HE, app_assoc. reflexivity.
    + intros y. destruct (HU y) as (v' & Hv & Hv').
      exists (x :: v'). split.
      * cbn [upd_opt]. rewrite Hv. reflexivity.
      * cbn [nth]. rewrite li_xp_cons, Hv', app_assoc. reflexivity.
Qed.

(* ---- the FSI rewrite of a whole character ---- *)
Lemma li_write_fsi_from (P : list bclass) x k Q m : forall j,
  write_fsi (P ++ repeat k j ++ repeat x m ++ Q) (length P) (seq j m) k
  = Ok (P ++ repeat k (j + m) ++ Q).
Proof.
  induction m as [|m IH]; intros j.
  - cbn [seq write_fsi repeat app]. rewrite Nat.add_0_r. reflexivity.
  - cbn [seq write_fsi repeat].
    replace (P ++ repeat k j ++ (x :: repeat x m) ++ Q)
      with ((P ++ repeat k j) ++ x :: repeat x m ++ Q) by (rewrite <- app_assoc; reflexivity).
    replace (length P + j) with (length (P ++ repeat k j)) by (rewrite app_length, repeat_length; reflexivity).
    rewrite li_upd_mid. cbn [bind].
    replace ((P ++ repeat k j) ++ k :: repeat x m ++ Q)
      with (P ++ repeat k (S j) ++ repeat x m ++ Q).
    + rewrite IH. replace (S j + m) with (j + S m) by lia. reflexivity.
    + rewrite <- app_assoc. f_equal.
      change (repeat k (S j)) with (k :: repeat k j). rewrite repeat_cons.
      rewrite <- app_assoc. reflexivity.
Qed.

Lemma li_write_fsi_block (P : list bclass) x k Q m :
  write_fsi (P ++ repeat x m ++ Q) (length P) (range 0 m) k = Ok (P ++ repeat k m ++ Q).
Proof.
  unfold range. rewrite Nat.sub_0_r.
  exact (li_write_fsi_from P x k Q m 0).
Qed.

(* ================================================================== *)
(* 2. one step *)

Section Sim.
Variable e : enc.
Variable ds : datasource.
Variable chars : list (N * nat).
Hypothesis Hch : Forall (fun ch => snd ch = char_len e (fst ch) /\ 0 < snd ch) chars.
Hypothesis Hfsi : fsi_proviso e ds chars.
Notation lens := (map snd chars).

(* the unit-level state that corresponds to the character-level state [st] after [j] characters *)
Definition ust (j : nat) (st : ii_state) : ii_state :=
  {| ii_classes := expand (firstn j lens) (ii_classes st);
     ii_stack := map (ustart lens) (ii_stack st);
     ii_para_start := ustart lens (ii_para_start st);
     ii_para_level := ii_para_level st;
     ii_pure := ii_pure st; ii_iso := ii_iso st;
     ii_paras := map (upara lens) (ii_paras st);
     ii_flags := ii_flags st |}.

(* invariant of the character-level state after [j] characters *)
Record Inv (j : nat) (st : ii_state) : Prop := {
  inv_len : length (ii_classes st) = j;
  inv_stk : Forall (fun s => s < j) (ii_stack st);
  inv_ps : ii_para_start st <= j;
  inv_fsi : forall s, nth_error (ii_classes st) s = Some FSI -> nth s lens 0 = char_len e fc_FSI
}.

Lemma lens_pos : Forall (fun n => 0 < n) lens.
Proof.
  apply Forall_map. eapply Forall_impl; [|exact Hch]. intros ch [_ H]. exact H.
Qed.

Lemma char_facts j c len : nth_error chars j = Some (c, len) ->
  len = char_len e c /\ 0 < len /\ (ds_class ds c = FSI -> len = char_len e fc_FSI) /\
  nth_error lens j = Some len /\ j < length chars.
Proof.
  intros H.
  pose proof (nth_error_In _ _ H) as Hin.
  unfold fsi_proviso in Hfsi. rewrite Forall_forall in Hch, Hfsi.
  destruct (Hch _ Hin) as [H1 H2]. pose proof (Hfsi _ Hin) as H3. cbn [fst snd] in *.
  repeat split; try assumption.
  - rewrite nth_error_map, H. reflexivity.
  - apply nth_error_Some. congruence.
Qed.

Lemma xp_step j len (cc : list bclass) cls : nth_error lens j = Some len -> length cc = j ->
  expand (firstn (S j) lens) (cc ++ [cls]) = expand (firstn j lens) cc ++ repeat cls len.
Proof.
  intros Hl Hc. rewrite (li_firstn_S lens j len Hl). apply li_xp_snoc.
  rewrite firstn_length. assert (j < length lens) by (apply nth_error_Some; congruence). lia.
Qed.

(* the units of an earlier character [s] in the unit-level class vector *)
Lemma unit_split j (cc : list bclass) s : length cc = j -> j <= length chars -> s < j ->
  exists P Q x, length P = ustart lens s /\ nth_error cc s = Some x /\ 0 < nth s lens 0 /\
    expand (firstn j lens) cc = P ++ repeat x (nth s lens 0) ++ Q /\
    forall y, exists cc', upd_opt cc s y = Some cc' /\
      expand (firstn j lens) cc' = P ++ repeat y (nth s lens 0) ++ Q.
Proof.
  intros Hc Hj Hs.
  assert (Hl : length (firstn j lens) = length cc) by (rewrite firstn_length, map_length; lia).
  destruct (li_xp_split (firstn j lens) cc s Hl ltac:(lia)) as (P & Q & x & HP & Hx & HE & HU).
  rewrite li_ustart_firstn in HP by lia.
  rewrite li_nth_firstn in HE by exact Hs.
  exists P, Q, x. split; [exact HP|]. split; [exact Hx|]. split; [|split; [exact HE|]].
  - pose proof lens_pos as Hp. rewrite Forall_nth in Hp. apply Hp. rewrite map_length. lia.
  - intros y. destruct (HU y) as (cc' & H1 & H2). rewrite li_nth_firstn in H2 by exact Hs.
    exists cc'. split; assumption.
Qed.

Lemma get_unit j (cc : list bclass) s x tail : length cc = j -> j <= length chars -> s < j ->
  nth_error cc s = Some x ->
  get 383 (expand (firstn j lens) cc ++ tail) (ustart lens s) = Ok x.
Proof.
  intros Hc Hj Hs Hx.
  destruct (unit_split j cc s Hc Hj Hs) as (P & Q & x0 & HP & Hx0 & Hpos & HE & _).
  rewrite Hx in Hx0. injection Hx0 as <-.
  rewrite HE, <- HP. destruct (nth s lens 0) as [|m]; [lia|].
  cbn [repeat]. unfold get. rewrite <- app_assoc, nth_error_app2 by lia.
  rewrite Nat.sub_diag. reflexivity.
Qed.

Lemma write_unit j (cc cc' : list bclass) s y tail : length cc = j -> j <= length chars -> s < j ->
  upd_opt cc s y = Some cc' ->
  write_fsi (expand (firstn j lens) cc ++ tail) (ustart lens s) (range 0 (nth s lens 0)) y
  = Ok (expand (firstn j lens) cc' ++ tail).
Proof.
  intros Hc Hj Hs Hu.
  destruct (unit_split j cc s Hc Hj Hs) as (P & Q & x0 & HP & Hx0 & Hpos & HE & HU).
  destruct (HU y) as (cc1 & H1 & H2). rewrite Hu in H1. injection H1 as <-.
  rewrite HE, H2, <- HP, <- !app_assoc. apply li_write_fsi_block.
Qed.

Lemma Inv_next j st cc' cls len stk' ps' pl pu iso pa fl :
  Inv j st -> nth_error lens j = Some len -> (cls = FSI -> len = char_len e fc_FSI) ->
  length cc' = j ->
  (forall s, nth_error cc' s = Some FSI -> nth_error (ii_classes st) s = Some FSI) ->
  Forall (fun s => s < S j) stk' -> ps' <= S j ->
  Inv (S j) {| ii_classes := cc' ++ [cls]; ii_stack := stk'; ii_para_start := ps';
               ii_para_level := pl; ii_pure := pu; ii_iso := iso; ii_paras := pa; ii_flags := fl |}.
Proof.
  intros HI Hl HF Hc Hsub Hstk Hps.
  constructor; cbn [ii_classes ii_stack ii_para_start].
  - rewrite app_length. cbn [length]. lia.
  - exact Hstk.
  - exact Hps.
  - intros s H. destruct (Nat.lt_ge_cases s (length cc')) as [Hlt|Hge].
    + rewrite nth_error_app1 in H by exact Hlt. apply (inv_fsi _ _ HI), Hsub, H.
    + rewrite nth_error_app2 in H by exact Hge.
      destruct (s - length cc') as [|r] eqn:Er.
      * cbn [nth_error] in H. injection H as H. replace s with j by lia.
        rewrite (nth_error_nth _ _ 0 Hl). apply HF, H.
      * cbn [nth_error] in H. destruct r; discriminate H.
Qed.

Lemma Forall_lt_S j stk : Forall (fun s => s < j) stk -> Forall (fun s => s < S j) stk.
Proof. intros H. eapply Forall_impl; [|exact H]. cbn. intros; lia. Qed.

Lemma strong_sim j len cls kk pure (plf : option nat -> option nat) stc stc' :
  Inv j stc -> nth_error lens j = Some len -> cls <> FSI -> kk <> FSI ->
  match ii_stack stc with
  | start :: _ =>
      k <- get 383 (ii_classes stc ++ repeat cls 1) start ;;
      classes' <- (if k =c FSI
                   then write_fsi (ii_classes stc ++ repeat cls 1) start (range 0 (char_len U32 fc_FSI)) kk
                   else Ok (ii_classes stc ++ repeat cls 1)) ;;
      Ok {| ii_classes := classes'; ii_stack := ii_stack stc; ii_para_start := ii_para_start stc;
            ii_para_level := ii_para_level stc; ii_pure := pure; ii_iso := ii_iso stc;
            ii_paras := ii_paras stc; ii_flags := ii_flags stc |}
  | [] =>
      Ok {| ii_classes := ii_classes stc ++ repeat cls 1; ii_stack := [];
            ii_para_start := ii_para_start stc; ii_para_level := plf (ii_para_level stc);
            ii_pure := pure; ii_iso := ii_iso stc;
            ii_paras := ii_paras stc; ii_flags := ii_flags stc |}
  end = Ok stc' ->
  match ii_stack (ust j stc) with
  | start :: _ =>
      k <- get 383 (ii_classes (ust j stc) ++ repeat cls len) start ;;
      classes' <- (if k =c FSI
                   then write_fsi (ii_classes (ust j stc) ++ repeat cls len) start
                                  (range 0 (char_len e fc_FSI)) kk
                   else Ok (ii_classes (ust j stc) ++ repeat cls len)) ;;
      Ok {| ii_classes := classes'; ii_stack := ii_stack (ust j stc);
            ii_para_start := ii_para_start (ust j stc);
            ii_para_level := ii_para_level (ust j stc); ii_pure := pure; ii_iso := ii_iso (ust j stc);
            ii_paras := ii_paras (ust j stc); ii_flags := ii_flags (ust j stc) |}
  | [] =>
      Ok {| ii_classes := ii_classes (ust j stc) ++ repeat cls len; ii_stack := [];
            ii_para_start := ii_para_start (ust j stc);
            ii_para_level := plf (ii_para_level (ust j stc));
            ii_pure := pure; ii_iso := ii_iso (ust j stc);
            ii_paras := ii_paras (ust j stc); ii_flags := ii_flags (ust j stc) |}
  end = Ok (ust (S j) stc') /\ Inv (S j) stc'.
Proof.
  intros HI Hl Hcls Hkk Hc.
  assert (Hj : j < length chars) by (rewrite <- (map_length snd); apply nth_error_Some; congruence).
  destruct stc as [cc stk ps pl pu iso pa fl].
  pose proof (inv_len _ _ HI) as Hlen. pose proof (inv_stk _ _ HI) as Hstk.
  pose proof (inv_ps _ _ HI) as Hps.
  unfold ust at 1 2 3 4 5 6 7 8 9 10 11 12 13 14 15 16 17.
  cbn [ii_classes ii_stack ii_para_start ii_para_level ii_pure ii_iso ii_paras ii_flags] in *.
  assert (HF : cls = FSI -> len = char_len e fc_FSI) by (intros X; contradiction).
  destruct stk as [|s stk]; cbn [map].
  - injection Hc as <-. split.
    + unfold ust. cbn [ii_classes ii_stack ii_para_start ii_para_level ii_pure ii_iso ii_paras ii_flags map].
      rewrite (xp_step j len cc cls Hl Hlen). reflexivity.
    + apply (Inv_next j _ cc cls len [] ps _ _ _ _ _ HI Hl HF Hlen); [auto | constructor | lia].
  - inversion Hstk as [|? ? Hs Hstk']; subst.
    destruct (unit_split (length cc) cc s eq_refl ltac:(lia) Hs) as (P & Q & x & HP & Hx & Hpos & HE & HU).
    assert (Hg : get 383 (cc ++ repeat cls 1) s = Ok x).
    { unfold get. rewrite nth_error_app1 by exact Hs. rewrite Hx. reflexivity. }
    rewrite Hg in Hc. cbn [bind] in Hc.
    rewrite (get_unit (length cc) cc s x _ eq_refl ltac:(lia) Hs Hx). cbn [bind].
    destruct (x =c FSI) eqn:Ex.
    + apply ceq_eq in Ex. subst x.
      destruct (HU kk) as (cc' & Hu & _).
      assert (Hw : write_fsi (cc ++ repeat cls 1) s (range 0 (char_len U32 fc_FSI)) kk = Ok (cc' ++ [cls])).
      { cbn [char_len range seq Nat.sub write_fsi repeat]. rewrite Nat.add_0_r.
        unfold upd. rewrite (li_upd_opt_app cc s kk cc' [cls] Hu). reflexivity. }
      rewrite Hw in Hc. cbn [bind] in Hc. injection Hc as <-.
      rewrite <- (inv_fsi _ _ HI s Hx).
      rewrite (write_unit (length cc) cc cc' s kk _ eq_refl ltac:(lia) Hs Hu). cbn [bind].
      pose proof (li_upd_opt_length cc s kk cc' Hu) as Hlen'.
      split.
      * unfold ust. cbn [ii_classes ii_stack ii_para_start ii_para_level ii_pure ii_iso ii_paras ii_flags map].
        rewrite (xp_step (length cc) len cc' cls Hl Hlen'). reflexivity.
      * apply (Inv_next (length cc) _ cc' cls len (s :: stk) ps _ _ _ _ _ HI Hl HF Hlen').
        -- intros s' H. rewrite (li_upd_opt_nth cc s kk cc' s' Hu) in H.
           destruct (s' =? s); [injection H as H; contradiction | exact H].
        -- apply Forall_lt_S. exact Hstk.
        -- lia.
    + cbn [bind] in Hc. injection Hc as <-. split.
      * unfold ust. cbn [ii_classes ii_stack ii_para_start ii_para_level ii_pure ii_iso ii_paras ii_flags map].
        rewrite (xp_step (length cc) len cc cls Hl eq_refl). reflexivity.
      * apply (Inv_next (length cc) _ cc cls len (s :: stk) ps _ _ _ _ _ HI Hl HF eq_refl);
          [auto | apply Forall_lt_S; exact Hstk | lia].
Qed.

Lemma li_map_tl {A B} (f : A -> B) l : tl (map f l) = map f (tl l).
Proof. destruct l; reflexivity. Qed.

Lemma Forall_tl {A} (P : A -> Prop) l : Forall P l -> Forall P (tl l).
Proof. intros H. destruct l; [constructor|]. inversion H; assumption. Qed.

Lemma step_sim split dl j c len stc stc' :
  Inv j stc -> nth_error chars j = Some (c, len) ->
  ii_step U32 ds split dl stc (j, c) = Ok stc' ->
  ii_step e ds split dl (ust j stc) (ustart lens j, c) = Ok (ust (S j) stc') /\ Inv (S j) stc'.
Proof.
  intros HI Hn Hc.
  destruct (char_facts j c len Hn) as (Hlen & Hpos & HF & Hl & Hj).
  pose proof (inv_len _ _ HI) as Hcc. pose proof (inv_stk _ _ HI) as Hstk.
  pose proof (inv_ps _ _ HI) as Hps.
  pose proof (li_ustart_S lens j len Hl) as HuS.
  unfold ii_step in Hc |- *. cbv beta iota zeta in Hc |- *.
  rewrite <- Hlen.
  destruct (ds_class ds c) eqn:Ek; cbv beta iota in Hc |- *.
  all: lazymatch type of Ek with _ = ?K =>
    first
    [ (* strong *)
      apply (strong_sim j len K (if K =c L then LRI else RLI)
               (if K =c L then ii_pure stc else false)
               (fun o => match o with None => Some (if K =c L then 0 else 1) | Some l => Some l end)
               stc stc' HI Hl);
      [ discriminate | destruct (K =c L); discriminate | exact Hc ]
    | idtac ] end.
  all: lazymatch type of Ek with _ = ?K =>
      destruct stc as [cc stk ps pl pu iso pa fl];
      unfold ust;
      cbn [ii_classes ii_stack ii_para_start ii_para_level ii_pure ii_iso ii_paras ii_flags
           char_len repeat] in *;
      try destruct split;
      injection Hc as <-;
      (split;
       [ cbn [ii_classes ii_stack ii_para_start ii_para_level ii_pure ii_iso ii_paras ii_flags map];
         rewrite (xp_step j len cc K Hl Hcc), ?Nat.add_1_r, ?li_map_tl, ?map_app;
         cbn [map]; unfold upara; cbn [p_start p_end p_level]; rewrite ?HuS; reflexivity
       | apply (Inv_next j _ cc K len _ _ _ _ _ _ _ HI Hl HF Hcc);
         [ auto
         | first [ exact (Forall_nil _)
                 | apply Forall_lt_S; exact Hstk
                 | apply Forall_cons; [lia | apply Forall_lt_S; exact Hstk]
                 | apply Forall_lt_S, Forall_tl; exact Hstk ]
         | lia ] ]) end.
Qed.



(* ================================================================== *)
(* 3. the scan *)

Definition uidx (pos : nat) (l : list (N * nat)) : list (nat * N) :=
  map (fun x : nat * N * nat => (fst (fst x), snd (fst x))) (positions pos l).

Lemma fold_sim split dl : forall suf pre stc stc',
  chars = pre ++ suf -> Inv (length pre) stc ->
  ii_fold U32 ds split dl stc (combine (seq (length pre) (length suf)) (map fst suf)) = Ok stc' ->
  ii_fold e ds split dl (ust (length pre) stc) (uidx (ustart lens (length pre)) suf)
    = Ok (ust (length chars) stc') /\ Inv (length chars) stc'.
Proof.
  induction suf as [|[c len] suf IH]; intros pre stc stc' Hsp HI Hc.
  - cbn [length seq map combine ii_fold] in Hc. injection Hc as <-.
    assert (E : length chars = length pre) by (rewrite Hsp, app_nil_r; reflexivity).
    rewrite E. split; [reflexivity | exact HI].
  - cbn [length seq map fst combine ii_fold] in Hc.
    apply li_bind_ok in Hc as (st1 & H1 & H2).
    assert (Hn : nth_error chars (length pre) = Some (c, len)).
    { rewrite Hsp, nth_error_app2, Nat.sub_diag by lia. reflexivity. }
    destruct (step_sim split dl (length pre) c len stc st1 HI Hn H1) as [Hs HI'].
    destruct (char_facts _ _ _ Hn) as (_ & _ & _ & Hl & _).
    unfold uidx. cbn [positions map fst snd ii_fold]. rewrite Hs. cbn [bind].
    rewrite <- (li_ustart_S lens (length pre) len Hl).
    specialize (IH (pre ++ [(c, len)]) st1 stc').
    rewrite app_length in IH. cbn [length] in IH. rewrite Nat.add_1_r in IH.
    apply IH; [rewrite <- app_assoc; exact Hsp | exact HI' | exact H2].
Qed.

End Sim.

(* ================================================================== *)
(* 4. the theorem *)

Lemma li_initial_main : LI_initial.
Proof.
  intros e text Hv. unfold li_initial_statement. intros ds d split ii' Hfsi Hc.
  destruct (view_of_proved e text Hv) as (Hci & _ & _ & Hlen & Hch).
  set (chars := view_of e text) in *.
  unfold compute_initial_info in Hc |- *.
  apply li_bind_ok in Hc as (stc & Hf & Hr).
  cbn [t_char_indices t_len] in Hf, Hr. rewrite map_length in Hf, Hr.
  assert (HI0 : Inv e chars 0 {| ii_classes := []; ii_stack := []; ii_para_start := 0;
                                 ii_para_level := d; ii_pure := true; ii_iso := false;
                                 ii_paras := []; ii_flags := [] |}).
  { constructor; cbn [ii_classes ii_stack ii_para_start]; [reflexivity | constructor | lia |].
    intros [|s] H; discriminate H. }
  destruct (fold_sim e ds chars Hch Hfsi split d chars [] _ stc eq_refl HI0 Hf) as [Hu HI].
  rewrite Hci. change (map (fun x : nat * N * nat => (fst (fst x), snd (fst x))) (positions 0 chars))
    with (uidx 0 chars).
  change (ii_fold e ds split d _ (uidx 0 chars))
    with (ii_fold e ds split d (ust chars 0 {| ii_classes := []; ii_stack := []; ii_para_start := 0;
                                 ii_para_level := d; ii_pure := true; ii_iso := false;
                                 ii_paras := []; ii_flags := [] |})
            (uidx (ustart (map snd chars) 0) chars)).
  cbn [length] in Hu. rewrite Hu. cbn [bind]. rewrite Hlen.
  pose proof (inv_ps _ _ _ _ HI) as Hps. pose proof (inv_len _ _ _ _ HI) as Hcc.
  destruct stc as [cc stk ps pl pu iso pa fl].
  unfold ust. cbn [ii_classes ii_stack ii_para_start ii_para_level ii_pure ii_iso ii_paras ii_flags] in *.
  assert (Hall : ustart (map snd chars) (length chars) = total (map snd chars)).
  { rewrite <- (map_length snd chars). apply li_ustart_all. }
  assert (Hb : (ustart (map snd chars) ps <? total (map snd chars)) = (ps <? length chars)).
  { destruct (ps <? length chars) eqn:E.
    - apply Nat.ltb_lt in E. apply Nat.ltb_lt. apply li_ustart_lt_total.
      + apply (lens_pos e chars Hch).
      + rewrite map_length. exact E.
    - apply Nat.ltb_ge in E. apply Nat.ltb_ge. replace ps with (length chars) by lia.
      rewrite Hall. lia. }
  rewrite Hb. rewrite firstn_all2 by (rewrite map_length; lia).
  destruct (split && (ps <? length chars)); injection Hr as <-;
    cbn [in_classes in_level in_pure in_iso in_paras in_flags]; [|reflexivity].
  rewrite map_app. cbn [map]. unfold upara at 3. cbn [p_start p_end p_level]. rewrite Hall. reflexivity.
Qed.
