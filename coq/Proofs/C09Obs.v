(* Proofs/C09Obs.v — for ANY valid text of any encoding: every field of the model's observation that
   C09 looks at is the expansion of the character-level (U32) observation. *)
From BidiVerif Require Import Base ConstsGen TablesGen ModelText ModelResolve ModelLine Spec Obs Judge
     Stmts Stmts2 Stmts3 Stmts4 Stmts5 Stmts6.
From BidiVerif.Proofs Require Import LIAssemble TotalAssemble TextView C09Gen C09Char.
From BidiVerif.Props Require Import LIInitial LengthIndependence LLLevels LLRuns LLReorderLine.
From Coq Require Import Lia.

(* a line of whole characters inside a text of k characters *)
Definition cline_in (k : nat) (r : nat * nat) : Prop := fst r < snd r /\ snd r <= k.

Section Obs9.
Variable e : enc.
Variable ds : datasource.
Variable text : list N.
Variable d : option nat.
Variable clines : list (nat * nat).
Hypothesis Hv : valid_text e text.
Hypothesis Hf : fsi_proviso e ds (view_of e text).

Definition lens9 := map snd (view_of e text).
Definition cps9 := map fst (view_of e text).
Definition case9 : tcase :=
  {| tc_enc := e; tc_ds := ds; tc_text := text; tc_dir := d; tc_lines := map (urun lens9) clines |}.

Lemma lens9_pos : lpos9 lens9.
Proof. exact (view_lens_pos e text Hv). Qed.
Lemma lens9_length : length lens9 = length cps9.
Proof. unfold lens9, cps9. rewrite !map_length. reflexivity. Qed.
Lemma view9_length : length (view_of e text) = length cps9.
Proof. unfold cps9. rewrite map_length. reflexivity. Qed.

Hypothesis Hcl : Forall (cline_in (length cps9)) clines.

(* ---- InitialInfo ---- *)
Lemma obs_ii9 ii' :
  compute_initial_info U32 ds cps9 d true = Ok ii' ->
  to_ii (model_obs false case9) = Ok (expand lens9 (in_classes ii'), map (upara lens9) (in_paras ii')).
Proof.
  intros E. unfold model_obs. cbn [to_ii case9 tc_enc tc_ds tc_text tc_dir].
  rewrite (li_initial e text Hv ds d true ii' Hf E). reflexivity.
Qed.

(* ---- BidiInfo ---- *)
Section BI.
Variable b' : bidi_info.
Hypothesis Eb : bidi_info_new U32 ds cps9 d = Ok b'.
Hypothesis Lc : length (bi_classes b') = length cps9.
Hypothesis Ll : length (bi_levels b') = length cps9.
Hypothesis Ht : ptile 0 (length cps9) (bi_paras b').

Definition bi9 : bidi_info :=
  {| bi_classes := expand lens9 (bi_classes b'); bi_levels := expand lens9 (bi_levels b');
     bi_paras := map (upara lens9) (bi_paras b') |}.

Lemma gen_bi9 : bidi_info_new_gen e ds false text d = Ok bi9.
Proof. exact (li_bidi_info e text Hv ds d b' Hf Eb). Qed.

Lemma obs_bi9 : to_bi (model_obs false case9) = Ok bi9.
Proof. unfold model_obs. cbn [to_bi case9 tc_enc tc_ds tc_text tc_dir]. exact gen_bi9. Qed.

Lemma obs_bi_has_rtl9 : to_bi_has_rtl (model_obs false case9) = Ok (levels_has_rtl (bi_levels b')).
Proof.
  unfold model_obs. cbn [to_bi_has_rtl case9 tc_enc tc_ds tc_text tc_dir]. rewrite gen_bi9. cbn [bind].
  unfold bidi_info_has_rtl, bi9. cbn [bi_levels].
  rewrite has_rtl_expand9; [reflexivity | exact lens9_pos | rewrite lens9_length; exact Ll].
Qed.

Lemma obs_bi_dirs9 :
  to_bi_dirs (model_obs false case9) = map_res (paragraph_direction (bi_levels b')) (bi_paras b').
Proof.
  unfold model_obs. cbn [to_bi_dirs case9 tc_enc tc_ds tc_text tc_dir]. rewrite gen_bi9. cbn [bind].
  unfold bi9. cbn [bi_levels bi_paras]. rewrite map_res_map9. apply map_res_ext9.
  intros p Hp. pose proof (ptile_bounds9 _ _ _ Ht) as HB. rewrite Forall_forall in HB.
  destruct (HB p Hp) as (_ & H1 & H2).
  apply paragraph_direction_expand9; [exact lens9_pos | rewrite lens9_length; exact Ll | exact H1 |].
  rewrite lens9_length. exact H2.
Qed.

Lemma obs_bi_lines9 :
  to_bi_lines (model_obs false case9) =
  map (fun r => model_line false e text (expand lens9 (bi_classes b')) (expand lens9 (bi_levels b'))
                           (p <- para_of_line (bi_paras b') r ;; Ok (p_level p)) (urun lens9 r)) clines.
Proof.
  unfold model_obs. cbn [to_bi_lines case9 tc_enc tc_ds tc_text tc_dir tc_lines]. rewrite gen_bi9.
  rewrite map_map. apply map_ext_in. intros [i j] Hr.
  rewrite Forall_forall in Hcl. destruct (Hcl _ Hr) as [H1 H2]. cbn [fst snd] in H1, H2.
  unfold bi9. cbn [bi_classes bi_levels bi_paras]. unfold urun. cbn [fst snd].
  rewrite para_of_line_upara9; [reflexivity | exact lens9_pos | rewrite lens9_length; lia].
Qed.
End BI.

(* ---- ParagraphBidiInfo ---- *)
Section PI.
Variable p' : para_bidi_info.
Hypothesis Ep : para_bidi_info_new U32 ds cps9 d = Ok p'.
Hypothesis Ll : length (pb_levels p') = length cps9.

Definition pi9 : para_bidi_info :=
  {| pb_classes := expand lens9 (pb_classes p'); pb_levels := expand lens9 (pb_levels p');
     pb_level := pb_level p'; pb_pure := pb_pure p' |}.

Lemma gen_pi9 : para_bidi_info_new_gen e ds false text d = Ok pi9.
Proof. exact (li_para_bidi_info e text Hv ds d p' Hf Ep). Qed.

Lemma obs_pi9 : to_pi (model_obs false case9) = Ok pi9.
Proof. unfold model_obs. cbn [to_pi case9 tc_enc tc_ds tc_text tc_dir]. exact gen_pi9. Qed.

Lemma obs_pi_has_rtl9 : to_pi_has_rtl (model_obs false case9) = Ok (para_bidi_info_has_rtl false p').
Proof.
  unfold model_obs. cbn [to_pi_has_rtl case9 tc_enc tc_ds tc_text tc_dir]. rewrite gen_pi9. reflexivity.
Qed.

Lemma obs_pi_dir9 : to_pi_dir (model_obs false case9) = Ok (para_direction (pb_levels p')).
Proof.
  unfold model_obs. cbn [to_pi_dir case9 tc_enc tc_ds tc_text tc_dir]. rewrite gen_pi9. cbn [bind].
  unfold pi9. cbn [pb_levels].
  rewrite para_direction_expand9; [reflexivity | exact lens9_pos | rewrite lens9_length; exact Ll].
Qed.

Lemma obs_pi_lines9 :
  to_pi_lines (model_obs false case9) =
  map (fun r => model_line false e text (expand lens9 (pb_classes p')) (expand lens9 (pb_levels p'))
                           (Ok (pb_level p')) (urun lens9 r)) clines.
Proof.
  unfold model_obs. cbn [to_pi_lines case9 tc_enc tc_ds tc_text tc_dir tc_lines]. rewrite gen_pi9.
  rewrite map_map. reflexivity.
Qed.
End PI.

(* ---- base direction ---- *)
Lemma obs_bd9 : to_bd (model_obs false case9) = Ok (base_direction_from ds false 0 cps9).
Proof.
  unfold model_obs. cbn [to_bd case9 tc_enc tc_ds tc_text tc_dir]. unfold get_base_direction.
  destruct (view_of_proved e text Hv) as (_ & _ & Hc & _). rewrite Hc. reflexivity.
Qed.
Lemma obs_bdf9 : to_bdf (model_obs false case9) = Ok (base_direction_from ds true 0 cps9).
Proof.
  unfold model_obs. cbn [to_bdf case9 tc_enc tc_ds tc_text tc_dir]. unfold get_base_direction.
  destruct (view_of_proved e text Hv) as (_ & _ & Hc & _). rewrite Hc. reflexivity.
Qed.

(* ---- one line ---- *)
Lemma line_panic9 cls lv s line :
  let ml := model_line false e text cls lv (Panic s) line in
  lo_line ml = line /\ lo_rl ml = Panic s /\ lo_rlc ml = Panic s /\ lo_vr ml = Panic s /\ lo_ro ml = Panic s.
Proof. cbv zeta. unfold model_line. cbn [lo_line lo_rl lo_rlc lo_vr lo_ro bind]. repeat split. Qed.

Lemma line_ok9 cls lv pl i j out' runs' ro' :
  length cls = length cps9 -> length lv = length cps9 -> i < j -> j <= length cps9 ->
  length out' = length cps9 ->
  reordered_levels U32 false cps9 cls lv pl (i, j) = Ok out' ->
  visual_runs_for_line false out' (i, j) = Ok (out', runs') ->
  reorder_line U32 false cps9 cls lv pl (i, j) = Ok ro' ->
  let ml := model_line false e text (expand lens9 cls) (expand lens9 lv) (Ok pl) (urun lens9 (i, j)) in
  lo_line ml = (ustart lens9 i, ustart lens9 j) /\
  lo_rl ml = Ok (expand lens9 out') /\ lo_rlc ml = Ok out' /\
  lo_vr ml = Ok (expand lens9 out', map (urun lens9) runs') /\
  exists out, lo_ro ml = Ok out /\ map fst (view_of e out) = ro' /\
              (well_formed e text -> out = encode_chars e ro').
Proof.
  intros Hc Hl Hij Hj Lo E1 E2 E3. cbv zeta.
  rewrite <- view9_length in Hc, Hl, Hj, Lo.
  destruct (ll_reordered_levels e text Hv cls lv pl i j out' Hc Hl ltac:(lia) Hj E1) as [F1 F2].
  pose proof (ll_visual_runs e text Hv out' i j runs' Lo Hij Hj E2) as F3.
  destruct (ll_reorder_line2 e text Hv cls lv pl i j ro' Hc Hl Hij Hj E3) as (out & F4 & _ & F5 & F6).
  unfold model_line, urun. cbn [lo_line lo_rl lo_rlc lo_vr lo_ro bind fst snd].
  fold lens9 in F1, F2, F3, F4.
  split; [reflexivity|]. split; [exact F1|]. split; [exact F2|].
  split; [rewrite F1; cbn [bind]; exact F3|].
  exists out. split; [exact F4|]. split; [exact F5 | exact F6].
Qed.
End Obs9.
