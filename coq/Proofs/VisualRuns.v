(* Proofs/VisualRuns.v — C05: visual_runs_for_line (run-level L2) against the element-level
   reference Spec.l2, together with the structural checks of Judge.v (cover, uniform+maximal). *)
From BidiVerif Require Import Base ConstsGen ModelText ModelResolve ModelLine Spec Judge Stmts.
From BidiVerif.Proofs Require Import LevelOps.
From Coq Require Import Lia PeanoNat Permutation.

Local Notation elt := (nat * nat)%type.

(* ================================================================== *)
(* 1. element-level facts about rev_runs_ge / l2_down *)

Lemma rrg_app_hi k hs : Forall (fun x : elt => k <= snd x) hs -> forall rest acc,
  rev_runs_ge k (hs ++ rest) acc = rev_runs_ge k rest (rev hs ++ acc).
Proof.
  induction 1 as [|x hs Hx _ IH]; intros rest acc; cbn [app rev rev_runs_ge].
  - reflexivity.
  - apply Nat.leb_le in Hx. rewrite Hx. rewrite IH. rewrite <- app_assoc. reflexivity.
Qed.

Lemma rrg_all_hi k hs acc : Forall (fun x : elt => k <= snd x) hs ->
  rev_runs_ge k hs acc = rev hs ++ acc.
Proof.
  intros H. pose proof (rrg_app_hi k hs H [] acc) as E. rewrite app_nil_r in E. exact E.
Qed.

Lemma rrg_lo k (x : elt) rest acc : snd x < k ->
  rev_runs_ge k (x :: rest) acc = acc ++ x :: rev_runs_ge k rest [].
Proof.
  intros H. cbn [rev_runs_ge]. apply Nat.leb_gt in H. rewrite H. reflexivity.
Qed.

Lemma rrg_app_lo_nil k es : Forall (fun x : elt => snd x < k) es -> forall rest,
  rev_runs_ge k (es ++ rest) [] = es ++ rev_runs_ge k rest [].
Proof.
  induction 1 as [|x es Hx _ IH]; intros rest; cbn [app].
  - reflexivity.
  - rewrite rrg_lo by exact Hx. cbn [app]. rewrite IH. reflexivity.
Qed.

Lemma rrg_app_lo k es : es <> [] -> Forall (fun x : elt => snd x < k) es -> forall rest acc,
  rev_runs_ge k (es ++ rest) acc = acc ++ es ++ rev_runs_ge k rest [].
Proof.
  intros Hne H rest acc. destruct es as [|x es]; [congruence|].
  inversion H as [|? ? Hx Hes]; subst. cbn [app].
  rewrite rrg_lo by exact Hx. rewrite rrg_app_lo_nil by exact Hes. reflexivity.
Qed.

Lemma rrg_invol_gen k xs : forall acc, Forall (fun x : elt => k <= snd x) acc ->
  rev_runs_ge k (rev_runs_ge k xs acc) [] = rev acc ++ xs.
Proof.
  induction xs as [|x r IH]; intros acc Hacc.
  - cbn [rev_runs_ge]. rewrite rrg_all_hi by exact Hacc. reflexivity.
  - cbn [rev_runs_ge]. destruct (k <=? snd x) eqn:E.
    + rewrite IH.
      * cbn [rev]. rewrite <- app_assoc. reflexivity.
      * constructor; [apply Nat.leb_le; exact E | exact Hacc].
    + apply Nat.leb_gt in E.
      rewrite rrg_app_hi by exact Hacc.
      rewrite rrg_lo by exact E.
      rewrite (IH [] (Forall_nil _)). cbn [rev app]. rewrite app_nil_r. reflexivity.
Qed.

Lemma rrg_Forall (P : elt -> Prop) k xs : forall acc,
  Forall P xs -> Forall P acc -> Forall P (rev_runs_ge k xs acc).
Proof.
  induction xs as [|x r IH]; intros acc Hx Ha; cbn [rev_runs_ge].
  - exact Ha.
  - inversion Hx as [|? ? Px Pr]; subst. destruct (k <=? snd x).
    + apply IH; [exact Pr | constructor; assumption].
    + apply Forall_app; split; [exact Ha|]. constructor; [exact Px|].
      apply IH; [exact Pr | constructor].
Qed.

Lemma rrg_ext k xs : Forall (fun x : elt => snd x <> k) xs -> forall acc,
  rev_runs_ge k xs acc = rev_runs_ge (S k) xs acc.
Proof.
  induction 1 as [|x r Hx _ IH]; intros acc; cbn [rev_runs_ge].
  - reflexivity.
  - destruct (Nat.leb_spec k (snd x)) as [A|A], (Nat.leb_spec (S k) (snd x)) as [B|B]; try lia.
    + apply IH.
    + rewrite IH. reflexivity.
Qed.

Lemma rrg_cancel k xs : Forall (fun x : elt => snd x <> k) xs ->
  rev_runs_ge k (rev_runs_ge (S k) xs []) [] = xs.
Proof.
  intros H. rewrite rrg_ext.
  - rewrite rrg_invol_gen by constructor. reflexivity.
  - apply rrg_Forall; [exact H | constructor].
Qed.

Lemma rrg_noop k xs : Forall (fun x : elt => snd x < k) xs -> rev_runs_ge k xs [] = xs.
Proof.
  intros H. pose proof (rrg_app_lo_nil k xs H []) as E. rewrite !app_nil_r in E. exact E.
Qed.

Lemma rrg_map (g : elt -> elt) (Hg : forall x, snd (g x) = snd x) k xs : forall acc,
  map g (rev_runs_ge k xs acc) = rev_runs_ge k (map g xs) (map g acc).
Proof.
  induction xs as [|x r IH]; intros acc; cbn [rev_runs_ge map].
  - reflexivity.
  - rewrite Hg. destruct (k <=? snd x).
    + rewrite IH. reflexivity.
    + rewrite map_app. cbn [map]. rewrite IH. reflexivity.
Qed.

Lemma l2_down_lt K lo (xs : list elt) : K < lo -> l2_down K lo xs = xs.
Proof.
  intros H. destruct K as [|K]; cbn [l2_down]; [reflexivity|].
  apply Nat.leb_gt in H. rewrite H. reflexivity.
Qed.

Lemma l2_down_step K lo (xs : list elt) : lo <= S K ->
  l2_down (S K) lo xs = l2_down K lo (rev_runs_ge (S K) xs []).
Proof.
  intros H. cbn [l2_down]. apply Nat.leb_le in H. rewrite H. reflexivity.
Qed.

Lemma l2_down_Forall (P : elt -> Prop) K lo : forall xs, Forall P xs -> Forall P (l2_down K lo xs).
Proof.
  induction K as [|K IH]; intros xs H; cbn [l2_down]; [exact H|].
  destruct (lo <=? S K); [|exact H].
  apply IH. apply rrg_Forall; [exact H | constructor].
Qed.

Lemma l2_down_map (g : elt -> elt) (Hg : forall x, snd (g x) = snd x) K lo : forall xs,
  map g (l2_down K lo xs) = l2_down K lo (map g xs).
Proof.
  induction K as [|K IH]; intros xs; cbn [l2_down]; [reflexivity|].
  destruct (lo <=? S K); [|reflexivity].
  rewrite IH. rewrite (rrg_map g Hg). reflexivity.
Qed.

(* passes above every level do nothing *)
Lemma l2_down_raise d : forall K lo (xs : list elt), Forall (fun x => snd x <= K) xs ->
  l2_down (K + d) lo xs = l2_down K lo xs.
Proof.
  induction d as [|d IH]; intros K lo xs H.
  - rewrite Nat.add_0_r. reflexivity.
  - rewrite Nat.add_succ_r. destruct (le_lt_dec lo (S (K + d))) as [A|A].
    + rewrite l2_down_step by exact A. rewrite rrg_noop.
      * apply IH. exact H.
      * eapply Forall_impl; [|exact H]. cbn beta. intros x Hx. lia.
    + rewrite l2_down_lt by exact A. rewrite l2_down_lt by lia. reflexivity.
Qed.

Lemma l2_down_raise' K K' lo (xs : list elt) : K <= K' -> Forall (fun x => snd x <= K) xs ->
  l2_down K' lo xs = l2_down K lo xs.
Proof.
  intros L H. replace K' with (K + (K' - K)) by lia. apply l2_down_raise. exact H.
Qed.

(* the passes lo'+2d-1 .. lo' cancel in pairs when no element has an odd level below lo'+2d *)
Lemma l2_down_pairs d : forall lo' (ys : list elt), lo' mod 2 = 1 ->
  Forall (fun x => snd x mod 2 = 1 -> lo' + 2 * d <= snd x) ys ->
  l2_down (lo' + 2 * d - 1) lo' ys = ys.
Proof.
  induction d as [|d IH]; intros lo' ys Hodd H.
  - apply l2_down_lt. lia.
  - replace (lo' + 2 * S d - 1) with (S (S (lo' + 2 * d - 1))) by lia.
    rewrite l2_down_step by lia. rewrite l2_down_step by lia.
    replace (S (S (lo' + 2 * d - 1))) with (S (lo' + 2 * d)) by lia.
    replace (S (lo' + 2 * d - 1)) with (lo' + 2 * d) by lia.
    rewrite rrg_cancel.
    + apply IH; [exact Hodd|]. eapply Forall_impl; [|exact H]. cbn beta. intros x Hx Ho.
      specialize (Hx Ho). lia.
    + eapply Forall_impl; [|exact H]. cbn beta. intros x Hx E.
      assert (Ho : snd x mod 2 = 1) by (rewrite E; lia).
      specialize (Hx Ho). lia.
Qed.

(* lowering the stop level from lo to lo' changes nothing when no element has an odd level below lo *)
Lemma l2_down_stop K : forall (xs : list elt) lo' lo,
  lo' mod 2 = 1 -> lo mod 2 = 1 -> lo' <= lo -> lo - 1 <= K ->
  Forall (fun x => snd x mod 2 = 1 -> lo <= snd x) xs ->
  l2_down K lo' xs = l2_down K lo xs.
Proof.
  induction K as [|K IH]; intros xs lo' lo O1 O2 L1 L2 H.
  - reflexivity.
  - destruct (le_lt_dec lo (S K)) as [A|A].
    + rewrite !l2_down_step by lia. apply IH; try assumption; try lia.
      apply rrg_Forall; [exact H | constructor].
    + rewrite (l2_down_lt (S K) lo) by exact A.
      assert (D : exists d, lo = lo' + 2 * d) by (exists ((lo - lo') / 2); lia).
      destruct D as [d ->].
      replace (S K) with (lo' + 2 * d - 1) by lia.
      apply l2_down_pairs; assumption.
Qed.

(* lowest_odd *)
Definition lo_step (acc : option nat) (l : nat) : option nat :=
  if Nat.odd l then match acc with Some m => Some (Nat.min m l) | None => Some l end else acc.

Lemma lowest_odd_fold lv : lowest_odd lv = fold_left lo_step lv None.
Proof. reflexivity. Qed.

Lemma lowest_odd_gen lv : forall acc,
  match acc with Some m => m mod 2 = 1 | None => True end ->
  match fold_left lo_step lv acc with
  | None => acc = None /\ Forall (fun l => l mod 2 = 0) lv
  | Some lo => lo mod 2 = 1 /\ Forall (fun l => l mod 2 = 1 -> lo <= l) lv /\
               (forall m, acc = Some m -> lo <= m) /\ (In lo lv \/ acc = Some lo)
  end.
Proof.
  induction lv as [|l r IH]; intros acc Hacc; cbn [fold_left].
  - destruct acc as [m|].
    + split; [exact Hacc|]. split; [constructor|]. split; [|right; reflexivity].
      intros m' E. injection E as ->. lia.
    + split; [reflexivity | constructor].
  - assert (Hacc' : match lo_step acc l with Some m => m mod 2 = 1 | None => True end).
    { unfold lo_step. rewrite odd_mod2. destruct (Nat.eqb_spec (l mod 2) 1) as [E|E].
      - destruct acc as [m|]; [|exact E].
        destruct (Nat.min_spec m l) as [[_ ->]|[_ ->]]; assumption.
      - exact Hacc. }
    specialize (IH (lo_step acc l) Hacc').
    destruct (fold_left lo_step r (lo_step acc l)) as [lo|].
    + destruct IH as (O & F & M & I). split; [exact O|].
      unfold lo_step in M, I. rewrite odd_mod2 in M, I.
      destruct (Nat.eqb_spec (l mod 2) 1) as [E|E].
      * split; [|split].
        -- constructor; [|exact F]. intros _.
           destruct acc as [m|]; [specialize (M _ eq_refl); lia | specialize (M _ eq_refl); lia].
        -- intros m ->. specialize (M _ eq_refl). lia.
        -- destruct I as [I|I]; [left; right; exact I|].
           destruct acc as [m|].
           ++ injection I as I. destruct (Nat.min_spec m l) as [[_ Q]|[_ Q]]; rewrite Q in I.
              ** right. subst. reflexivity.
              ** left; left. exact I.
           ++ injection I as I. left; left. exact I.
      * split; [|split].
        -- constructor; [|exact F]. intros Ho. contradiction.
        -- exact M.
        -- destruct I as [I|I]; [left; right; exact I | right; exact I].
    + destruct IH as (A & F). unfold lo_step in A. rewrite odd_mod2 in A.
      destruct (Nat.eqb_spec (l mod 2) 1) as [E|E].
      * destruct acc; discriminate.
      * split; [exact A|]. constructor; [|exact F].
        pose proof (Nat.mod_upper_bound l 2). lia.
Qed.

Lemma lowest_odd_spec lv :
  match lowest_odd lv with
  | None => Forall (fun l => l mod 2 = 0) lv
  | Some lo => lo mod 2 = 1 /\ Forall (fun l => l mod 2 = 1 -> lo <= l) lv /\ In lo lv
  end.
Proof.
  rewrite lowest_odd_fold. pose proof (lowest_odd_gen lv None I) as H.
  destruct (fold_left lo_step lv None) as [lo|].
  - destruct H as (O & F & _ & [X|X]); [|discriminate]. repeat split; assumption.
  - apply H.
Qed.

Lemma fold_max_ge l : forall acc,
  acc <= fold_left Nat.max l acc /\ Forall (fun x => x <= fold_left Nat.max l acc) l.
Proof.
  induction l as [|x r IH]; intros acc; cbn [fold_left].
  - split; [lia | constructor].
  - destruct (IH (Nat.max acc x)) as [A B]. split; [lia|]. constructor; [lia | exact B].
Qed.

(* ================================================================== *)
(* 2. blocks: a list of elements cut into non-empty pieces of one level each *)

Definition block := (nat * list elt)%type.
Definition flatb (bs : list block) : list elt := flat_map (fun b : block => snd b) bs.
Definition okblock (b : block) : Prop := snd b <> [] /\ Forall (fun x : elt => snd x = fst b) (snd b).

Fixpoint bstep (k : nat) (bs acc : list block) : list block :=
  match bs with
  | [] => acc
  | b :: rest => if k <=? fst b then bstep k rest ((fst b, rev (snd b)) :: acc)
                 else acc ++ b :: bstep k rest []
  end.

Lemma flatb_cons b bs : flatb (b :: bs) = snd b ++ flatb bs.
Proof. reflexivity. Qed.
Lemma flatb_app bs cs : flatb (bs ++ cs) = flatb bs ++ flatb cs.
Proof. apply flat_map_app. Qed.

Lemma bstep_flat k bs : Forall okblock bs -> forall acc,
  rev_runs_ge k (flatb bs) (flatb acc) = flatb (bstep k bs acc).
Proof.
  induction 1 as [|b rest [Hne Hb] _ IH]; intros acc; cbn [bstep].
  - reflexivity.
  - rewrite flatb_cons. destruct (Nat.leb_spec k (fst b)) as [A|A].
    + rewrite rrg_app_hi.
      * rewrite <- IH. rewrite flatb_cons. reflexivity.
      * eapply Forall_impl; [|exact Hb]. cbn beta. intros x Hx. lia.
    + rewrite rrg_app_lo.
      * rewrite flatb_app, flatb_cons. rewrite <- (IH []). reflexivity.
      * exact Hne.
      * eapply Forall_impl; [|exact Hb]. cbn beta. intros x Hx. lia.
Qed.

(* ================================================================== *)
(* 3. the model: runs as blocks *)

Section Model.
Variable levels : list nat.

Definition lv (i : nat) : nat := nth i levels 0.
Definition rlev (r : run) : nat := lv (fst r).
Definition elems (r : run) : list elt := map (fun i => (i, lv i)) (range (fst r) (snd r)).
(* the units of run r as they stand when the next pass is k: written backwards iff the number of
   passes already done that included r (those with k < k' <= level r) is odd *)
Definition blk (k : nat) (r : run) : block :=
  (rlev r, if Nat.odd (rlev r - k) then rev (elems r) else elems r).
Definition rgood (r : run) : Prop :=
  fst r < snd r /\ snd r <= length levels /\ forall j, fst r <= j < snd r -> lv j = rlev r.

Lemma get_lv site i : i < length levels -> get site levels i = Ok (lv i).
Proof. intros H. unfold get, lv. rewrite (nth_error_nth' levels 0 H). reflexivity. Qed.

Lemma nth_error_lv i : i < length levels -> nth_error levels i = Some (lv i).
Proof. intros H. unfold lv. apply nth_error_nth'. exact H. Qed.

Lemma blk_fst k r : fst (blk k r) = rlev r.
Proof. reflexivity. Qed.

Lemma blk_lo k r : rlev r < k -> blk (k - 1) r = blk k r.
Proof.
  intros H. unfold blk.
  replace (rlev r - (k - 1)) with 0 by lia. replace (rlev r - k) with 0 by lia. reflexivity.
Qed.

Lemma blk_hi k r : 1 <= k -> k <= rlev r -> blk (k - 1) r = (rlev r, rev (snd (blk k r))).
Proof.
  intros H1 H2. unfold blk. cbn [snd].
  replace (rlev r - (k - 1)) with (S (rlev r - k)) by lia.
  rewrite Nat.odd_succ, <- Nat.negb_odd.
  destruct (Nat.odd (rlev r - k)); cbn [negb]; [rewrite rev_involutive|]; reflexivity.
Qed.

Lemma blk_top K r : rlev r <= K -> blk K r = (rlev r, elems r).
Proof. intros H. unfold blk. replace (rlev r - K) with 0 by lia. reflexivity. Qed.

Lemma elems_ok r : rgood r -> elems r <> [] /\ Forall (fun x : elt => snd x = rlev r) (elems r).
Proof.
  intros (H1 & H2 & H3). unfold elems, range. split.
  - replace (snd r - fst r) with (S (snd r - fst r - 1)) by lia. cbn [seq map]. discriminate.
  - apply Forall_map. apply Forall_forall. intros i Hi. apply in_seq in Hi. cbn [snd].
    apply H3. lia.
Qed.

Lemma blk_ok k r : rgood r -> okblock (blk k r).
Proof.
  intros H. destruct (elems_ok r H) as [Hne Hf]. unfold okblock, blk. cbn [fst snd].
  destruct (Nat.odd (rlev r - k)).
  - split.
    + intros E. apply (f_equal (@rev elt)) in E. rewrite rev_involutive in E. cbn [rev] in E. contradiction.
    + apply Forall_rev. exact Hf.
  - split; assumption.
Qed.

Lemma blks_ok k rs : Forall rgood rs -> Forall okblock (map (blk k) rs).
Proof.
  intros H. apply Forall_map. eapply Forall_impl; [|exact H]. intros r Hr. apply blk_ok. exact Hr.
Qed.

Lemma rrs_spec k : 1 <= k -> forall runs, Forall rgood runs -> forall acc,
  exists runs', reverse_run_seqs levels k runs acc = Ok runs' /\
    Permutation runs' (acc ++ runs) /\
    map (blk (k - 1)) runs' = bstep k (map (blk k) runs) (map (blk (k - 1)) acc).
Proof.
  intros Hk. induction 1 as [|r rest Hr _ IH]; intros acc; cbn [reverse_run_seqs].
  - exists acc. rewrite app_nil_r. split; [reflexivity|]. split; [apply Permutation_refl | reflexivity].
  - assert (Hlt : fst r < length levels) by (destruct Hr as (? & ? & _); lia).
    rewrite (get_lv 963 _ Hlt). cbn [bind]. fold (rlev r).
    cbn [map bstep]. rewrite blk_fst.
    destruct (Nat.ltb_spec (rlev r) k) as [A|A].
    + destruct (IH []) as (rest' & E & P & M). rewrite E. cbn [bind].
      exists (acc ++ r :: rest'). split; [reflexivity|]. split.
      * apply Permutation_app_head. apply perm_skip. exact P.
      * destruct (Nat.leb_spec k (rlev r)) as [B|B]; [lia|].
        rewrite map_app. cbn [map]. rewrite M. rewrite (blk_lo k r A). reflexivity.
    + destruct (IH (r :: acc)) as (runs' & E & P & M). exists runs'. split; [exact E|]. split.
      * eapply Permutation_trans; [exact P|]. cbn [app]. apply Permutation_middle.
      * destruct (Nat.leb_spec k (rlev r)) as [B|B]; [|lia].
        rewrite M. cbn [map]. rewrite (blk_hi k r Hk A). reflexivity.
Qed.

Lemma loop_spec mn' : 1 <= mn' -> forall fuel k runs, k < fuel -> mn' <= k + 1 -> Forall rgood runs ->
  exists runs', runs_l2_loop fuel levels runs k mn' = Ok runs' /\ Permutation runs' runs /\
    flatb (map (blk (mn' - 1)) runs') = l2_down k mn' (flatb (map (blk k) runs)).
Proof.
  intros Hmn. induction fuel as [|f IH]; intros k runs Hf Hk Hg; [lia|].
  cbn [runs_l2_loop]. destruct (Nat.ltb_spec k mn') as [A|A].
  - exists runs. split; [reflexivity|]. split; [apply Permutation_refl|].
    rewrite l2_down_lt by exact A. replace (mn' - 1) with k by lia. reflexivity.
  - destruct k as [|k0]; [lia|].
    destruct (rrs_spec (S k0) ltac:(lia) runs Hg []) as (runs1 & E & P & M).
    rewrite E. cbn [bind]. rewrite lower_spec.
    destruct (Nat.leb_spec 1 (S k0)) as [B|B]; [|lia].
    replace (S k0 - 1) with k0 in * by lia.
    cbn [app] in P.
    assert (Hg1 : Forall rgood runs1).
    { eapply Permutation_Forall; [apply Permutation_sym; exact P | exact Hg]. }
    destruct (IH k0 runs1 ltac:(lia) ltac:(lia) Hg1) as (runs' & E' & P' & M').
    exists runs'. split; [exact E'|]. split; [eapply Permutation_trans; eassumption|].
    rewrite M'. rewrite l2_down_step by lia. rewrite M.
    cbn [map]. rewrite <- (bstep_flat (S k0) _ (blks_ok (S k0) runs Hg) []). reflexivity.
Qed.

(* ================================================================== *)
(* 4. the run list: contiguity, sorting, find_runs *)

Fixpoint chain (p : nat) (rs : list run) (b : nat) : Prop :=
  match rs with
  | [] => p = b
  | r :: t => fst r = p /\ fst r < snd r /\ chain (snd r) t b
  end.

Lemma chain_app rs : forall p q rs' b, chain p rs q -> chain q rs' b -> chain p (rs ++ rs') b.
Proof.
  induction rs as [|r t IH]; intros p q rs' b H1 H2; cbn [app chain] in *.
  - subst. exact H2.
  - destruct H1 as (A & B & C). repeat split; try assumption. eapply IH; eassumption.
Qed.

Lemma chain_le rs : forall p b, chain p rs b -> p <= b.
Proof.
  induction rs as [|r t IH]; intros p b; cbn [chain]; [lia|].
  intros (A & B & C). apply IH in C. lia.
Qed.

Lemma chain_lb rs : forall p b, chain p rs b -> Forall (fun r : run => p <= fst r) rs.
Proof.
  induction rs as [|r t IH]; intros p b; cbn [chain]; [constructor|].
  intros (A & B & C). constructor; [lia|].
  eapply Forall_impl; [|apply (IH _ _ C)]. cbn beta. intros q Hq. lia.
Qed.

Lemma chain_NoDup rs : forall p b, chain p rs b -> NoDup (map fst rs).
Proof.
  induction rs as [|r t IH]; intros p b; cbn [chain map]; [constructor|].
  intros (A & B & C). constructor; [|apply (IH _ _ C)].
  intros Hin. apply in_map_iff in Hin as (q & Eq & Hq).
  pose proof (chain_lb _ _ _ C) as F. rewrite Forall_forall in F. specialize (F q Hq). lia.
Qed.

Fixpoint ins (r : run) (l : list run) : list run :=
  match l with
  | [] => [r]
  | q :: t => if fst r <? fst q then r :: l else q :: ins r t
  end.
Definition insf (acc : list run) (r : run) : list run := ins r acc.
Fixpoint go (b pos : nat) (l : list run) : bool :=
  match l with
  | [] => pos =? b
  | r :: t => (fst r =? pos) && (fst r <? snd r) && go b (snd r) t
  end.

Lemma ins_eq r l :
  (fix ins0 (l : list run) : list run :=
     match l with
     | [] => [r]
     | q :: t => if fst r <? fst q then r :: l else q :: ins0 t
     end) l = ins r l.
Proof.
  induction l as [|q t IH]; [reflexivity|].
  cbn [ins]. destruct (fst r <? fst q); [reflexivity|]. f_equal. exact IH.
Qed.

Lemma go_eq b l : forall pos,
  (fix go0 (pos : nat) (l : list run) : bool :=
     match l with
     | [] => pos =? b
     | r :: t => (fst r =? pos) && (fst r <? snd r) && go0 (snd r) t
     end) pos l = go b pos l.
Proof.
  induction l as [|r t IH]; intros pos; [reflexivity|].
  cbn [go]. rewrite <- IH. reflexivity.
Qed.

Lemma fold_left_ext_run {A B} (f g : A -> B -> A) (H : forall a x, f a x = g a x) l :
  forall a, fold_left f l a = fold_left g l a.
Proof.
  induction l as [|x t IH]; intros a; cbn [fold_left]; [reflexivity|]. rewrite H. apply IH.
Qed.

Lemma runs_cover_eq a b runs : runs_cover a b runs = go b a (fold_left insf runs []).
Proof.
  unfold runs_cover. rewrite go_eq. f_equal.
  apply fold_left_ext_run. intros acc r. apply ins_eq.
Qed.

Lemma ins_comm r1 r2 : fst r1 <> fst r2 -> forall l, ins r1 (ins r2 l) = ins r2 (ins r1 l).
Proof.
  intros Hne. induction l as [|q t IH]; cbn [ins].
  - destruct (Nat.ltb_spec (fst r1) (fst r2)), (Nat.ltb_spec (fst r2) (fst r1)); try reflexivity; lia.
  - destruct (Nat.ltb_spec (fst r1) (fst q)) as [A|A], (Nat.ltb_spec (fst r2) (fst q)) as [B|B]; cbn [ins].
    + destruct (Nat.ltb_spec (fst r1) (fst r2)) as [C|C], (Nat.ltb_spec (fst r2) (fst r1)) as [D|D]; try lia.
      * destruct (Nat.ltb_spec (fst r2) (fst q)); [reflexivity | lia].
      * destruct (Nat.ltb_spec (fst r1) (fst q)); [reflexivity | lia].
    + destruct (Nat.ltb_spec (fst r1) (fst q)); [|lia].
      destruct (Nat.ltb_spec (fst r2) (fst r1)); [lia|]. cbn [ins].
      destruct (Nat.ltb_spec (fst r2) (fst q)); [lia | reflexivity].
    + destruct (Nat.ltb_spec (fst r2) (fst q)); [|lia].
      destruct (Nat.ltb_spec (fst r1) (fst r2)); [lia|]. cbn [ins].
      destruct (Nat.ltb_spec (fst r1) (fst q)); [lia | reflexivity].
    + destruct (Nat.ltb_spec (fst r1) (fst q)); [lia|].
      destruct (Nat.ltb_spec (fst r2) (fst q)); [lia|]. rewrite IH. reflexivity.
Qed.

Lemma fold_ins_perm l l' : Permutation l l' -> NoDup (map fst l) ->
  forall acc, fold_left insf l acc = fold_left insf l' acc.
Proof.
  induction 1 as [|x l l' P IH|x y l|l l' l'' P1 IH1 P2 IH2]; intros ND acc; cbn [fold_left].
  - reflexivity.
  - cbn [map] in ND. inversion ND; subst. apply IH. assumption.
  - unfold insf at 2 3 5 6. rewrite ins_comm; [reflexivity|].
    cbn [map] in ND. inversion ND as [|? ? N1 N2]; subst. intros E. apply N1. left. exact E.
  - rewrite IH1 by exact ND. apply IH2.
    eapply Permutation_NoDup; [|exact ND]. apply Permutation_map. exact P1.
Qed.

Lemma ins_last r l : Forall (fun q : run => fst q <= fst r) l -> ins r l = l ++ [r].
Proof.
  induction 1 as [|q t Hq _ IH]; cbn [ins app]; [reflexivity|].
  destruct (Nat.ltb_spec (fst r) (fst q)); [lia|]. rewrite IH. reflexivity.
Qed.

Lemma fold_ins_chain rs : forall p b acc, chain p rs b -> Forall (fun q : run => fst q <= p) acc ->
  fold_left insf rs acc = acc ++ rs.
Proof.
  induction rs as [|r t IH]; intros p b acc H F; cbn [fold_left].
  - rewrite app_nil_r. reflexivity.
  - cbn [chain] in H. destruct H as (A & B & C). unfold insf at 2.
    rewrite ins_last by (rewrite A; exact F).
    rewrite (IH (snd r) b) ; [rewrite <- app_assoc; reflexivity | exact C |].
    apply Forall_app. split.
    + eapply Forall_impl; [|exact F]. cbn beta. intros q Hq. lia.
    + constructor; [lia | constructor].
Qed.

Lemma chain_go rs : forall p b, chain p rs b -> go b p rs = true.
Proof.
  induction rs as [|r t IH]; intros p b; cbn [chain go].
  - intros ->. apply Nat.eqb_refl.
  - intros (A & B & C). subst p. rewrite Nat.eqb_refl. apply Nat.ltb_lt in B. rewrite B.
    rewrite (IH _ _ C). reflexivity.
Qed.

Lemma cover_of_perm a b rs rs' : chain a rs b -> Permutation rs' rs -> runs_cover a b rs' = true.
Proof.
  intros C P. rewrite runs_cover_eq.
  rewrite <- (fold_ins_perm rs rs' (Permutation_sym P) (chain_NoDup _ _ _ C) []).
  rewrite (fold_ins_chain rs a b [] C (Forall_nil _)). cbn [app]. apply chain_go. exact C.
Qed.

(* maximal uniform runs inside the line [a,b) *)
Definition rmax (a b : nat) (r : run) : Prop :=
  fst r < snd r /\ a <= fst r /\ snd r <= b /\
  (forall j, fst r <= j < snd r -> lv j = rlev r) /\
  (fst r = a \/ lv (fst r - 1) <> rlev r) /\
  (snd r = b \/ lv (snd r) <> rlev r).

Lemma rmax_good a b r : b <= length levels -> rmax a b r -> rgood r.
Proof. intros Hb (A & B & C & D & _). repeat split; try assumption; lia. Qed.

Lemma rmax_judge a b r : b <= length levels -> rmax a b r -> run_uniform_maximal a b levels r = true.
Proof.
  intros Hb (A & B & C & D & E & F). unfold run_uniform_maximal.
  rewrite (nth_error_lv (fst r)) by lia. fold (rlev r).
  apply andb_true_iff; split; [apply andb_true_iff; split|].
  - apply forallb_forall. intros i Hi. unfold range in Hi. apply in_seq in Hi.
    rewrite (nth_error_lv i) by lia. cbn [opt_nat_eqb]. apply Nat.eqb_eq. apply D. lia.
  - destruct E as [E|E]; [rewrite E, Nat.eqb_refl; reflexivity|].
    rewrite (nth_error_lv (fst r - 1)) by lia. cbn [opt_nat_eqb].
    apply Nat.eqb_neq in E. rewrite E. apply orb_true_r.
  - destruct F as [F|F]; [rewrite F, Nat.eqb_refl; reflexivity|].
    destruct (Nat.eq_dec (snd r) b) as [G|G]; [rewrite G, Nat.eqb_refl; reflexivity|].
    rewrite (nth_error_lv (snd r)) by lia. cbn [opt_nat_eqb].
    apply Nat.eqb_neq in F. rewrite F. apply orb_true_r.
Qed.

Lemma lv_le126 i : Forall (fun l => l <= 126) levels -> lv i <= 126.
Proof.
  intros H. unfold lv. destruct (nth_in_or_default i levels 0) as [I|E].
  - rewrite Forall_forall in H. apply H. exact I.
  - rewrite E. lia.
Qed.

Lemma rmax_mk a b s e rl : s < e -> a <= s -> e <= b ->
  (forall j, s <= j < e -> lv j = rl) -> (s = a \/ lv (s - 1) <> rl) -> (e = b \/ lv e <> rl) ->
  rmax a b (s, e).
Proof.
  intros H1 H2 H3 H4 H5 H6.
  assert (E : rlev (s, e) = rl) by (unfold rlev; cbn [fst]; apply H4; lia).
  unfold rmax. rewrite E. cbn [fst snd].
  split; [exact H1|]. split; [exact H2|]. split; [exact H3|]. split; [exact H4|]. split; assumption.
Qed.

Lemma find_runs_spec a b : b <= length levels -> Forall (fun l => l <= 126) levels ->
  forall n i start rl mn mx runs,
    i + n = b -> a <= start -> start < i ->
    (forall j, start <= j < i -> lv j = rl) ->
    (start = a \/ lv (start - 1) <> rl) ->
    chain a runs start -> Forall (rmax a b) runs -> Forall (fun r => mn <= rlev r <= mx) runs ->
    mn <= rl <= mx -> mx <= 126 ->
    exists runs' start' mn1 mx1,
      find_runs levels (seq i n) start rl mn mx runs = Ok (runs', start', mn1, mx1) /\
      chain a (runs' ++ [(start', b)]) b /\ Forall (rmax a b) (runs' ++ [(start', b)]) /\
      Forall (fun r => mn1 <= rlev r <= mx1) (runs' ++ [(start', b)]) /\ mn1 <= mx1 <= 126.
Proof.
  intros Hb H126. induction n as [|n IH]; intros i start rl mn mx runs Hi Ha Hs Hu Hl Hc Hm Hbd Hrl Hmx.
  - cbn [seq find_runs]. exists runs, start, mn, mx. split; [reflexivity|].
    assert (Erl : rlev (start, b) = rl) by (unfold rlev; cbn [fst]; apply Hu; lia).
    split; [|split; [|split]].
    + eapply chain_app; [exact Hc|]. cbn [chain fst snd]. lia.
    + apply Forall_app. split; [exact Hm|]. constructor; [|constructor].
      apply (rmax_mk a b start b rl); try lia; try assumption.
      intros j Hj. apply Hu. lia.
    + apply Forall_app. split; [exact Hbd|]. constructor; [|constructor]. rewrite Erl. exact Hrl.
    + lia.
  - cbn [seq find_runs]. rewrite (nth_error_lv i) by lia.
    assert (Erl : lv start = rl) by (apply Hu; lia).
    destruct (Nat.eqb_spec (lv i) rl) as [E|E]; cbn [negb].
    + apply IH; try assumption; try lia.
      intros j Hj. destruct (Nat.eq_dec j i) as [->|N]; [exact E | apply Hu; lia].
    + pose proof (lv_le126 i H126) as L126.
      apply IH; try lia.
      * intros j Hj. replace j with i by lia. reflexivity.
      * right. rewrite (Hu (i - 1)) by lia. congruence.
      * eapply chain_app; [exact Hc|]. cbn [chain fst snd]. lia.
      * apply Forall_app. split; [exact Hm|]. constructor; [|constructor].
        apply (rmax_mk a b start i rl); try lia; try assumption.
      * apply Forall_app. split.
        -- eapply Forall_impl; [|exact Hbd]. cbn beta. intros r Hr. lia.
        -- constructor; [|constructor]. unfold rlev. cbn [fst]. rewrite Erl. lia.
Qed.

(* ================================================================== *)
(* 5. elements of the run list, the visual order, the slice *)

Lemma range_split p q b : p <= q -> q <= b -> range p q ++ range q b = range p b.
Proof.
  intros H1 H2. unfold range. replace (b - p) with ((q - p) + (b - q)) by lia.
  rewrite seq_app. replace (p + (q - p)) with q by lia. reflexivity.
Qed.

Lemma chain_elems rs : forall p b, chain p rs b ->
  flat_map elems rs = map (fun i => (i, lv i)) (range p b).
Proof.
  induction rs as [|r t IH]; intros p b; cbn [chain flat_map].
  - intros ->. unfold range. rewrite Nat.sub_diag. reflexivity.
  - intros (A & B & C). rewrite (IH _ _ C). unfold elems. rewrite <- map_app.
    rewrite range_split; [subst p; reflexivity | lia | apply chain_le in C; exact C].
Qed.

Lemma blks_top K rs : Forall (fun r => rlev r <= K) rs -> flatb (map (blk K) rs) = flat_map elems rs.
Proof.
  induction 1 as [|r t Hr _ IH]; cbn [map flat_map]; [reflexivity|].
  rewrite flatb_cons, (blk_top K r Hr). cbn [snd]. rewrite IH. reflexivity.
Qed.

Lemma elems_bounds mn mx rs : Forall rgood rs -> Forall (fun r => mn <= rlev r <= mx) rs ->
  Forall (fun x : elt => mn <= snd x <= mx) (flat_map elems rs).
Proof.
  induction 1 as [|r t Hr _ IH]; intros Hb; cbn [flat_map]; [constructor|].
  inversion Hb as [|? ? B1 B2]; subst. apply Forall_app. split; [|apply IH; exact B2].
  destruct (elems_ok r Hr) as [_ F]. eapply Forall_impl; [|exact F].
  cbn beta. intros e He. rewrite He. exact B1.
Qed.

Lemma elems_fst r : map fst (elems r) = range (fst r) (snd r).
Proof. unfold elems. rewrite map_map. apply map_id. Qed.

Lemma vis_order a b K rs : Forall rgood rs ->
  Forall (fun r => Nat.odd (rlev r - K) = Nat.odd (rlev r)) rs ->
  map fst (flatb (map (blk K) rs)) = runs_visual_order a b levels rs.
Proof.
  unfold runs_visual_order.
  induction 1 as [|r t Hr _ IH]; intros Hp; cbn [map flat_map]; [reflexivity|].
  inversion Hp as [|? ? P1 P2]; subst.
  rewrite flatb_cons, map_app, (IH P2). f_equal.
  rewrite (nth_error_lv (fst r)) by (destruct Hr as (? & ? & _); lia). fold (rlev r).
  unfold blk. cbn [snd]. rewrite P1. destruct (Nat.odd (rlev r)).
  - rewrite map_rev, elems_fst. reflexivity.
  - apply elems_fst.
Qed.

Lemma skipn_cons_nth (l : list nat) : forall i, i < length l ->
  skipn i l = nth i l 0 :: skipn (S i) l.
Proof.
  induction l as [|x l IH]; intros i H; cbn [length] in H; [lia|].
  destruct i as [|i]; [reflexivity|]. cbn [skipn nth]. apply IH. lia.
Qed.

Lemma slice_map n : forall a, a + n <= length levels ->
  firstn n (skipn a levels) = map lv (seq a n).
Proof.
  induction n as [|n IH]; intros a H; [reflexivity|].
  rewrite skipn_cons_nth by lia. cbn [firstn seq map]. f_equal. apply IH. lia.
Qed.

Definition shift (a : nat) (x : elt) : elt := (a + fst x, snd x).

Lemma combine_shift a n : forall s,
  map (shift a) (combine (seq s n) (map lv (seq (a + s) n))) = map (fun i => (i, lv i)) (seq (a + s) n).
Proof.
  induction n as [|n IH]; intros s; [reflexivity|].
  cbn [seq map combine]. unfold shift at 1. cbn [fst snd]. f_equal.
  rewrite <- Nat.add_succ_r. apply IH.
Qed.

Lemma seq_shift_map a n : forall s, map (fun i => a + i) (seq s n) = seq (a + s) n.
Proof.
  induction n as [|n IH]; intros s; [reflexivity|].
  cbn [seq map]. f_equal. rewrite <- Nat.add_succ_r. apply IH.
Qed.

Lemma map_shift_fst a (L : list elt) : map (fun i => a + i) (map fst L) = map fst (map (shift a) L).
Proof. rewrite !map_map. reflexivity. Qed.

Lemma slice_elems_Forall (P : nat -> Prop) l :
  Forall P (map lv l) <-> Forall (fun x : elt => P (snd x)) (map (fun i => (i, lv i)) l).
Proof. rewrite !Forall_map. reflexivity. Qed.

Lemma parity_final mn mn' l : mn <= 126 -> level_lowest_ge_rtl mn = Some mn' -> mn <= l ->
  Nat.odd (l - (mn' - 1)) = Nat.odd l.
Proof.
  intros H E Hl. apply lowest_ge_rtl_spec in E; [|exact H]. destruct E as (A & B & C & D).
  rewrite !odd_mod2. destruct (le_lt_dec mn' l) as [G|G].
  - destruct (Nat.eqb_spec ((l - (mn' - 1)) mod 2) 1), (Nat.eqb_spec (l mod 2) 1); try reflexivity; lia.
  - replace (l - (mn' - 1)) with 0 by lia. specialize (D l Hl).
    destruct (Nat.eqb_spec (l mod 2) 1); [lia | reflexivity].
Qed.

(* all levels even: the passes mx .. mn' cancel *)
Lemma l2_down_all_even mx mn' (xs : list elt) :
  mn' mod 2 = 1 -> mn' <= mx + 1 ->
  Forall (fun x => snd x <= mx) xs -> Forall (fun x => snd x mod 2 = 0) xs ->
  l2_down mx mn' xs = xs.
Proof.
  intros O L B Ev. set (E := mx + mx mod 2).
  rewrite <- (l2_down_raise' mx E mn' xs) by (try exact B; unfold E; lia).
  rewrite (l2_down_stop E xs mn' (E + 1)).
  - apply l2_down_lt. lia.
  - exact O.
  - unfold E. lia.
  - unfold E. lia.
  - lia.
  - eapply Forall_impl; [|exact Ev]. cbn beta. intros x Hx Ho. lia.
Qed.

Lemma core_spec a b : a < b -> b <= length levels -> Forall (fun l => l <= 126) levels ->
  exists runs, visual_runs_core false levels (a, b) = Ok runs /\
    runs_cover a b runs = true /\ forallb (run_uniform_maximal a b levels) runs = true /\
    runs_visual_order a b levels runs =
      map (fun i => a + i) (Spec.l2 (firstn (b - a) (skipn a levels))).
Proof.
  intros Hab Hb H126.
  unfold visual_runs_core. rewrite (get_lv 934 a) by lia. cbn [bind].
  pose proof (lv_le126 a H126) as La.
  assert (Q1 : a + 1 + (b - (a + 1)) = b) by lia.
  assert (Q2 : forall j, a <= j < a + 1 -> lv j = lv a) by (intros j Hj; replace j with a by lia; reflexivity).
  assert (Q3 : a = a \/ lv (a - 1) <> lv a) by (left; reflexivity).
  destruct (find_runs_spec a b Hb H126 (b - (a + 1)) (a + 1) a (lv a) (lv a) (lv a) []
              Q1 (le_n a) ltac:(lia) Q2 Q3 eq_refl (Forall_nil _) (Forall_nil _) ltac:(lia) La)
    as (runs0 & st & mn & mx & E & C & M & Bd & Hmn & Hmx).
  unfold range. rewrite E. cbn [bind].
  set (R0 := runs0 ++ [(st, b)]) in *.
  assert (Hgood : Forall rgood R0).
  { eapply Forall_impl; [|exact M]. intros r Hr. eapply rmax_good; eassumption. }
  assert (Bmx : Forall (fun r => rlev r <= mx) R0).
  { eapply Forall_impl; [|exact Bd]. cbn beta. intros r Hr. lia. }
  set (n := b - a).
  assert (Exs : flat_map elems R0 = map (fun i => (i, lv i)) (seq a n)) by (apply (chain_elems R0 a b C)).
  pose proof (elems_bounds mn mx R0 Hgood Bd) as Ebnd. rewrite Exs in Ebnd.
  assert (Esl : firstn n (skipn a levels) = map lv (seq a n)) by (apply slice_map; unfold n; lia).
  assert (Sbnd : Forall (fun l => mn <= l <= mx) (map lv (seq a n))).
  { apply (slice_elems_Forall (fun l => mn <= l <= mx)). exact Ebnd. }
  assert (Eid : map fst (map (fun i => (i, lv i)) (seq a n)) =
                map (fun i => a + i) (seq 0 (length (map lv (seq a n))))).
  { rewrite map_map, map_id. rewrite map_length, seq_length.
    rewrite seq_shift_map, Nat.add_0_r. reflexivity. }
  pose proof (lowest_odd_spec (map lv (seq a n))) as LO.
  fold n. rewrite Esl. unfold l2.
  destruct (level_lowest_ge_rtl mn) as [mn'|] eqn:EL.
  - (* the ordinary case *)
    pose proof EL as EL'. apply lowest_ge_rtl_spec in EL'; [|lia]. destruct EL' as (L1 & L2 & L3 & L4).
    assert (L5 : mn' <= mn + 1) by (pose proof (L4 mn); pose proof (L4 (mn + 1)); lia).
    destruct (loop_spec mn' ltac:(lia) 130 mx R0 ltac:(lia) ltac:(lia) Hgood) as (runs' & E' & P' & F').
    exists runs'. split; [exact E'|].
    split; [exact (cover_of_perm a b R0 runs' C P')|].
    split.
    { apply forallb_forall. intros r Hr. apply rmax_judge; [exact Hb|].
      rewrite Forall_forall in M. apply M. eapply Permutation_in; eassumption. }
    assert (Hgood' : Forall rgood runs').
    { eapply Permutation_Forall; [apply Permutation_sym; exact P' | exact Hgood]. }
    assert (Bd' : Forall (fun r => mn <= rlev r <= mx) runs').
    { eapply Permutation_Forall; [apply Permutation_sym; exact P' | exact Bd]. }
    rewrite <- (vis_order a b (mn' - 1) runs' Hgood').
    2:{ eapply Forall_impl; [|exact Bd']. cbn beta. intros r Hr.
        apply (parity_final mn mn'); [lia | exact EL | lia]. }
    rewrite F', (blks_top mx R0 Bmx), Exs.
    destruct (lowest_odd (map lv (seq a n))) as [lo|].
    + destruct LO as (O & F & I).
      rewrite Forall_forall in Sbnd. specialize (Sbnd lo I).
      rewrite map_shift_fst, (l2_down_map (shift a) (fun x => eq_refl)).
      rewrite map_length, seq_length.
      pose proof (combine_shift a n 0) as CS. rewrite Nat.add_0_r in CS. rewrite CS. f_equal.
      set (xs0 := map (fun i => (i, lv i)) (seq a n)) in *.
      set (M0 := fold_left Nat.max (map lv (seq a n)) 0).
      assert (BM : Forall (fun x : elt => snd x <= M0) xs0).
      { apply (slice_elems_Forall (fun l => l <= M0)). apply (fold_max_ge (map lv (seq a n)) 0). }
      assert (Bx : Forall (fun x : elt => snd x <= mx) xs0).
      { eapply Forall_impl; [|exact Ebnd]. cbn beta. intros x Hx. lia. }
      rewrite (l2_down_stop mx xs0 mn' lo L2 O).
      * rewrite <- (l2_down_raise' mx (Nat.max M0 mx) lo xs0) by (try exact Bx; lia).
        rewrite <- (l2_down_raise' M0 (Nat.max M0 mx) lo xs0) by (try exact BM; lia).
        reflexivity.
      * apply L4; lia.
      * lia.
      * apply (slice_elems_Forall (fun l => l mod 2 = 1 -> lo <= l)). exact F.
    + rewrite <- Eid. f_equal. apply l2_down_all_even; try assumption; try lia.
      * eapply Forall_impl; [|exact Ebnd]. cbn beta. intros x Hx. lia.
      * apply (slice_elems_Forall (fun l => l mod 2 = 0)). exact LO.
  - (* the whole line is at level 126 *)
    apply lowest_ge_rtl_fails_iff in EL; [|lia].
    exists R0. split; [reflexivity|].
    split; [exact (cover_of_perm a b R0 R0 C (Permutation_refl _))|].
    split.
    { apply forallb_forall. intros r Hr. apply rmax_judge; [exact Hb|].
      rewrite Forall_forall in M. apply M. exact Hr. }
    rewrite <- (vis_order a b mx R0 Hgood).
    2:{ eapply Forall_impl; [|exact Bd]. cbn beta. intros r Hr.
        replace (rlev r - mx) with 0 by lia. replace (rlev r) with 126 by lia. reflexivity. }
    rewrite (blks_top mx R0 Bmx), Exs.
    destruct (lowest_odd (map lv (seq a n))) as [lo|].
    + destruct LO as (O & F & I). rewrite Forall_forall in Sbnd. specialize (Sbnd lo I). lia.
    + exact Eid.
Qed.

End Model.

Theorem C05_proved : C05_statement.
Proof.
  intros levels a b Hab Hb H126.
  destruct (core_spec levels a b Hab Hb H126) as (runs & E & H1 & H2 & H3).
  exists runs. split; [|split; [exact H1 | split; [exact H2 | split; [exact H3|]]]].
  - unfold visual_runs_for_line. rewrite E. reflexivity.
  - unfold deprecated_visual_runs. cbn [fst snd].
    destruct (Nat.leb_spec a (length levels)); [|lia].
    destruct (Nat.leb_spec b (length levels)); [|lia]. cbn [andb negb]. exact E.
Qed.
