(* Proofs/TotalSequences.v — totality and well-formedness of prepare::isolating_run_sequences
   (T_sequences of Stmts4.v): on runs that tile [0,k) the model never panics, every output
   sequence is well formed (seq_wf) and the runs of all sequences are a permutation of the input. *)
From BidiVerif Require Import Base ConstsGen TablesGen ModelText ModelResolve ModelLine Spec Obs Judge
     Stmts Stmts2 Stmts3 Stmts4.
From Coq Require Import Permutation.

(* ------------------------------------------------------------------ *)
(* vector helpers never panic in range *)

Lemma get_total {A} site (l : list A) i : i < length l -> exists x, get site l i = Ok x.
Proof.
  intros H. unfold get. destruct (nth_error l i) eqn:E; [eauto|].
  apply nth_error_None in E. lia.
Qed.

Lemma slice_total {A} site (l : list A) a b : a <= b -> b <= length l ->
  slice site l a b = Ok (firstn (b - a) (skipn a l)) /\ length (firstn (b - a) (skipn a l)) = b - a.
Proof.
  intros H1 H2. unfold slice.
  assert (Ha : (a <=? b) = true) by (apply Nat.leb_le; lia).
  assert (Hb : (b <=? length l) = true) by (apply Nat.leb_le; lia).
  rewrite Ha, Hb. split; [reflexivity|].
  rewrite firstn_length, skipn_length. lia.
Qed.

Lemma position_lt {A} (p : A -> bool) l : forall i, position p l = Some i -> i < length l.
Proof.
  induction l as [|x t IH]; intros i H; cbn in H; [discriminate|].
  destruct (p x).
  - injection H as <-. cbn. lia.
  - destruct (position p t) as [j|]; cbn in H; [|discriminate].
    injection H as <-. specialize (IH j eq_refl). cbn. lia.
Qed.

Lemma rposition_aux_lt {A} (p : A -> bool) l : forall i acc j,
  rposition_aux p l i acc = Some j -> acc = Some j \/ (i <= j /\ j < i + length l).
Proof.
  induction l as [|x t IH]; intros i acc j H; cbn in H; [left; exact H|].
  apply IH in H. cbn [length]. destruct H as [H|H].
  - destruct (p x); [injection H as <-; right; lia | left; exact H].
  - right; lia.
Qed.

Lemma rposition_lt {A} (p : A -> bool) l i : rposition p l = Some i -> i < length l.
Proof.
  unfold rposition. intros H. apply rposition_aux_lt in H. destruct H as [H|H]; [discriminate|lia].
Qed.

Lemma find_index_by_total {A} site (p : A -> bool) v : forall idxs,
  Forall (fun i => i < length v) idxs ->
  exists o, find_index_by site p v idxs = Ok o /\ (forall i, o = Some i -> In i idxs).
Proof.
  induction idxs as [|i rest IH]; intros HF; cbn [find_index_by].
  - exists None. split; [reflexivity|]. intros i H; discriminate.
  - inversion HF as [|? ? Hi Hrest]; subst.
    destruct (get_total site v i Hi) as [x Hx]. rewrite Hx. cbn [bind].
    destruct (p x).
    + exists (Some i). split; [reflexivity|]. intros j Hj. injection Hj as <-. left; reflexivity.
    + destruct (IH Hrest) as [o [Ho Hin]]. exists o. split; [exact Ho|].
      intros j Hj. right. apply Hin; exact Hj.
Qed.

Lemma level_class_LR l : level_class l = L \/ level_class l = R.
Proof. unfold level_class. destruct (is_rtl l); [right|left]; reflexivity. Qed.

Lemma map_res_total {A B} (f : A -> res B) (P : A -> B -> Prop) : forall l,
  Forall (fun x => exists y, f x = Ok y /\ P x y) l ->
  exists ys, map_res f l = Ok ys /\ Forall2 P l ys.
Proof.
  induction l as [|x t IH]; intros HF; cbn [map_res].
  - exists []. split; [reflexivity|constructor].
  - inversion HF as [|? ? [y [Hy HP]] Ht]; subst.
    destruct (IH Ht) as [ys [Hys HF2]].
    rewrite Hy. cbn [bind]. rewrite Hys. cbn [bind].
    exists (y :: ys). split; [reflexivity|]. constructor; assumption.
Qed.

(* ------------------------------------------------------------------ *)
(* pred / succ level lookups *)

Section Stage.
Variable pl : nat.
Variable cls : list bclass.
Variable lv : list nat.
Variable k : nat.
Hypothesis Hcls : length cls = k.
Hypothesis Hlv : length lv = k.

Lemma pred_level_total s : s <= k -> exists x, pred_level_of pl cls lv s = Ok x.
Proof.
  intros Hs. unfold pred_level_of.
  assert (E : (length cls <? s) = false) by (apply Nat.ltb_ge; lia). rewrite E.
  destruct (rposition not_removed_by_x9 (firstn s cls)) as [idx|] eqn:Ep; [|eauto].
  apply rposition_lt in Ep. rewrite firstn_length in Ep.
  apply get_total. lia.
Qed.

Lemma succ_level_total en : en <= k -> exists x, succ_level_of pl cls lv en = Ok x.
Proof.
  intros Hs. unfold succ_level_of.
  assert (E : (length cls <? en) = false) by (apply Nat.ltb_ge; lia). rewrite E.
  destruct (position not_removed_by_x9 (skipn en cls)) as [idx|] eqn:Ep; [|eauto].
  apply position_lt in Ep. rewrite skipn_length in Ep.
  apply get_total. lia.
Qed.

(* ------------------------------------------------------------------ *)
(* the fast path *)

Lemma fast_one_total s en : s < en -> en <= k ->
  exists sq, irs_fast_one pl cls lv (s, en) = Ok sq /\ irs_runs sq = [(s, en)] /\
             (irs_sos sq = L \/ irs_sos sq = R) /\ (irs_eos sq = L \/ irs_eos sq = R).
Proof.
  intros H1 H2. unfold irs_fast_one.
  destruct (slice_total 73 lv s en) as [E1 L1]; [lia|lia|]. rewrite E1. cbn [bind].
  destruct (slice_total 74 cls s en) as [E2 L2]; [lia|lia|]. rewrite E2. cbn [bind].
  set (rl := firstn (en - s) (skipn s lv)) in *.
  set (rc := firstn (en - s) (skipn s cls)) in *.
  destruct (get_total 75 rl (opt_or (position not_removed_by_x9 rc) 0)) as [x1 G1].
  { destruct (position not_removed_by_x9 rc) as [i|] eqn:Ep; cbn [opt_or]; [|lia].
    apply position_lt in Ep. lia. }
  rewrite G1. cbn [bind].
  assert (E : (en <=? s) = false) by (apply Nat.leb_gt; lia). rewrite E. cbn [bind].
  destruct (get_total 80 rl (opt_or (rposition not_removed_by_x9 rc) (en - s - 1))) as [x2 G2].
  { destruct (rposition not_removed_by_x9 rc) as [i|] eqn:Ep; cbn [opt_or]; [|lia].
    apply rposition_lt in Ep. lia. }
  rewrite G2. cbn [bind].
  destruct (pred_level_total s) as [x3 G3]; [lia|]. rewrite G3. cbn [bind].
  destruct (succ_level_total en) as [x4 G4]; [lia|]. rewrite G4. cbn [bind].
  eexists. split; [reflexivity|]. cbn [irs_runs irs_sos irs_eos].
  split; [reflexivity|]. split; apply level_class_LR.
Qed.

(* ------------------------------------------------------------------ *)
(* ascending run lists *)

Fixpoint end_of (a : nat) (l : list run) : nat :=
  match l with [] => a | (_, en) :: r => end_of en r end.

Lemma asc_app a l1 : forall a', a' = a -> forall l2,
  runs_ascending a (l1 ++ l2) <-> runs_ascending a l1 /\ runs_ascending (end_of a l1) l2.
Proof.
  revert a. induction l1 as [|[s en] t IH]; intros a a' _ l2; cbn [app runs_ascending end_of].
  - tauto.
  - rewrite (IH en en eq_refl l2). tauto.
Qed.

Lemma end_of_app a l1 l2 : end_of a (l1 ++ l2) = end_of (end_of a l1) l2.
Proof. revert a; induction l1 as [|[s en] t IH]; intros a; cbn [app end_of]; [reflexivity|apply IH]. Qed.

Lemma asc_bounds l : forall a, runs_ascending a l ->
  a <= end_of a l /\ Forall (fun r => a <= fst r /\ fst r < snd r /\ snd r <= end_of a l) l.
Proof.
  induction l as [|[s en] t IH]; intros a H; cbn [runs_ascending end_of] in *.
  - split; [lia|constructor].
  - destruct H as [H1 [H2 H3]]. destruct (IH en H3) as [B1 B2]. split; [lia|].
    constructor; [cbn [fst snd]; lia|].
    eapply Forall_impl; [|exact B2]. cbn beta. intros r Hr. lia.
Qed.

Definition good (pos : nat) (sq : list run) : Prop := runs_ascending 0 sq /\ end_of 0 sq <= pos.

Lemma good_mono p q sq : p <= q -> good p sq -> good q sq.
Proof. unfold good. intros H [H1 H2]. split; [exact H1|lia]. Qed.

Lemma good_nil p : good p [].
Proof. unfold good. cbn. split; [exact I|lia]. Qed.

Lemma good_snoc p sq s en : good p sq -> p <= s -> s < en -> good en (sq ++ [(s, en)]).
Proof.
  unfold good. intros [H1 H2] H3 H4. split.
  - apply (asc_app 0 sq 0 eq_refl). split; [exact H1|]. cbn [runs_ascending]. repeat split; lia.
  - rewrite end_of_app. cbn [end_of]. lia.
Qed.

Lemma good_run_in sq : good k sq -> Forall (run_in k) sq.
Proof.
  unfold good. intros [H1 H2]. destruct (asc_bounds sq 0 H1) as [_ B].
  eapply Forall_impl; [|exact B]. cbn beta. intros r Hr. unfold run_in. lia.
Qed.

Lemma tile_le : forall runs pos, tile_from pos k runs -> pos <= k.
Proof.
  induction runs as [|[s en] t IH]; intros pos H; cbn [tile_from] in H.
  - lia.
  - destruct H as [-> [H2 H3]]. apply IH in H3. lia.
Qed.

Lemma tile_run_in : forall runs pos, tile_from pos k runs -> Forall (run_in k) runs.
Proof.
  induction runs as [|[s en] t IH]; intros pos H; cbn [tile_from] in H.
  - constructor.
  - destruct H as [-> [H2 H3]]. constructor.
    + unfold run_in. cbn [fst snd]. apply tile_le in H3. lia.
    + eapply IH; exact H3.
Qed.

(* ------------------------------------------------------------------ *)
(* BD13 grouping *)

Definition nonempty (sq : list run) : Prop := sq <> [].

Lemma concat_filter_nonempty (st : list (list run)) :
  concat (filter (fun s => negb (length s =? 0)) st) = concat st.
Proof.
  induction st as [|x t IH]; cbn [filter concat]; [reflexivity|].
  destruct x as [|r x']; cbn [length Nat.eqb negb]; [exact IH|].
  cbn [concat]. rewrite IH. reflexivity.
Qed.

Lemma filter_nonempty_spec (st : list (list run)) :
  Forall nonempty (filter (fun s => negb (length s =? 0)) st).
Proof.
  induction st as [|x t IH]; cbn [filter]; [constructor|].
  destruct x as [|r x']; cbn [length Nat.eqb negb]; [exact IH|].
  constructor; [unfold nonempty; discriminate|exact IH].
Qed.

Lemma Forall_filter {A} (P : A -> Prop) f (l : list A) : Forall P l -> Forall P (filter f l).
Proof.
  induction 1 as [|x t Hx Ht IH]; cbn [filter]; [constructor|].
  destruct (f x); [constructor; assumption|assumption].
Qed.

Lemma bd13_total : forall rest pos stack seqs,
  tile_from pos k rest -> stack <> [] ->
  Forall (good pos) stack -> Forall (good pos) seqs -> Forall nonempty seqs ->
  exists out, bd13_fold cls rest stack seqs = Ok out /\
              Forall (good k) out /\ Forall nonempty out /\
              Permutation (concat out) (concat seqs ++ concat stack ++ rest).
Proof.
  induction rest as [|[s en] rest IH]; intros pos stack seqs Ht Hne Hst Hsq Hnn;
    cbn [bd13_fold tile_from] in *.
  - subst pos. eexists. split; [reflexivity|]. split; [|split].
    + apply Forall_app. split; [exact Hsq|]. apply Forall_filter; exact Hst.
    + apply Forall_app. split; [exact Hnn|]. apply filter_nonempty_spec.
    + rewrite concat_app, concat_filter_nonempty, app_nil_r. apply Permutation_refl.
  - destruct Ht as [Hs [Hlt Ht]]; subst pos.
    assert (Hen : en <= k) by (eapply tile_le; exact Ht).
    assert (E : (en <=? s) = false) by (apply Nat.leb_gt; lia). rewrite E.
    destruct stack as [|top below]; [congruence|].
    destruct (get_total 127 cls s) as [sc Hsc]; [lia|]. rewrite Hsc. cbn [bind].
    destruct (slice_total 132 cls s en) as [Esl _]; [lia|lia|]. rewrite Esl. cbn [bind].
    set (ec := opt_or (rfind not_removed_by_x9 (firstn (en - s) (skipn s cls))) sc).
    pose proof (Forall_inv Hst) as Htop. pose proof (Forall_inv_tail Hst) as Hbelow.
    assert (Hst' : Forall (good en) (top :: below))
      by (eapply Forall_impl; [|exact Hst]; intros a Ha; eapply good_mono; [|exact Ha]; lia).
    assert (Hbelow' : Forall (good en) below) by (exact (Forall_inv_tail Hst')).
    assert (Hsq' : Forall (good en) seqs)
      by (eapply Forall_impl; [|exact Hsq]; intros a Ha; eapply good_mono; [|exact Ha]; lia).
    assert (Gtop : good en (top ++ [(s, en)])) by (apply (good_snoc s); [exact Htop|lia|lia]).
    assert (Gone : good en ([] ++ [(s, en)])) by (apply (good_snoc s); [apply good_nil|lia|lia]).
    destruct ((sc =c PDI) && (1 <? length (top :: below))) eqn:Epdi.
    + assert (Hbne : below <> []).
      { apply andb_true_iff in Epdi. destruct Epdi as [_ Hl]. apply Nat.ltb_lt in Hl.
        destruct below; [cbn in Hl; lia|discriminate]. }
      destruct (is_isolate_init ec).
      * destruct (IH en ((top ++ [(s, en)]) :: below) seqs Ht) as [out [Ho [Hg [Hn Hp]]]];
          [discriminate|constructor; assumption|exact Hsq'|exact Hnn|].
        exists out. split; [exact Ho|]. split; [exact Hg|]. split; [exact Hn|].
        eapply Permutation_trans; [exact Hp|]. apply Permutation_app_head.
        cbn [concat]. rewrite <- !app_assoc. apply Permutation_app_head.
        cbn [app]. apply Permutation_middle.
      * destruct (IH en below (seqs ++ [top ++ [(s, en)]]) Ht) as [out [Ho [Hg [Hn Hp]]]];
          [exact Hbne|exact Hbelow'| | |].
        { apply Forall_app. split; [exact Hsq'|]. constructor; [exact Gtop|constructor]. }
        { apply Forall_app. split; [exact Hnn|]. constructor; [|constructor].
          unfold nonempty. destruct top; discriminate. }
        exists out. split; [exact Ho|]. split; [exact Hg|]. split; [exact Hn|].
        eapply Permutation_trans; [exact Hp|].
        rewrite concat_app. cbn [concat]. rewrite app_nil_r, <- !app_assoc.
        apply Permutation_app_head. apply Permutation_app_head.
        cbn [app]. apply Permutation_middle.
    + destruct (is_isolate_init ec).
      * destruct (IH en (([] ++ [(s, en)]) :: top :: below) seqs Ht) as [out [Ho [Hg [Hn Hp]]]];
          [discriminate|constructor; assumption|exact Hsq'|exact Hnn|].
        exists out. split; [exact Ho|]. split; [exact Hg|]. split; [exact Hn|].
        eapply Permutation_trans; [exact Hp|]. apply Permutation_app_head.
        cbn [concat app]. apply Permutation_middle.
      * destruct (IH en (top :: below) (seqs ++ [[] ++ [(s, en)]]) Ht) as [out [Ho [Hg [Hn Hp]]]];
          [discriminate|exact Hst'| | |].
        { apply Forall_app. split; [exact Hsq'|]. constructor; [exact Gone|constructor]. }
        { apply Forall_app. split; [exact Hnn|]. constructor; [|constructor].
          unfold nonempty. discriminate. }
        exists out. split; [exact Ho|]. split; [exact Hg|]. split; [exact Hn|].
        eapply Permutation_trans; [exact Hp|].
        rewrite concat_app. cbn [concat app]. rewrite <- (app_assoc (concat seqs)).
        apply Permutation_app_head. cbn [app]. apply Permutation_middle.
Qed.

(* ------------------------------------------------------------------ *)
(* sos / eos of one general sequence *)

Lemma range_lt a b : Forall (fun i => i < b) (range a b).
Proof. unfold range. apply Forall_forall. intros i Hi. apply in_seq in Hi. lia. Qed.

Lemma run_range_lt r : run_in k r -> Forall (fun i => i < k) (run_range r).
Proof.
  intros [_ H]. unfold run_range. eapply Forall_impl; [|apply range_lt]. cbn beta. intros i Hi. lia.
Qed.

Lemma firstn_In' {A} (x : A) n l : In x (firstn n l) -> In x l.
Proof. intros H. rewrite <- (firstn_skipn n l). apply in_or_app. left; exact H. Qed.

Lemma general_one_total sq : good k sq -> sq <> [] ->
  exists x, irs_general_one pl cls lv sq = Ok x /\ irs_runs x = sq /\
            (irs_sos x = L \/ irs_sos x = R) /\ (irs_eos x = L \/ irs_eos x = R).
Proof.
  intros Hg Hne. pose proof (good_run_in sq Hg) as Hin.
  unfold irs_general_one. destruct sq as [|r0 t]; [contradiction|]. cbv beta iota.
  assert (Hr0 : run_in k r0) by (exact (Forall_inv Hin)).
  assert (Ht : Forall (run_in k) t) by (exact (Forall_inv_tail Hin)).
  set (sequence := r0 :: t) in *.
  assert (Hlen : length sequence = S (length t)) by reflexivity.
  destruct (get_total 167 sequence (length sequence - 1)) as [rl Grl]; [lia|].
  rewrite Grl. cbn [bind].
  assert (Nrl : nth_error sequence (length sequence - 1) = Some rl).
  { unfold get in Grl. destruct (nth_error sequence (length sequence - 1)); [|discriminate].
    injection Grl as ->. reflexivity. }
  assert (Hrl : run_in k rl).
  { apply nth_error_In in Nrl. rewrite Forall_forall in Hin. apply Hin; exact Nrl. }
  destruct Hr0 as [Hr0a Hr0b]. destruct Hrl as [Hrla Hrlb].
  (* forwards *)
  unfold iter_forwards_from.
  assert (E0 : (length sequence <? 0) = false) by (apply Nat.ltb_ge; lia). rewrite E0.
  change (skipn 0 sequence) with (r0 :: t). cbv beta iota. cbn [bind].
  destruct (find_index_by_total 178 not_removed_by_x9 cls
              (range (fst r0) (snd r0) ++ flat_map run_range t)) as [fi [Efi Hfi]].
  { rewrite Hcls. apply Forall_app. split.
    - eapply Forall_impl; [|apply range_lt]. cbn beta. intros i Hi. lia.
    - apply Forall_forall. intros i Hi. apply in_flat_map in Hi. destruct Hi as [r [Hr Hi]].
      rewrite Forall_forall in Ht. specialize (Ht r Hr).
      pose proof (run_range_lt r Ht) as HF. rewrite Forall_forall in HF. apply HF; exact Hi. }
  rewrite Efi. cbn [bind].
  destruct (get_total 176 lv (opt_or fi (fst r0))) as [x1 G1].
  { rewrite Hlv. destruct fi as [i|]; cbn [opt_or]; [|lia].
    specialize (Hfi i eq_refl). apply in_app_or in Hfi. destruct Hfi as [Hi|Hi].
    - unfold range in Hi. apply in_seq in Hi. lia.
    - apply in_flat_map in Hi. destruct Hi as [r [Hr Hi]].
      rewrite Forall_forall in Ht. specialize (Ht r Hr).
      pose proof (run_range_lt r Ht) as HF. rewrite Forall_forall in HF. apply HF; exact Hi. }
  rewrite G1. cbn [bind].
  (* backwards *)
  unfold iter_backwards_from.
  assert (E1 : (length sequence <? length sequence - 1) = false) by (apply Nat.ltb_ge; lia).
  rewrite E1, Nrl. cbn [bind].
  set (bw := rev (range (fst rl) (snd rl)) ++
             flat_map (fun r => rev (run_range r)) (rev (firstn (length sequence - 1) sequence))).
  assert (Hbw : Forall (fun i => i < k) bw).
  { unfold bw. apply Forall_app. split.
    - apply Forall_rev. eapply Forall_impl; [|apply range_lt]. cbn beta. intros i Hi. lia.
    - apply Forall_forall. intros i Hi. apply in_flat_map in Hi. destruct Hi as [r [Hr Hi]].
      apply in_rev in Hr. apply firstn_In' in Hr. apply in_rev in Hi.
      rewrite Forall_forall in Hin. specialize (Hin r Hr).
      pose proof (run_range_lt r Hin) as HF. rewrite Forall_forall in HF. apply HF; exact Hi. }
  destruct (find_index_by_total 185 not_removed_by_x9 cls bw) as [bi [Ebi Hbi]];
    [rewrite Hcls; exact Hbw|].
  rewrite Ebi. cbn [bind].
  assert (E2 : (snd rl =? 0) = false) by (apply Nat.eqb_neq; lia). rewrite E2. cbn [bind].
  destruct (get_total 183 lv (opt_or bi (snd rl - 1))) as [x2 G2].
  { rewrite Hlv. destruct bi as [i|]; cbn [opt_or]; [|lia].
    specialize (Hbi i eq_refl). rewrite Forall_forall in Hbw. apply Hbw; exact Hbi. }
  rewrite G2. cbn [bind].
  destruct (pred_level_total (fst r0)) as [x3 G3]; [lia|]. rewrite G3. cbn [bind].
  assert (E3 : (length cls <? snd rl) = false) by (apply Nat.ltb_ge; lia). rewrite E3. cbn [bind].
  destruct (succ_level_total (snd rl)) as [x4' G4']; [lia|].
  set (lnr := opt_or (rfind not_removed_by_x9 (firstn (snd rl) cls)) BN).
  assert (G4 : exists x4, (if is_isolate_init lnr then Ok pl
                           else succ_level_of pl cls lv (snd rl)) = Ok x4)
    by (destruct (is_isolate_init lnr); eauto).
  destruct G4 as [x4 G4]. rewrite G4. cbn [bind].
  eexists. split; [reflexivity|]. cbn [irs_runs irs_sos irs_eos].
  split; [reflexivity|]. split; apply level_class_LR.
Qed.

(* ------------------------------------------------------------------ *)
(* the stage *)

Lemma sequences_total runs has_iso : 0 < k -> tile_from 0 k runs ->
  exists seqs, isolating_run_sequences pl cls lv runs has_iso = Ok seqs /\
               Forall (seq_wf k) seqs /\ Permutation (flat_map irs_runs seqs) runs.
Proof.
  intros Hk Ht. unfold isolating_run_sequences. destruct (negb has_iso).
  - (* fast path *)
    destruct (map_res_total (irs_fast_one pl cls lv)
                (fun r sq => irs_runs sq = [r] /\ seq_wf k sq) runs) as [seqs [Hs HF]].
    { pose proof (tile_run_in runs 0 Ht) as Hin.
      eapply Forall_impl; [|exact Hin]. cbn beta. intros [s en] [H1 H2]. cbn [fst snd] in *.
      destruct (fast_one_total s en H1 H2) as [sq [E [Hr [Hsos Heos]]]].
      exists sq. split; [exact E|]. split; [exact Hr|].
      unfold seq_wf, seq_in. rewrite Hr. split; [discriminate|]. split.
      - constructor; [|constructor]. unfold run_in. cbn [fst snd]. lia.
      - split; [cbn [runs_ascending]; lia|]. split; assumption. }
    exists seqs. split; [exact Hs|]. clear Hs Ht. split.
    + induction HF as [|r sq rs sqs [_ Hw] _ IH]; constructor; assumption.
    + induction HF as [|r sq rs sqs [Hr _] _ IH]; cbn [flat_map]; [constructor|].
      rewrite Hr. cbn [app]. constructor. exact IH.
  - (* general path *)
    destruct (bd13_total runs 0 [[]] [] Ht) as [out [Ho [Hg [Hn Hp]]]];
      [discriminate|constructor; [apply good_nil|constructor]|constructor|constructor|].
    rewrite Ho. cbn [bind].
    destruct (map_res_total (irs_general_one pl cls lv)
                (fun sq x => irs_runs x = sq /\ seq_wf k x) out) as [seqs [Hs HF]].
    { rewrite Forall_forall in Hg, Hn. apply Forall_forall. intros sq Hsq.
      destruct (general_one_total sq (Hg sq Hsq) (Hn sq Hsq)) as [x [E [Hr [Hsos Heos]]]].
      exists x. split; [exact E|]. split; [exact Hr|].
      unfold seq_wf, seq_in. rewrite Hr. split; [exact (Hn sq Hsq)|]. split.
      - apply good_run_in. exact (Hg sq Hsq).
      - split; [exact (proj1 (Hg sq Hsq))|]. split; assumption. }
    exists seqs. split; [exact Hs|]. split.
    + clear Hs Hp Hg Hn Ho. induction HF as [|r sq rs sqs [_ Hw] _ IH]; constructor; assumption.
    + assert (Hc : flat_map irs_runs seqs = concat out).
      { clear Hs Hp Hg Hn Ho. induction HF as [|r sq rs sqs [Hr _] _ IH]; cbn [flat_map concat];
          [reflexivity|]. rewrite Hr, IH. reflexivity. }
      rewrite Hc. cbn [concat app] in Hp. exact Hp.
Qed.

End Stage.

Theorem sequences_total_proved : T_sequences.
Proof.
  unfold T_sequences. intros pl cls lv runs has_iso k Hcls Hlv Hk Ht.
  eapply sequences_total; eassumption.
Qed.
