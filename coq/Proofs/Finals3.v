(* Proofs/Finals3.v — FINAL-FORM theorems, third group: C16 (base direction) and C17 (summary
   queries), for every valid case. *)
From BidiVerif Require Import Base ConstsGen TablesGen ModelText ModelResolve ModelLine Spec Obs Judge
     Stmts Stmts2 Stmts3 Stmts4 Stmts5 Stmts6.
From BidiVerif.Proofs Require Import LevelOps L1 TextView LIAssemble TotalAssemble LLLevels FinalsBase Finals1 Finals2.
From BidiVerif.Props Require Import C02 C16 C17 TextView.
From Coq Require Import Lia.

(* ================================================================== *)
(* shared: the initial information behind BidiInfo, and C02 for a valid case *)

Lemma bi_from_ii e ds text d b : bidi_info_new e ds text d = Ok b ->
  exists ii, compute_initial_info e ds text d true = Ok ii /\
             bi_classes b = in_classes ii /\ bi_paras b = in_paras ii.
Proof.
  unfold bidi_info_new, bidi_info_new_gen. intros H.
  apply fb_bind_ok in H as (ii & Hi & H). apply fb_bind_ok in H as (lv & _ & H).
  injection H as <-. exists ii. auto.
Qed.

Lemma case_c02 c : valid_case c ->
  exists ii, compute_initial_info (tc_enc c) (tc_ds c) (tc_text c) (tc_dir c) true = Ok ii /\
    classes_follow_spec (spec_text c) (in_classes ii) = true /\
    paras_follow_spec (spec_text c) (in_paras ii) = true.
Proof.
  intros (_ & Hv & Hf & _). rewrite case_chars_view in Hf.
  destruct (C02_paragraphs_levels_fsi (tc_enc c) (tc_ds c) (tc_text c) _ (tc_dir c)
              (view_of_ok _ _ Hv) Hf) as (ii & H1 & H2 & H3 & _).
  exists ii. unfold spec_text. rewrite case_chars_view. auto.
Qed.

Lemma split_from_map {A} (f : A -> bclass) : forall l cur,
  split_paragraphs_from (fun k : bclass => k) (map f cur) (map f l)
  = map (map f) (split_paragraphs_from f cur l).
Proof.
  induction l as [|x r IH]; intros cur; cbn [map split_paragraphs_from].
  - destruct cur; reflexivity.
  - change [f x] with (map f [x]). rewrite <- map_app.
    destruct (f x =c B).
    + cbn [map]. f_equal. exact (IH []).
    + apply IH.
Qed.

Lemma split_map {A} (f : A -> bclass) l :
  split_paragraphs (fun k : bclass => k) (map f l) = map (map f) (split_paragraphs f l).
Proof. exact (split_from_map f l []). Qed.

Lemma spec_paras_head ds d P p rest : exists s tl,
  spec_paras_from ds d P (p :: rest) = s :: tl /\
  sp_level s = para_level (map (fun ch : N * nat => ds_class ds (fst ch)) p) d.
Proof.
  cbn [spec_paras_from]. unfold resolve_paragraph. destruct (explicit_levels _ _).
  eexists _, _. split; reflexivity.
Qed.

Lemma dir_eqb_refl x : dir_eqb x x = true.
Proof. destruct x; reflexivity. Qed.

(* ================================================================== *)
Lemma c16_final_proof : C16_final.
Proof.
  intros c Hvc. pose proof Hvc as (_ & Hv & _).
  destruct (view_of_ok _ _ Hv) as (_ & _ & Hch & _).
  destruct (C16_base_direction (tc_enc c) (tc_ds c) (tc_text c)) as (D1 & D2 & D3).
  cbv zeta in D1, D2, D3. rewrite Hch, map_map, split_map in D1, D2, D3.
  unfold C16_judge. rewrite obs_bd, obs_bdf, case_chars_view. unfold okb.
  rewrite D1, D2, !dir_eqb_refl. cbn [andb].
  destruct (tc_dir c) eqn:Ed; [reflexivity|].
  destruct (case_analysis c Hvc) as (b' & p' & CA & Ebi & Epi).
  rewrite obs_bi, Ebi.
  destruct (bi_from_ii _ _ _ _ _ Ebi) as (ii & Ei & _ & Hp).
  destruct (case_c02 c Hvc) as (ii2 & Ei2 & _ & Hps). rewrite Ei in Ei2. injection Ei2 as <-.
  rewrite Hp. unfold spec_text in Hps. rewrite case_chars_view, Ed in Hps.
  destruct (split_paragraphs _ (view_of (tc_enc c) (tc_text c))) as [|p rest] eqn:Es; cbn [map].
  - reflexivity.
  - destruct (spec_paras_head (tc_ds c) None 0 p rest) as (s & tl & Esp & Hs). rewrite Esp in Hps.
    unfold paras_follow_spec in Hps.
    destruct (in_paras ii) as [|q qs]; [discriminate|]. cbn [list_eqb2] in Hps.
    apply andb_true_iff in Hps as [Hq _]. apply andb_true_iff in Hq as [_ Hq].
    apply Nat.eqb_eq in Hq. rewrite Hq, Hs.
    destruct (D3 _ (or_introl eq_refl)) as [L1 L2].
    destruct (spec_direction _) eqn:Esd; [rewrite (L1 eq_refl) | rewrite (L2 eq_refl) |]; reflexivity.
Qed.

(* ================================================================== *)
(* C17 *)

Definition psub (lv : list nat) (p : para_info) : list nat :=
  firstn (p_end p - p_start p) (skipn (p_start p) lv).

Definition para_in (lv : list nat) (p : para_info) : Prop :=
  p_start p <= p_end p /\ p_end p <= length lv.

Lemma dirs_ok lv : forall paras, Forall (para_in lv) paras ->
  map_res (paragraph_direction lv) paras = Ok (map (fun p => para_direction (psub lv p)) paras).
Proof.
  induction 1 as [|p r [H1 H2] HF IH]; [reflexivity|].
  cbn [map_res map]. unfold paragraph_direction at 1, slice.
  assert (E1 : (p_start p <=? p_end p) = true) by (apply Nat.leb_le; lia).
  assert (E2 : (p_end p <=? length lv) = true) by (apply Nat.leb_le; lia).
  rewrite E1, E2. cbn [andb bind]. rewrite IH. reflexivity.
Qed.

Lemma level_at_range (lv : list nat) a : forall n s, s + n <= length lv -> s >= a ->
  map_res (fun k => get 1227 lv (a + k)) (seq (s - a) n) = Ok (firstn n (skipn s lv)).
Proof.
  induction n as [|n IH]; intros s Hs Ha; [reflexivity|].
  cbn [seq map_res]. replace (a + (s - a)) with s by lia.
  unfold get at 1. destruct (nth_error lv s) as [x|] eqn:En.
  2:{ apply nth_error_None in En. lia. }
  cbn [bind]. replace (S (s - a)) with (S s - a) by lia. rewrite (IH (S s)) by lia. cbn [bind].
  f_equal. rewrite (BaseDir.skipn_nth_error lv s x En). reflexivity.
Qed.

Lemma level_at_ok lv : forall paras, Forall (para_in lv) paras ->
  map_res (fun p => map_res (paragraph_level_at lv p) (range 0 (p_end p - p_start p))) paras
  = Ok (map (psub lv) paras).
Proof.
  induction 1 as [|p r [H1 H2] HF IH]; [reflexivity|].
  cbn [map_res map]. unfold range in *. rewrite Nat.sub_0_r.
  pose proof (level_at_range lv (p_start p) (p_end p - p_start p) (p_start p) ltac:(lia) ltac:(lia)) as E.
  rewrite Nat.sub_diag in E. unfold paragraph_level_at at 1. rewrite E. cbn [bind]. rewrite IH. reflexivity.
Qed.

Lemma forallb_combine_map {A B} (Q : A * B -> bool) (f : A -> B) : forall l,
  forallb Q (combine l (map f l)) = forallb (fun p => Q (p, f p)) l.
Proof. induction l as [|x t IH]; [reflexivity|]. cbn [map combine forallb]. rewrite IH. reflexivity. Qed.

Lemma Forall_odd_forallb l : Forall (fun x => Nat.odd x = true) l <-> forallb Nat.odd l = true.
Proof. rewrite forallb_forall, Forall_forall. reflexivity. Qed.

Lemma direction_ok_para lv : direction_ok' lv (para_direction lv) = true.
Proof.
  destruct lv as [|x t] eqn:E; [reflexivity|]. rewrite <- E.
  assert (Hne : lv <> []) by (rewrite E; discriminate).
  destruct (proj1 C17_summary_queries lv Hne) as [HL HR].
  unfold direction_ok'. rewrite E at 1. unfold all_even, all_odd.
  destruct (para_direction lv) eqn:Ed.
  - apply CLReorderLine.Forall_even_forallb. apply HL. reflexivity.
  - apply Forall_odd_forallb. apply HR. reflexivity.
  - apply andb_true_iff. split; apply negb_true_iff.
    + destruct (forallb Nat.even lv) eqn:Ef; [|reflexivity].
      apply CLReorderLine.Forall_even_forallb in Ef. apply HL in Ef. discriminate.
    + destruct (forallb Nat.odd lv) eqn:Ef; [|reflexivity].
      apply Forall_odd_forallb in Ef. apply HR in Ef. discriminate.
Qed.

Lemma has_rtl_odd lv : levels_has_rtl lv = existsb Nat.odd lv.
Proof.
  unfold levels_has_rtl. induction lv as [|x t IH]; [reflexivity|].
  cbn [existsb]. rewrite is_rtl_odd, IH. reflexivity.
Qed.

Lemma N_list_eqb_refl l : N_list_eqb l l = true.
Proof. apply (list_eqb_eq N.eqb N.eqb_eq). reflexivity. Qed.

Lemma view_chars_pos e text : valid_text e text -> Forall (fun ch : N * nat => 0 < snd ch) (view_of e text).
Proof.
  intros Hv. destruct (view_of_ok e text Hv) as (_ & _ & _ & _ & H).
  eapply Forall_impl; [|exact H]. intros ch [_ Hp]. exact Hp.
Qed.

(* the text of a valid line *)
Lemma line_text_sub c i j : valid_case c ->
  i < j -> j <= length (view_of (tc_enc c) (tc_text c)) ->
  exists s, t_subrange 596 (tc_enc c) (tc_text c) (fst (the_line (tc_enc c) (tc_text c) i j))
                       (snd (the_line (tc_enc c) (tc_text c) i j)) = Ok s /\
            line_text c (the_line (tc_enc c) (tc_text c) i j) = Some s.
Proof.
  intros Hvc Hij Hj. pose proof Hvc as ([He|He] & Hv & _); unfold the_line, line_text; rewrite He in *;
    cbn [fst snd].
  - (* UTF-8 *)
    exists (firstn (j - i) (skipn i (tc_text c))). split.
    + exact (subrange8 596 (tc_text c) i j ltac:(lia)).
    + rewrite case_chars_view, He.
      pose proof (chars_in_sub (view_of U8 (tc_text c)) 0 i j) as Hci. cbn [Nat.add] in Hci.
      rewrite Hci; [|exact (view_chars_pos U8 (tc_text c) I) | lia | exact Hj].
      cbn [option_map]. f_equal. rewrite <- sub_map. cbn [view_of]. rewrite map_map. cbn [fst].
      rewrite map_id. reflexivity.
  - (* UTF-16 *)
    exists (firstn (ustart (map snd (view_of U16 (tc_text c))) j - ustart (map snd (view_of U16 (tc_text c))) i)
                   (skipn (ustart (map snd (view_of U16 (tc_text c))) i) (tc_text c))).
    split; [|reflexivity].
    cbn [t_subrange]. unfold slice.
    destruct (view_of_ok U16 (tc_text c) Hv) as (_ & _ & _ & Hlen & _). cbn [t_len] in Hlen.
    pose proof (fl_line_lt U16 (tc_text c) Hv i j Hij Hj) as H1.
    pose proof (la_ustart_le_total (map snd (view_of U16 (tc_text c))) j) as H2.
    assert (E1 : (ustart (map snd (view_of U16 (tc_text c))) i <=? ustart (map snd (view_of U16 (tc_text c))) j) = true)
      by (apply Nat.leb_le; lia).
    assert (E2 : (ustart (map snd (view_of U16 (tc_text c))) j <=? length (tc_text c)) = true)
      by (apply Nat.leb_le; lia).
    rewrite E1, E2. reflexivity.
Qed.

Lemma c17_final_proof : C17_final.
Proof.
  intros c Hvc. destruct (case_analysis c Hvc) as (b' & p' & CA & Ebi & Epi).
  pose proof Hvc as (_ & Hv & _ & Hd & _).
  set (lens := map snd (view_of (tc_enc c) (tc_text c))) in *.
  assert (Hlk : length lens = length (view_of (tc_enc c) (tc_text c))) by (unfold lens; apply map_length).
  unfold C17_judge.
  rewrite obs_bi, obs_pi, obs_bi_dirs, obs_bi_level_at, obs_bi_has_rtl, obs_pi_dir, obs_pi_has_rtl, Ebi, Epi.
  cbn [bind okb].
  assert (HP : Forall (para_in (bi_levels (xbi lens b'))) (bi_paras (xbi lens b'))).
  { cbn [xbi bi_levels bi_paras]. apply Forall_forall. intros q Hq.
    apply in_map_iff in Hq as (p & <- & Hp).
    destruct CA as (_ & _ & Hll & _ & Ht & _).
    destruct (ptile_in _ _ _ _ Ht Hp) as (_ & A & B).
    unfold para_in. cbn [upara p_start p_end]. split; [apply la_ustart_le; exact A|].
    rewrite la_expand_length.
    - apply la_ustart_le_total.
    - rewrite Hll, Hlk. unfold lens. rewrite !map_length. reflexivity. }
  rewrite (dirs_ok _ _ HP), (level_at_ok _ _ HP). cbn [okb].
  rewrite !map_length, !Nat.eqb_refl. cbn [andb].
  rewrite (forallb_combine_map _ (fun p => para_direction (psub (bi_levels (xbi lens b')) p))).
  rewrite (forallb_combine_map _ (psub (bi_levels (xbi lens b')))). cbn [fst snd].
  apply andb_true_iff. split.
  - apply andb_true_iff. split; [apply andb_true_iff; split|].
    + apply forallb_forall. intros p _. apply direction_ok_para.
    + apply forallb_forall. intros p _. apply nat_list_eqb_refl.
    + unfold bidi_info_has_rtl. rewrite has_rtl_odd. apply Bool.eqb_reflx.
  - rewrite direction_ok_para. cbn [andb].
    destruct (para_bidi_info_has_rtl false (xpi lens p')) eqn:Eh; [reflexivity|].
    destruct (proj2 (proj2 (proj2 C17_summary_queries)) _ _ _ _ _ Hd Epi Eh) as [Hev Hro].
    apply andb_true_iff. split.
    + apply negb_true_iff. destruct (existsb Nat.odd _) eqn:Ex; [|reflexivity].
      apply existsb_exists in Ex as (x & Hx & Hodd). rewrite Forall_forall in Hev.
      specialize (Hev x Hx). rewrite <- Nat.negb_odd, Hodd in Hev. discriminate.
    + apply (pi_lines_forall c Hvc p' Epi). intros i j Hij Hj.
      rewrite fl_line.
      destruct (line_text_sub c i j Hvc Hij Hj) as (s & Hs & Ht). rewrite Ht.
      unfold the_lo, model_line. cbn [lo_ro bind]. fold lens.
      change (expand lens (pb_classes p')) with (pb_classes (xpi lens p')).
      change (expand lens (pb_levels p')) with (pb_levels (xpi lens p')).
      change (pb_level p') with (pb_level (xpi lens p')).
      rewrite Hro.
      * rewrite Hs. cbn [okb]. apply N_list_eqb_refl.
      * unfold the_line. cbn [fst snd]. apply la_ustart_le. lia.
      * unfold the_line. cbn [fst snd xpi pb_levels].
        rewrite la_expand_length; [apply la_ustart_le_total|].
        rewrite Hlk. symmetry. exact (ca_pi_lv c b' p' CA).
Qed.
