(* Proofs/TotalWeak.v — totality (no panic), length preservation and frame property of
   implicit::resolve_weak at character level (ghost encoding U32). *)
From BidiVerif Require Import Base ConstsGen TablesGen ModelText ModelResolve ModelLine Spec Obs Judge
     Stmts Stmts2 Stmts3 Stmts4.
From Coq Require Import Lia.

(* ------------------------------------------------------------------ *)
(* generic monadic / vector facts *)

Lemma bind_total {A B} (r : res A) (f : A -> res B) (P : A -> Prop) (Q : B -> Prop) :
  (exists x, r = Ok x /\ P x) ->
  (forall x, P x -> exists y, f x = Ok y /\ Q y) ->
  exists y, bind r f = Ok y /\ Q y.
Proof. intros (x & -> & Hp) H. cbn. auto. Qed.

Lemma upd_opt_some {A} (l : list A) : forall i x, i < length l ->
  exists l', upd_opt l i x = Some l' /\ length l' = length l /\
             forall j, j <> i -> nth_error l' j = nth_error l j.
Proof.
  induction l as [|h t IH]; intros i x Hi; cbn in Hi; [lia|].
  destruct i as [|i].
  - exists (x :: t). cbn. repeat split. intros [|j] Hj; [congruence | reflexivity].
  - destruct (IH i x ltac:(lia)) as (t' & E & Hl & Hn).
    exists (h :: t'). cbn. rewrite E. repeat split.
    + cbn. congruence.
    + intros [|j] Hj; cbn; [reflexivity | apply Hn; congruence].
Qed.

Lemma in_range a b j : In j (range a b) <-> a <= j < b.
Proof. unfold range. rewrite in_seq. lia. Qed.

Lemma nth_error_split_skipn {A} (l : list A) : forall i x, nth_error l i = Some x ->
  exists rest, skipn i l = x :: rest.
Proof.
  induction l as [|h t IH]; intros [|i] x E; cbn in *; try discriminate.
  - injection E as ->. eauto.
  - apply IH; assumption.
Qed.

Lemma in_firstn {A} (l : list A) i x : In x (firstn i l) -> In x l.
Proof. intros H. rewrite <- (firstn_skipn i l). apply in_or_app; auto. Qed.

Lemma in_skipn {A} (l : list A) i x : In x (skipn i l) -> In x l.
Proof. intros H. rewrite <- (firstn_skipn i l). apply in_or_app; auto. Qed.

(* ------------------------------------------------------------------ *)
(* iterators over the runs of a sequence *)

Lemma iter_fw_ok (runs : list run) pos idx (r : run) :
  nth_error runs idx = Some r -> fst r <= pos ->
  exists fw, iter_forwards_from runs pos idx = Ok fw /\ incl fw (flat_map run_range runs).
Proof.
  intros E Hp. unfold iter_forwards_from.
  assert (Hlt : idx < length runs) by (apply nth_error_Some; congruence).
  destruct (length runs <? idx) eqn:El; [apply Nat.ltb_lt in El; lia|].
  destruct (nth_error_split_skipn _ _ _ E) as (rest & Es). rewrite Es.
  eexists; split; [reflexivity|].
  intros j Hj. apply in_flat_map. apply in_app_or in Hj as [Hj|Hj].
  - exists r. split; [eapply nth_error_In; eauto|].
    apply in_range in Hj. apply in_range. lia.
  - apply in_flat_map in Hj as (r' & Hr' & Hj). exists r'. split; [|assumption].
    apply (in_skipn runs idx). rewrite Es. right; assumption.
Qed.

Lemma iter_bw_ok (runs : list run) pos idx (r : run) :
  nth_error runs idx = Some r -> pos <= snd r ->
  exists bw, iter_backwards_from runs pos idx = Ok bw /\ incl bw (flat_map run_range runs).
Proof.
  intros E Hp. unfold iter_backwards_from.
  assert (Hlt : idx < length runs) by (apply nth_error_Some; congruence).
  destruct (length runs <? idx) eqn:El; [apply Nat.ltb_lt in El; lia|].
  rewrite E. eexists; split; [reflexivity|].
  intros j Hj. apply in_flat_map. apply in_app_or in Hj as [Hj|Hj].
  - exists r. split; [eapply nth_error_In; eauto|].
    apply in_rev in Hj. apply in_range in Hj. apply in_range. lia.
  - apply in_flat_map in Hj as (r' & Hr' & Hj). exists r'. split.
    + apply in_rev in Hr'. eapply in_firstn; eauto.
    + apply in_rev in Hj. assumption.
Qed.

Lemma indexed_units_in (runs : list run) : forall (runs' : list run) k,
  (forall j r, nth_error runs' j = Some r -> nth_error runs (k + j) = Some r) ->
  forall ri i, In (ri, i) (indexed_units k runs') ->
  exists r, nth_error runs ri = Some r /\ In i (run_range r).
Proof.
  induction runs' as [|r0 rest IH]; intros k Hk ri i Hin; cbn in Hin; [contradiction|].
  apply in_app_or in Hin as [Hin|Hin].
  - apply in_map_iff in Hin as (i' & Eq & Hi'). injection Eq as <- <-.
    exists r0. split; [|assumption]. specialize (Hk 0 r0 eq_refl). now rewrite Nat.add_0_r in Hk.
  - apply (IH (S k)); [|assumption].
    intros j r Ej. specialize (Hk (S j) r Ej). now rewrite Nat.add_succ_r in Hk.
Qed.

(* ------------------------------------------------------------------ *)
Section Weak.
Variable cps : list N.
Variable sq : irs.
Variable pc0 : list bclass.
Let IS : list nat := flat_map run_range (irs_runs sq).
Hypothesis Hlen : length pc0 = length cps.
Hypothesis HS : forall i, In i IS -> i < length pc0.

Definition good (pc : list bclass) : Prop :=
  length pc = length pc0 /\ forall i, ~ In i IS -> nth_error pc i = nth_error pc0 i.

Lemma good_pc0 : good pc0.
Proof. split; auto. Qed.

Lemma good_get site pc i : good pc -> In i IS -> exists c, get site pc i = Ok c /\ True.
Proof.
  intros (Hl & _) Hi. unfold get.
  destruct (nth_error pc i) eqn:E; [eauto|].
  apply nth_error_None in E. apply HS in Hi. lia.
Qed.

Lemma good_upd site pc i x : good pc -> In i IS -> exists pc', upd site pc i x = Ok pc' /\ good pc'.
Proof.
  intros (Hl & Hf) Hi. unfold upd.
  destruct (upd_opt_some pc i x) as (pc' & E & Hl' & Hn); [apply HS in Hi; lia|].
  rewrite E. exists pc'. split; [reflexivity|]. split; [congruence|].
  intros j Hj. rewrite Hn; [apply Hf; assumption|]. intros ->. contradiction.
Qed.

Lemma good_set_all site x : forall idxs pc, good pc -> incl idxs IS ->
  exists pc', set_all site pc idxs x = Ok pc' /\ good pc'.
Proof.
  induction idxs as [|j rest IH]; intros pc Hg Hi; cbn [set_all].
  - eauto.
  - apply bind_total with (P := good).
    + apply good_upd; [assumption | apply Hi; left; reflexivity].
    + intros pc' Hg'. apply IH; [assumption|]. intros a Ha. apply Hi. right; assumption.
Qed.

Lemma good_set_while_bn site x : forall idxs pc, good pc -> incl idxs IS ->
  exists pc', set_while_bn site pc idxs x = Ok pc' /\ good pc'.
Proof.
  induction idxs as [|j rest IH]; intros pc Hg Hi; cbn [set_while_bn].
  - eauto.
  - apply bind_total with (P := fun _ => True).
    + apply good_get; [assumption | apply Hi; left; reflexivity].
    + intros c _. destruct (c =c BN); [|eauto].
      apply bind_total with (P := good).
      * apply good_upd; [assumption | apply Hi; left; reflexivity].
      * intros pc' Hg'. apply IH; [assumption|]. intros a Ha. apply Hi. right; assumption.
Qed.

Lemma good_find_value_by site p : forall idxs pc, good pc -> incl idxs IS ->
  exists r, find_value_by site p pc idxs = Ok r /\ True.
Proof.
  induction idxs as [|j rest IH]; intros pc Hg Hi; cbn [find_value_by].
  - eauto.
  - apply bind_total with (P := fun _ => True).
    + apply good_get; [assumption | apply Hi; left; reflexivity].
    + intros c _. destruct (p c); [eauto|].
      apply IH; [assumption|]. intros a Ha. apply Hi. right; assumption.
Qed.

Lemma good_w7_fold : forall idxs pc b, good pc -> incl idxs IS ->
  exists out, w7_fold pc b idxs = Ok out /\ good out.
Proof.
  induction idxs as [|j rest IH]; intros pc b Hg Hi; cbn [w7_fold].
  - eauto.
  - assert (Hr : incl rest IS) by (intros a Ha; apply Hi; right; assumption).
    assert (Hj : In j IS) by (apply Hi; left; reflexivity).
    apply bind_total with (P := fun _ => True).
    + apply good_get; assumption.
    + intros c _. destruct c; try (apply IH; assumption).
      destruct b; [|apply IH; assumption].
      apply bind_total with (P := good); [apply good_upd; assumption|].
      intros pc' Hg'. apply IH; assumption.
Qed.

(* ---- one step ---- *)

Definition inv (st : w_state) : Prop :=
  good (w_pc st) /\ incl (w_et st) IS /\ incl (w_bn st) IS.

(* the ES | CS arm of W4/W6, verbatim *)
Definition sep_body (st : w_state) (run_index i : nat) (al : bool) (pc : list bclass) (c456 : bclass)
  : res (list bclass * list nat) :=
      match t_char_at U32 cps i with
      | Some (_, clen) =>
        fw <- iter_forwards_from (irs_runs sq) (i + clen) run_index ;;
        nx <- find_value_by 135 not_removed_by_x9 pc fw ;;
        let next_class := opt_or nx (irs_eos sq) in
        let next_class := if (next_class =c EN) && al then AN else next_class in
        let newc := match w_prev4 st, c456, next_class with
                    | EN, ES, EN | EN, CS, EN => EN
                    | AN, CS, AN => AN
                    | _, _, _ => ON
                    end in
        pc <- upd 145 pc i newc ;;
        pc <- (if newc =c ON then
                 bw <- iter_backwards_from (irs_runs sq) i run_index ;;
                 pc <- set_while_bn 162 pc bw ON ;;
                 fw2 <- iter_forwards_from (irs_runs sq) (i + clen) run_index ;;
                 set_while_bn 169 pc fw2 ON
               else Ok pc) ;;
        Ok (pc, w_et st)
      | None =>
        if i =? 0 then Panic 179 else
        p <- get 179 pc (i - 1) ;;
        pc <- upd 179 pc i p ;;
        Ok (pc, w_et st)
      end.

Lemma sep_body_ok st ri i r al pc c456 :
  incl (w_et st) IS -> good pc ->
  nth_error (irs_runs sq) ri = Some r -> In i (run_range r) ->
  exists x, sep_body st ri i al pc c456 = Ok x /\ (good (fst x) /\ incl (snd x) IS).
Proof.
  intros Het Hg Hr Hi.
  assert (HiS : In i IS).
  { apply in_flat_map. exists r. split; [eapply nth_error_In; eauto | assumption]. }
  apply in_range in Hi.
  unfold sep_body, t_char_at.
  destruct (nth_error cps i) as [ch|] eqn:Ech.
  2:{ apply nth_error_None in Ech. apply HS in HiS. lia. }
  apply bind_total with (P := fun fw => incl fw IS).
  { apply (iter_fw_ok _ _ _ r); [assumption | lia]. }
  intros fw Hfw.
  apply bind_total with (P := fun _ => True).
  { apply good_find_value_by; assumption. }
  intros nx _. cbv zeta.
  match goal with |- context [upd 145 pc i ?nc] => generalize nc end.
  intros newc.
  apply bind_total with (P := good).
  { apply good_upd; assumption. }
  intros pc1 Hg1.
  apply bind_total with (P := good).
  { destruct (newc =c ON); [|eauto].
    apply bind_total with (P := fun bw => incl bw IS).
    { apply (iter_bw_ok _ _ _ r); [assumption | lia]. }
    intros bw Hbw.
    apply bind_total with (P := good).
    { apply good_set_while_bn; assumption. }
    intros pc2 Hg2.
    apply bind_total with (P := fun fw => incl fw IS).
    { apply (iter_fw_ok _ _ _ r); [assumption | lia]. }
    intros fw2 Hfw2.
    apply good_set_while_bn; assumption. }
  intros pc2 Hg2.
  eexists; split; [reflexivity|]. cbn [fst snd]. auto.
Qed.

Lemma weak_step_ok st ri i r :
  inv st -> nth_error (irs_runs sq) ri = Some r -> In i (run_range r) ->
  exists st', weak_step U32 cps sq st (ri, i) = Ok st' /\ inv st'.
Proof.
  intros (Hg & Het & Hbn) Hr Hi.
  assert (HiS : In i IS).
  { apply in_flat_map. exists r. split; [eapply nth_error_In; eauto | assumption]. }
  assert (HiI : incl [i] IS) by (intros a [<-|[]]; assumption).
  unfold weak_step.
  apply bind_total with (P := fun _ => True). { apply good_get; assumption. }
  intros c0 _.
  destruct (c0 =c BN).
  { eexists; split; [reflexivity|]. repeat split; cbn; try assumption; try apply Hg.
    apply incl_app; assumption. }
  (* W1 *)
  apply bind_total with (P := fun x => good (fst x)).
  { destruct (c0 =c NSM).
    - apply bind_total with (P := good); [apply good_upd; assumption|].
      intros pc Hpc. eexists; split; [reflexivity | exact Hpc].
    - eexists; split; [reflexivity | exact Hg]. }
  intros [pc w2c] Hpc; cbn [fst] in Hpc. cbv beta iota.
  apply bind_total with (P := fun _ => True). { apply good_get; assumption. }
  intros c1 _. cbv zeta.
  (* W2 / W3 *)
  apply bind_total with (P := good).
  { destruct c1; try (eexists; split; [reflexivity | assumption]).
    - apply good_upd; assumption.
    - destruct (w_al st); [apply good_upd; assumption | eauto]. }
  clear pc Hpc. intros pc Hpc.
  set (al := match w2c with L | R => false | AL => true | _ => w_al st end). clearbody al.
  apply bind_total with (P := fun _ => True). { apply good_get; assumption. }
  intros c456 _.
  (* W4 / W5 / W6 *)
  apply bind_total with (P := fun x => good (fst x) /\ incl (snd x) IS).
  { destruct c456; try (eexists; split; [reflexivity | split; assumption]).
    - exact (sep_body_ok st ri i r al pc CS Het Hpc Hr Hi).
    - apply bind_total with (P := good); [apply good_set_all; assumption|].
      intros pc' Hpc'. eexists; split; [reflexivity|]. split; [assumption | apply incl_nil_l].
    - exact (sep_body_ok st ri i r al pc ES Het Hpc Hr Hi).
    - assert (Hall : incl (w_et st ++ w_bn st ++ [i]) IS) by (repeat apply incl_app; assumption).
      destruct (w_prev5 st); try (eexists; split; [reflexivity | split; assumption]).
      apply bind_total with (P := good); [apply good_upd; assumption|].
      intros pc' Hpc'. eexists; split; [reflexivity|]. split; assumption. }
  clear pc Hpc. intros [pc et] [Hpc Het']; cbn [fst snd] in Hpc, Het'. cbv beta iota.
  apply bind_total with (P := fun _ => True). { apply good_get; assumption. }
  intros prev5 _.
  apply bind_total with (P := fun x => good (fst x) /\ incl (snd x) IS).
  { destruct (prev5 =c ET).
    - eexists; split; [reflexivity | split; assumption].
    - apply bind_total with (P := good); [apply good_set_all; assumption|].
      intros pc' Hpc'. eexists; split; [reflexivity|]. split; [assumption | apply incl_nil_l]. }
  clear pc Hpc et Het'. intros [pc et] [Hpc Het']; cbn [fst snd] in Hpc, Het'. cbv beta iota.
  eexists; split; [reflexivity|]. repeat split; cbn; try assumption; try apply Hpc.
  apply incl_nil_l.
Qed.

Lemma weak_fold_ok : forall l st,
  inv st ->
  (forall ri i, In (ri, i) l -> exists r, nth_error (irs_runs sq) ri = Some r /\ In i (run_range r)) ->
  exists st', weak_fold U32 cps sq st l = Ok st' /\ inv st'.
Proof.
  induction l as [|[ri i] rest IH]; intros st Hinv Hl; cbn [weak_fold].
  - eauto.
  - apply bind_total with (P := inv).
    + destruct (Hl ri i (or_introl eq_refl)) as (r & Hr & Hi).
      apply (weak_step_ok st ri i r); assumption.
    + intros st' Hinv'. apply IH; [assumption|]. intros ri' i' H. apply Hl. right; assumption.
Qed.

Lemma resolve_weak_ok :
  exists out, resolve_weak U32 cps sq pc0 = Ok out /\ good out.
Proof.
  unfold resolve_weak.
  apply bind_total with (P := inv).
  { apply weak_fold_ok.
    - split; [exact good_pc0|]. split; cbn; apply incl_nil_l.
    - apply (indexed_units_in (irs_runs sq) (irs_runs sq) 0). intros j r E. exact E. }
  intros st (Hg & Het & Hbn).
  apply bind_total with (P := good). { apply good_set_all; assumption. }
  intros pc Hpc.
  apply good_w7_fold; [assumption | apply incl_refl].
Qed.

End Weak.

(* ------------------------------------------------------------------ *)
Lemma seq_in_bound k sq i : seq_in k sq -> In i (flat_map run_range (irs_runs sq)) -> i < k.
Proof.
  unfold seq_in. intros Hf Hi. apply in_flat_map in Hi as (r & Hr & Hi).
  rewrite Forall_forall in Hf. destruct (Hf r Hr) as [_ H2].
  apply in_range in Hi. lia.
Qed.

Lemma t_weak_main : T_weak.
Proof.
  intros cps sq pc Hlen (_ & Hin & _).
  destruct (resolve_weak_ok cps sq pc Hlen) as (out & E & Hl & Hf).
  - intros i Hi. rewrite Hlen. eapply seq_in_bound; eauto.
  - exists out. repeat split; assumption.
Qed.
