(* Proofs/CSNeutral.v — CS_neutral: implicit::resolve_neutral (BD16, N0, N1, N2) computes, on the live
   positions of an isolating run sequence, exactly Spec.neutral after the fold of Spec.n0_one over
   Spec.bracket_pairs.  Assembly of CSNeutralBD16 (BD16), CSNeutralN0 (N0) and CSNeutralN12 (N1/N2). *)
From BidiVerif Require Import Base ConstsGen TablesGen ModelText ModelResolve ModelLine Spec Obs Judge StageRel
     Stmts Stmts2 Stmts3 Stmts4 Stmts5 Stmts6.
From BidiVerif.Proofs Require Import TotalNeutral CSNeutralBase CSNeutralBD16 CSNeutralOps CSNeutralN0 CSNeutralN12.

Lemma level_class_LR l : level_class l = L \/ level_class l = R.
Proof. unfold level_class. destruct (is_rtl l); auto. Qed.

Lemma cs_neutral_proof : CS_neutral.
Proof.
  unfold CS_neutral. intros ds cps oc lv sq pc1 out Hpc1 Hoc Hlv Hwf Hal Htr H.
  set (k := length cps) in *.
  unfold resolve_neutral, resolve_neutral_gen in H.
  unfold sq_neutral_spec, sq_ecls. cbv zeta.
  destruct (irs_runs sq) as [|r0 rs] eqn:Er; [discriminate|]. rewrite <- Er in *.
  apply bind_ok in H as (l0 & El0 & H). apply get_inv in El0 as [_ El0]. specialize (El0 0). rewrite El0.
  set (e := level_class l0) in *.
  pose proof (level_class_LR l0) as He. fold e in He.
  apply bind_ok in H as (mps & Emps & H).
  apply bind_ok in H as (pc2 & En0 & H).
  (* BD16 *)
  destruct (bd16_sim ds cps oc pc1 sq mps Hpc1 Hoc Hwf Emps) as (Hgp & Hpok & Hbok & Hnd).
  (* N0 *)
  assert (Halpha : forall x, In x (live_idx oc sq) -> alphab (nth x pc1 BN) = true).
  { intros x Hx. rewrite Forall_forall in Hal. specialize (Hal (nth x pc1 BN)).
    destruct Hal as [Hni|Hsd].
    - unfold at_. apply in_map_iff. exists x. auto.
    - unfold alphab. rewrite Hni. reflexivity.
    - unfold alphab, hasdir. destruct (strong_dir (nth x pc1 BN)); [apply orb_true_r | congruence]. }
  pose proof (Inv_init cps sq oc k eq_refl Hoc Hwf pc1 mps Hpc1 Halpha Htr Hbok) as HI.
  assert (Hlive : Forall (fun p => live oc (bp_start p) = true /\ live oc (bp_end p) = true) mps).
  { eapply Forall_impl; [|exact Hbok]. intros p [[A _] [B _]]. auto. }
  destruct (n0_pairs_sim cps sq oc k eq_refl Hoc Hwf e He mps pc1 pc2 HI Hpok Hlive Hnd En0) as [HI2 Eq2].
  destruct HI2 as (Hk2 & Halpha2 & HP2 & _).
  (* N1 / N2 *)
  assert (Hsos : irs_sos sq = L \/ irs_sos sq = R) by (destruct Hwf as (_ & _ & _ & A & _); exact A).
  destruct (n12_sim sq oc k Hwf e pc2 Halpha2 HP2 _ (seq_idx sq) [] pc2 (irs_sos sq) out
              eq_refl (Nat.lt_succ_diag_r _) Hk2 (fun j _ => eq_refl)) as [Eout _].
  { left. unfold LS, T. cbn [filter at_ map lead_after]. apply norm_LR. exact Hsos. }
  { exact H. }
  fold (live_idx oc sq) in Eout. rewrite Eout. unfold LS, T. cbn [filter at_ map lead_after].
  fold (live_idx oc sq). unfold neutral. rewrite Eq2, <- Hgp. reflexivity.
Qed.
