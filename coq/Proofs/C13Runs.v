(* Proofs/C13Runs.v — general facts about BD7 level runs and BD13 chains of the specification,
   used by the proof of C13 (part B). *)
From BidiVerif Require Import Base ConstsGen TablesGen ModelText ModelResolve ModelLine Spec Obs Judge StageRel
     Stmts Stmts2 Stmts3 Stmts4 Stmts5 Stmts6 Stmts7.
From BidiVerif.Proofs Require Import BaseDir InitialInfo.
From Coq Require Import Sorted.

(* ------------------------------------------------------------------ *)
(* 1. level runs *)
Definition same_lvl (a b : option nat) : bool :=
  match a, b with Some a, Some b => a =? b | _, _ => false end.

Lemma same_lvl_eq a b : same_lvl a b = true -> a = b.
Proof. destruct a, b; cbn; try discriminate. intros H. apply Nat.eqb_eq in H. congruence. Qed.

Lemma lrf_step lev cur curl i rest :
  level_runs_from lev cur curl (i :: rest) =
  match cur with
  | [] => level_runs_from lev [i] (snth lev i None) rest
  | _ => if same_lvl (snth lev i None) curl then level_runs_from lev (cur ++ [i]) curl rest
         else cur :: level_runs_from lev [i] (snth lev i None) rest
  end.
Proof. reflexivity. Qed.

Fixpoint lr_ext (lev : list (option nat)) (curl : option nat) (idx : list nat) : list nat :=
  match idx with
  | [] => []
  | i :: r => if same_lvl (snth lev i None) curl then i :: lr_ext lev curl r else []
  end.
Fixpoint lr_rest (lev : list (option nat)) (curl : option nat) (idx : list nat) : list (list nat) :=
  match idx with
  | [] => []
  | i :: r => if same_lvl (snth lev i None) curl then lr_rest lev curl r
              else (i :: lr_ext lev (snth lev i None) r) :: lr_rest lev (snth lev i None) r
  end.

Lemma lrf_cons lev idx : forall cur curl, cur <> [] ->
  level_runs_from lev cur curl idx = (cur ++ lr_ext lev curl idx) :: lr_rest lev curl idx.
Proof.
  induction idx as [|i r IH]; intros cur curl Hc.
  - destruct cur; [contradiction|]. cbn [level_runs_from lr_ext lr_rest]. rewrite app_nil_r. reflexivity.
  - rewrite lrf_step. destruct cur as [|c0 cr]; [contradiction|].
    cbn [lr_ext lr_rest]. destruct (same_lvl (snth lev i None) curl).
    + rewrite IH by (destruct cr; discriminate). rewrite <- app_assoc. reflexivity.
    + rewrite IH by discriminate. rewrite app_nil_r. reflexivity.
Qed.

Lemma level_runs_cons lev i r :
  level_runs lev (i :: r) = (i :: lr_ext lev (snth lev i None) r) :: lr_rest lev (snth lev i None) r.
Proof. unfold level_runs. rewrite lrf_step. rewrite lrf_cons by discriminate. reflexivity. Qed.

Lemma lrf_concat lev idx : forall cur curl, concat (level_runs_from lev cur curl idx) = cur ++ idx.
Proof.
  induction idx as [|i r IH]; intros cur curl.
  - destruct cur; cbn [level_runs_from concat]; rewrite ?app_nil_r; reflexivity.
  - rewrite lrf_step. destruct cur as [|c0 cr]; [rewrite IH; reflexivity|].
    destruct (same_lvl _ _).
    + rewrite IH, <- app_assoc. reflexivity.
    + cbn [concat]. rewrite IH. reflexivity.
Qed.

Lemma lrf_nonempty lev idx : forall cur curl, Forall (fun r => r <> []) (level_runs_from lev cur curl idx).
Proof.
  induction idx as [|i r IH]; intros cur curl.
  - destruct cur; cbn [level_runs_from]; constructor; [discriminate|constructor].
  - rewrite lrf_step. destruct cur as [|c0 cr]; [apply IH|].
    destruct (same_lvl _ _); [apply IH|]. constructor; [discriminate|apply IH].
Qed.

(* dependence on the levels of the listed positions only *)
Lemma lrf_ext_lev lev lev' idx : (forall i, In i idx -> snth lev i None = snth lev' i None) ->
  forall cur curl, level_runs_from lev cur curl idx = level_runs_from lev' cur curl idx.
Proof.
  induction idx as [|i r IH]; intros H cur curl; [reflexivity|].
  rewrite !lrf_step. rewrite <- (H i (or_introl eq_refl)).
  assert (H' : forall j, In j r -> snth lev j None = snth lev' j None) by (intros j Hj; apply H; right; exact Hj).
  destruct cur; [apply IH, H'|]. destruct (same_lvl _ _); rewrite (IH H'); reflexivity.
Qed.

(* processing a non-empty block A: some complete runs E and an open run *)
Lemma lrf_split lev A : A <> [] -> forall cur curl,
  exists E cur', cur' <> [] /\ concat E ++ cur' = cur ++ A /\ Forall (fun r => r <> []) E /\
    forall lev' B, (forall i, In i A -> snth lev i None = snth lev' i None) ->
      level_runs_from lev' cur curl (A ++ B) = E ++ level_runs_from lev' cur' (snth lev (last A 0) None) B.
Proof.
  induction A as [|i A' IH]; intros HA cur curl; [contradiction|].
  destruct A' as [|i' A''].
  - (* single element *)
    destruct cur as [|c0 cr].
    + exists [], [i]. split; [discriminate|]. split; [reflexivity|]. split; [constructor|].
      intros lev' B H. cbn [app last]. rewrite lrf_step. rewrite (H i (or_introl eq_refl)). reflexivity.
    + destruct (same_lvl (snth lev i None) curl) eqn:Es.
      * exists [], ((c0 :: cr) ++ [i]). split; [destruct cr; discriminate|]. split; [reflexivity|]. split; [constructor|].
        intros lev' B H. cbn [app last]. rewrite lrf_step. rewrite <- (H i (or_introl eq_refl)), Es.
        rewrite (same_lvl_eq _ _ Es). reflexivity.
      * exists [c0 :: cr], [i]. split; [discriminate|]. split; [cbn [concat app]; rewrite app_nil_r; reflexivity|].
        split; [constructor; [discriminate|constructor]|].
        intros lev' B H. cbn [app last]. rewrite lrf_step. rewrite <- (H i (or_introl eq_refl)), Es. reflexivity.
  - assert (Hl : last (i :: i' :: A'') 0 = last (i' :: A'') 0) by reflexivity. rewrite Hl.
    destruct cur as [|c0 cr].
    + destruct (IH ltac:(discriminate) [i] (snth lev i None)) as (E & cur' & H1 & H2 & H3 & H4).
      exists E, cur'. split; [exact H1|]. split; [exact H2|]. split; [exact H3|].
      intros lev' B H. change ((i :: i' :: A'') ++ B) with (i :: (i' :: A'') ++ B). rewrite lrf_step.
      rewrite <- (H i (or_introl eq_refl)). apply H4. intros j Hj. apply H. right. exact Hj.
    + destruct (same_lvl (snth lev i None) curl) eqn:Es.
      * destruct (IH ltac:(discriminate) ((c0 :: cr) ++ [i]) curl) as (E & cur' & H1 & H2 & H3 & H4).
        exists E, cur'. split; [exact H1|]. split; [rewrite H2, <- app_assoc; reflexivity|]. split; [exact H3|].
        intros lev' B H. change ((i :: i' :: A'') ++ B) with (i :: (i' :: A'') ++ B). rewrite lrf_step.
        rewrite <- (H i (or_introl eq_refl)), Es. apply H4. intros j Hj. apply H. right. exact Hj.
      * destruct (IH ltac:(discriminate) [i] (snth lev i None)) as (E & cur' & H1 & H2 & H3 & H4).
        exists ((c0 :: cr) :: E), cur'. split; [exact H1|].
        split; [cbn [concat]; rewrite <- app_assoc, H2; reflexivity|].
        split; [constructor; [discriminate|exact H3]|].
        intros lev' B H. change ((i :: i' :: A'') ++ B) with (i :: (i' :: A'') ++ B). rewrite lrf_step.
        rewrite <- (H i (or_introl eq_refl)), Es. cbn [app]. f_equal.
        apply H4. intros j Hj. apply H. right. exact Hj.
Qed.

(* renaming of positions *)
Lemma lrf_map (f : nat -> nat) lev1 lev0 idx :
  (forall i, In i idx -> snth lev1 (f i) None = snth lev0 i None) ->
  forall cur curl, level_runs_from lev1 (map f cur) curl (map f idx) = map (map f) (level_runs_from lev0 cur curl idx).
Proof.
  induction idx as [|i r IH]; intros H cur curl.
  - destruct cur; reflexivity.
  - cbn [map]. rewrite !lrf_step. rewrite (H i (or_introl eq_refl)).
    assert (H' : forall j, In j r -> snth lev1 (f j) None = snth lev0 j None) by (intros j Hj; apply H; right; exact Hj).
    destruct cur as [|c0 cr]; cbn [map].
    + apply (IH H' [i]).
    + destruct (same_lvl _ _).
      * rewrite <- (IH H'). rewrite map_app. reflexivity.
      * cbn [map]. f_equal. apply (IH H' [i]).
Qed.

Lemma lr_ext_rest_map (f : nat -> nat) lev1 lev0 idx curl :
  (forall i, In i idx -> snth lev1 (f i) None = snth lev0 i None) ->
  lr_ext lev1 curl (map f idx) = map f (lr_ext lev0 curl idx) /\
  lr_rest lev1 curl (map f idx) = map (map f) (lr_rest lev0 curl idx).
Proof.
  intros H. pose proof (lrf_map f lev1 lev0 idx H [0] curl) as E.
  rewrite !lrf_cons in E by discriminate. cbn [map app] in E. injection E as E1 E2. split; assumption.
Qed.

(* ------------------------------------------------------------------ *)
(* 2. increasing lists of positions *)
Fixpoint inc (l : list nat) : Prop :=
  match l with
  | [] => True
  | x :: r => Forall (fun y => x < y) r /\ inc r
  end.

Lemma inc_app A B : inc (A ++ B) <-> inc A /\ inc B /\ (forall x y, In x A -> In y B -> x < y).
Proof.
  induction A as [|a A IH]; cbn [app inc].
  - split; [intros H; repeat split; [exact H|intros x y []]|intros (_ & H & _); exact H].
  - rewrite IH, Forall_app. split.
    + intros ((F1 & F2) & I1 & I2 & I3). repeat split; try assumption.
      intros x y [<-|Hx] Hy; [rewrite Forall_forall in F2; apply F2, Hy|apply I3; assumption].
    + intros ((F1 & I1) & I2 & I3). repeat split; try assumption.
      * apply Forall_forall. intros y Hy. apply I3; [left; reflexivity|exact Hy].
      * intros x y Hx Hy. apply I3; [right; exact Hx|exact Hy].
Qed.

Lemma inc_filter p l : inc l -> inc (filter p l).
Proof.
  induction l as [|x r IH]; intros H; [exact I|].
  destruct H as [F Hr]. cbn [filter]. destruct (p x); [|apply IH, Hr].
  split; [|apply IH, Hr]. rewrite Forall_forall in *. intros y Hy. apply filter_In in Hy. apply F, Hy.
Qed.

Lemma inc_seq n : forall a, inc (seq a n).
Proof.
  induction n as [|n IH]; intros a; [exact I|]. cbn [seq inc]. split; [|apply IH].
  apply Forall_forall. intros y Hy. apply in_seq in Hy. lia.
Qed.

Lemma inc_map (f : nat -> nat) l : (forall x y, x < y -> f x < f y) -> inc l -> inc (map f l).
Proof.
  intros Hf. induction l as [|x r IH]; intros H; [exact I|]. destruct H as [F Hr]. cbn [map inc].
  split; [|apply IH, Hr]. rewrite Forall_forall in *. intros y Hy. apply in_map_iff in Hy.
  destruct Hy as (z & <- & Hz). apply Hf, F, Hz.
Qed.

Lemma inc_remaining cls0 : inc (remaining cls0).
Proof. unfold remaining. apply inc_filter, inc_seq. Qed.

Lemma inc_NoDup l : inc l -> NoDup l.
Proof.
  induction l as [|x r IH]; intros H; [constructor|]. destruct H as [F Hr]. constructor; [|apply IH, Hr].
  intros Hx. rewrite Forall_forall in F. specialize (F x Hx). lia.
Qed.

Lemma first_of_in r : r <> [] -> In (first_of r) r.
Proof. destruct r; [contradiction|]. intros _. left. reflexivity. Qed.

Lemma last_of_in r : r <> [] -> In (last_of r) r.
Proof.
  unfold last_of. induction r as [|x r IH]; [contradiction|]. intros _.
  destruct r as [|y r']; [left; reflexivity|]. right. apply IH. discriminate.
Qed.

Lemma inc_first_le r x : inc r -> In x r -> first_of r <= x.
Proof.
  destruct r as [|a r]; [intros _ []|]. intros [F _] [<-|Hx]; cbn [first_of hd]; [lia|].
  rewrite Forall_forall in F. specialize (F x Hx). lia.
Qed.

Lemma first_of_map (f : nat -> nat) r : f 0 = 0 -> first_of (map f r) = f (first_of r).
Proof. intros H. destruct r; cbn; [symmetry; exact H|reflexivity]. Qed.

Lemma last_of_map (f : nat -> nat) r : f 0 = 0 -> last_of (map f r) = f (last_of r).
Proof.
  intros H. unfold last_of. induction r as [|x r IH]; [symmetry; exact H|].
  destruct r as [|y r']; [reflexivity|]. exact IH.
Qed.

Lemma last_of_app a b : b <> [] -> last_of (a ++ b) = last_of b.
Proof.
  intros Hb. unfold last_of. induction a as [|x a IH]; [reflexivity|].
  cbn [app]. destruct (a ++ b) eqn:E; [apply app_eq_nil in E; destruct E; contradiction|]. exact IH.
Qed.

Lemma first_of_app a b : a <> [] -> first_of (a ++ b) = first_of a.
Proof. destruct a; [contradiction|reflexivity]. Qed.

(* ------------------------------------------------------------------ *)
(* 3. well-formed run lists: non-empty runs whose concatenation increases *)
Definition wf_runs (runs : list (list nat)) : Prop := inc (concat runs) /\ Forall (fun r => r <> []) runs.

Lemma wf_level_runs lev idx : inc idx -> wf_runs (level_runs lev idx).
Proof.
  intros H. split; [unfold level_runs; rewrite lrf_concat; exact H|apply lrf_nonempty].
Qed.

Lemma wf_runs_app A B : wf_runs (A ++ B) -> wf_runs A /\ wf_runs B /\
  forall r r' x y, In r A -> In r' B -> In x r -> In y r' -> x < y.
Proof.
  intros [H1 H2]. rewrite concat_app in H1. apply inc_app in H1. destruct H1 as (I1 & I2 & I3).
  apply Forall_app in H2. destruct H2 as [F1 F2].
  split; [split; assumption|]. split; [split; assumption|].
  intros r r' x y Hr Hr' Hx Hy. apply I3; apply in_concat; eauto.
Qed.

Lemma wf_runs_inc runs r : wf_runs runs -> In r runs -> inc r /\ r <> [].
Proof.
  intros [H1 H2] Hr. rewrite Forall_forall in H2. split; [|apply H2, Hr].
  apply in_split in Hr. destruct Hr as (A & B & ->). rewrite concat_app in H1. cbn [concat] in H1.
  apply inc_app in H1. destruct H1 as (_ & H1 & _). apply inc_app in H1. apply H1.
Qed.

Lemma wf_runs_before A r Bs r' : wf_runs (A ++ r :: Bs) -> In r' (A ++ [r]) -> first_of r' <= last_of r.
Proof.
  intros W Hr'. pose proof (wf_runs_inc _ r W ltac:(apply in_or_app; right; left; reflexivity)) as [Ir Nr].
  apply in_app_or in Hr'. destruct Hr' as [Hr'|[<-|[]]].
  - destruct (wf_runs_app _ _ W) as (WA & _ & Hlt).
    pose proof (wf_runs_inc _ r' WA Hr') as [_ Nr'].
    specialize (Hlt r' r (first_of r') (last_of r) Hr' (or_introl eq_refl) (first_of_in _ Nr') (last_of_in _ Nr)). lia.
  - apply inc_first_le; [exact Ir|apply last_of_in, Nr].
Qed.

Lemma wf_runs_firsts_NoDup runs : wf_runs runs -> NoDup (map first_of runs).
Proof.
  induction runs as [|r rs IH]; intros W; [constructor|].
  cbn [map]. constructor.
  - intros Hin. apply in_map_iff in Hin. destruct Hin as (r' & E & Hr').
    change (r :: rs) with ([r] ++ rs) in W. destruct (wf_runs_app _ _ W) as (W1 & W2 & Hlt).
    pose proof (wf_runs_inc _ r W1 (or_introl eq_refl)) as [_ Nr].
    pose proof (wf_runs_inc _ r' W2 Hr') as [_ Nr'].
    specialize (Hlt r r' (first_of r) (first_of r') (or_introl eq_refl) Hr' (first_of_in _ Nr) (first_of_in _ Nr')). lia.
  - apply IH. change (r :: rs) with ([r] ++ rs) in W. apply (wf_runs_app _ _ W).
Qed.

(* run_starting_at *)
Lemma rsa_in runs : forall p r, run_starting_at runs p = Some r -> In r runs /\ first_of r = p.
Proof.
  induction runs as [|x rs IH]; intros p r H; [discriminate|]. cbn [run_starting_at] in H.
  destruct (first_of x =? p) eqn:E.
  - injection H as <-. apply Nat.eqb_eq in E. split; [left; reflexivity|exact E].
  - apply IH in H. destruct H. split; [right; assumption|assumption].
Qed.

Lemma rsa_none runs : forall p, run_starting_at runs p = None <-> (forall r, In r runs -> first_of r <> p).
Proof.
  induction runs as [|x rs IH]; intros p; cbn [run_starting_at].
  - split; [intros _ r []|reflexivity].
  - destruct (first_of x =? p) eqn:E.
    + apply Nat.eqb_eq in E. split; [discriminate|]. intros H. exfalso. apply (H x); [left; reflexivity|exact E].
    + apply Nat.eqb_neq in E. rewrite IH. split.
      * intros H r [<-|Hr]; [exact E|apply H, Hr].
      * intros H r Hr. apply H. right. exact Hr.
Qed.

Lemma rsa_some runs r : NoDup (map first_of runs) -> In r runs -> run_starting_at runs (first_of r) = Some r.
Proof.
  induction runs as [|x rs IH]; intros N Hr; [destruct Hr|].
  cbn [run_starting_at]. cbn [map] in N. inversion N as [|? ? N1 N2]; subst.
  destruct Hr as [->|Hr]; [rewrite Nat.eqb_refl; reflexivity|].
  destruct (first_of x =? first_of r) eqn:E; [|apply IH; assumption].
  apply Nat.eqb_eq in E. exfalso. apply N1. rewrite E. apply in_map, Hr.
Qed.

(* ------------------------------------------------------------------ *)
(* 4. continuation and chains *)
Lemma matching_pdi_gt cls i j : matching_pdi cls i = Some j -> i < j.
Proof. unfold matching_pdi. intros H. apply mp_ge in H. lia. Qed.

Lemma continuation_some cls0 runs r r' : continuation cls0 runs r = Some r' ->
  is_init (snth cls0 (last_of r) ON) = true /\
  exists j, matching_pdi cls0 (last_of r) = Some j /\ run_starting_at runs j = Some r'.
Proof.
  unfold continuation. destruct (is_init _); [|discriminate].
  destruct (matching_pdi cls0 (last_of r)) as [j|]; [|discriminate].
  intros H. split; [reflexivity|]. exists j. split; [reflexivity|exact H].
Qed.

Section Chains.
Variable cls0 : list bclass.
Variable runs : list (list nat).
Hypothesis W : wf_runs runs.

Lemma cont_later A r Bs r' : runs = A ++ r :: Bs -> continuation cls0 runs r = Some r' -> In r' Bs.
Proof.
  intros E H. apply continuation_some in H. destruct H as (_ & j & Hm & Hr).
  apply matching_pdi_gt in Hm. apply rsa_in in Hr. destruct Hr as [Hin Hf].
  rewrite E in Hin. apply in_app_or in Hin.
  assert (Hle : In r' (A ++ [r]) -> False).
  { intros Hb. rewrite E in W. pose proof (wf_runs_before A r Bs r' W Hb). lia. }
  destruct Hin as [Hin|[<-|Hin]]; [exfalso; apply Hle, in_or_app; left; exact Hin
                                  |exfalso; apply Hle, in_or_app; right; left; reflexivity|exact Hin].
Qed.

Lemma cont_in r r' : continuation cls0 runs r = Some r' -> In r' runs.
Proof.
  intros H. apply continuation_some in H. destruct H as (_ & j & _ & Hr). apply rsa_in in Hr. apply Hr.
Qed.

Lemma runs_ind (P : list nat -> Prop) :
  (forall r, In r runs -> (forall r', continuation cls0 runs r = Some r' -> P r') -> P r) ->
  forall r, In r runs -> P r.
Proof.
  intros Hstep.
  assert (G : forall n A r Bs, runs = A ++ r :: Bs -> length Bs < n -> P r).
  { induction n as [|n IH]; intros A r Bs E Hn; [lia|].
    apply Hstep; [rewrite E; apply in_or_app; right; left; reflexivity|].
    intros r' Hc. pose proof (cont_later A r Bs r' E Hc) as Hin.
    apply in_split in Hin. destruct Hin as (B1 & B2 & ->).
    apply (IH (A ++ r :: B1) r' B2).
    - rewrite E, <- app_assoc. reflexivity.
    - rewrite app_length in Hn. cbn [length] in Hn. lia. }
  intros r Hr. apply in_split in Hr. destruct Hr as (A & Bs & E). apply (G (S (length Bs)) A r Bs E). lia.
Qed.

Lemma chain_stable : forall n A r Bs, runs = A ++ r :: Bs -> length Bs < n ->
  forall fuel, n <= fuel -> chain fuel cls0 runs r = chain n cls0 runs r.
Proof.
  induction n as [|n IH]; intros A r Bs E Hn fuel Hf; [lia|].
  destruct fuel as [|f]; [lia|]. cbn [chain].
  destruct (continuation cls0 runs r) as [r'|] eqn:Hc; [|reflexivity].
  pose proof (cont_later A r Bs r' E Hc) as Hin.
  apply in_split in Hin. destruct Hin as (B1 & B2 & ->).
  f_equal. apply (IH (A ++ r :: B1) r' B2).
  - rewrite E, <- app_assoc. reflexivity.
  - rewrite app_length in Hn. cbn [length] in Hn. lia.
  - lia.
Qed.

Definition chainT (r : list nat) : list nat := chain (length runs) cls0 runs r.

Lemma chain_S f r :
  chain (S f) cls0 runs r = match continuation cls0 runs r with Some r' => r ++ chain f cls0 runs r' | None => r end.
Proof. reflexivity. Qed.

Lemma chainT_unfold r : In r runs ->
  chainT r = match continuation cls0 runs r with Some r' => r ++ chainT r' | None => r end.
Proof.
  intros Hr. apply in_split in Hr. destruct Hr as (A & Bs & E).
  unfold chainT. assert (HL : length runs = S (length A + length Bs)).
  { rewrite E, app_length. cbn [length]. lia. }
  rewrite HL. set (k := length A + length Bs) in *. rewrite (chain_S k r).
  destruct (continuation cls0 runs r) as [r'|] eqn:Hc; [|reflexivity].
  pose proof (cont_later A r Bs r' E Hc) as Hin.
  apply in_split in Hin. destruct Hin as (B1 & B2 & EB).
  assert (E' : runs = (A ++ r :: B1) ++ r' :: B2) by (rewrite E, EB, <- app_assoc; reflexivity).
  assert (Hk : S (length B2) <= k) by (unfold k; rewrite EB, app_length; cbn [length]; lia).
  rewrite (chain_stable (S (length B2)) _ r' B2 E' ltac:(lia) k Hk).
  rewrite (chain_stable (S (length B2)) _ r' B2 E' ltac:(lia) (S k) ltac:(lia)).
  reflexivity.
Qed.

Lemma chainT_first r : In r runs -> first_of (chainT r) = first_of r.
Proof.
  intros Hr. rewrite chainT_unfold by exact Hr. destruct (continuation cls0 runs r); [|reflexivity].
  apply first_of_app. apply (wf_runs_inc _ _ W Hr).
Qed.

Lemma chainT_nonempty r : In r runs -> chainT r <> [].
Proof.
  intros Hr. rewrite chainT_unfold by exact Hr. pose proof (wf_runs_inc _ _ W Hr) as [_ N].
  destruct (continuation cls0 runs r); [|exact N]. destruct r; [contradiction|discriminate].
Qed.

Lemma chainT_last r : In r runs -> exists r'', In r'' runs /\ last_of (chainT r) = last_of r''.
Proof.
  revert r. apply runs_ind. intros r Hr IH. rewrite chainT_unfold by exact Hr.
  destruct (continuation cls0 runs r) as [r'|] eqn:Hc.
  - destruct (IH r' eq_refl) as (r'' & H1 & H2). exists r''. split; [exact H1|].
    rewrite last_of_app; [exact H2|]. apply chainT_nonempty. apply cont_in with r. exact Hc.
  - exists r. split; [exact Hr|reflexivity].
Qed.

Lemma chainT_subset r : In r runs -> forall x, In x (chainT r) -> exists r'', In r'' runs /\ In x r''.
Proof.
  revert r. apply (runs_ind (fun r => forall x, In x (chainT r) -> exists r'', In r'' runs /\ In x r'')).
  intros r Hr IH x. rewrite chainT_unfold by exact Hr.
  destruct (continuation cls0 runs r) as [r'|] eqn:Hc.
  - intros Hx. apply in_app_or in Hx. destruct Hx as [Hx|Hx]; [exists r; split; assumption|].
    apply (IH r' eq_refl x Hx).
  - intros Hx. exists r. split; assumption.
Qed.
End Chains.

Lemma isolating_sequences_eq cls0 lev :
  isolating_sequences cls0 lev =
  let runs := level_runs lev (remaining cls0) in
  map (chainT cls0 runs)
      (filter (fun r => negb (existsb (fun t => match t with Some p => p =? first_of r | None => false end)
                                      (map (fun q => match continuation cls0 runs q with
                                                     | Some r' => Some (first_of r') | None => None end) runs)))
              runs).
Proof. reflexivity. Qed.
