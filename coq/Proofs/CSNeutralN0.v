(* Proofs/CSNeutralN0.v — N0: one step of n0_pairs against Spec.n0_one, with the invariant on the
   working classes of X9-removed positions that N0 maintains and N1/N2 needs. *)
From BidiVerif Require Import Base ConstsGen TablesGen ModelText ModelResolve ModelLine Spec Obs Judge StageRel
     Stmts Stmts2 Stmts3 Stmts4.
From BidiVerif.Proofs Require Import TotalNeutral CSNeutralBase CSNeutralBD16 CSNeutralOps.

Definition alphab (c : bclass) : bool := is_ni c || hasdir c.
Definition nibn (c : bclass) : bool := is_ni c || (c =c BN).

Lemma nibn_hasdir c : nibn c = true -> hasdir c = false.
Proof. destruct c; cbn; congruence. Qed.

Lemma alphab_not_BN c : alphab c = true -> (c =c BN) = false.
Proof. destruct c; cbn; congruence. Qed.

Definition odir (o : option bclass) : option bclass := match o with Some c => strong_dir c | None => None end.

Lemma asc_in_after l1 a l2 y : asc (l1 ++ a :: l2) -> In y (l1 ++ a :: l2) -> a < y -> In y l2.
Proof.
  intros Ha Hy Hlt. apply asc_split in Ha as (_ & _ & H1 & _).
  apply in_app_or in Hy as [Hy|[<-|Hy]]; [apply H1 in Hy; lia | lia | exact Hy].
Qed.

Lemma asc_in_before l1 a l2 y : asc (l1 ++ a :: l2) -> In y (l1 ++ a :: l2) -> y < a -> In y l1.
Proof.
  intros Ha Hy Hlt. apply asc_split in Ha as (_ & _ & _ & H2 & _).
  apply in_app_or in Hy as [Hy|[<-|Hy]]; [exact Hy | lia | apply H2 in Hy; lia].
Qed.

Lemma nsm_follow_keep onsm d d0 : forall fuel k t m,
  nth m t d0 = d -> nth m (nsm_follow onsm d k fuel t) d0 = d.
Proof.
  induction fuel as [|f IH]; intros k t m H; cbn [nsm_follow]; [exact H|].
  destruct (snth onsm k false); [|exact H]. apply IH.
  destruct (Nat.lt_ge_cases k (length t)) as [Hk|Hk].
  - rewrite setnth_nth by exact Hk. destruct (m =? k); [reflexivity | exact H].
  - rewrite setnth_nth_ge by exact Hk. exact H.
Qed.

Section N0.
Variable cps : list N.
Variable sq : irs.
Variable oc : list bclass.
Variable k : nat.
Hypothesis Hcps : length cps = k.
Hypothesis Hoc : length oc = k.
Hypothesis Hwf : seq_wf k sq.
Variable e : bclass.
Hypothesis He : e = L \/ e = R.
Let runs := irs_runs sq.
Let Sq := seq_idx sq.
Let li := live_idx oc sq.
Let sos := irs_sos sq.
Let onsm := map (fun i => nth i oc BN =c NSM) li.

Lemma HascS : asc Sq.
Proof. destruct Hwf as (_ & _ & H & _). apply (asc_runs _ _ H). Qed.

Lemma Hascli : asc li.
Proof. apply asc_filter. exact HascS. Qed.

Lemma HSk : forall j, In j Sq -> j < k.
Proof. destruct Hwf as (_ & H & _). apply S_bound. exact H. Qed.

Lemma Hsos : sos = L \/ sos = R.
Proof. destruct Hwf as (_ & _ & _ & H & _). exact H. Qed.

Lemma in_li x : In x li <-> In x Sq /\ live oc x = true.
Proof. apply filter_In. Qed.

(* ---------------- neighbours among the live positions ---------------- *)
Definition nolive (u v : nat) : Prop := forall y, In y Sq -> u < y < v -> live oc y = false.
Definition prevlive (p x : nat) : Prop := In p Sq /\ live oc p = true /\ p < x /\ nolive p x.
Definition nextlive (j q : nat) : Prop := In q Sq /\ live oc q = true /\ j < q /\ nolive j q.

(* X9-removed positions: neutral or BN, or a copy of a neighbouring live position *)
Definition okP (pc : list bclass) : Prop :=
  forall j, In j Sq -> live oc j = false ->
    nibn (nth j pc BN) = true \/
    (exists q, nextlive j q /\ nth j pc BN = nth q pc BN) \/
    (exists p, prevlive p j /\ nth j pc BN = nth p pc BN).

(* a bracket of a pair that is still to be processed *)
Definition brk_ok (pc : list bclass) (x : nat) : Prop :=
  nth x pc BN = ON \/
  (nth x oc BN = NSM /\ exists p, prevlive p x /\ nth x pc BN = nth p pc BN).

Definition Inv (pc : list bclass) (mps : list bracket_pair) : Prop :=
  length pc = k /\ (forall x, In x li -> alphab (nth x pc BN) = true) /\ okP pc /\
  forall x, In x (flat_map ends mps) -> brk_ok pc x.

Lemma prevlive_exists c j : In c Sq -> live oc c = true -> In j Sq -> c < j ->
  exists p, prevlive p j /\ c <= p.
Proof.
  intros Hc Hlc Hj Hcj. pose proof HascS as Ha.
  destruct (in_split _ _ Hj) as (pre & post & E). rewrite E in Ha, Hc.
  assert (Hcp : In c pre) by (eapply asc_in_before; eauto).
  destruct (asc_split _ _ _ Ha) as (Hap & _ & Hpl & _).
  assert (Hne : filter (live oc) pre <> []).
  { intros En. assert (In c (filter (live oc) pre)) by (apply filter_In; auto). rewrite En in H. exact H. }
  destruct (exists_last Hne) as (L1 & p & EL).
  assert (Hp : In p (filter (live oc) pre)) by (rewrite EL; apply in_or_app; right; left; reflexivity).
  apply filter_In in Hp as [Hpp Hlp].
  pose proof (asc_filter (live oc) _ Hap) as HaL. rewrite EL in HaL.
  apply asc_app in HaL as (_ & _ & HL).
  exists p. split.
  - split; [rewrite E; apply in_or_app; left; exact Hpp|]. split; [exact Hlp|]. split; [apply Hpl; exact Hpp|].
    intros y Hy Hr. destruct (live oc y) eqn:Ely; [exfalso | reflexivity].
    rewrite E in Hy. assert (Hyp : In y pre) by (eapply asc_in_before; eauto; lia).
    assert (HyL : In y (L1 ++ [p])) by (rewrite <- EL; apply filter_In; auto).
    apply in_app_or in HyL as [HyL|[<-|[]]]; [|lia].
    specialize (HL y p HyL (or_introl eq_refl)). lia.
  - assert (HcL : In c (L1 ++ [p])) by (rewrite <- EL; apply filter_In; auto).
    apply in_app_or in HcL as [HcL|[<-|[]]]; [|lia].
    specialize (HL c p HcL (or_introl eq_refl)). lia.
Qed.

Lemma nextlive_unique j q q' : nextlive j q -> nextlive j q' -> q = q'.
Proof.
  intros (H1 & H2 & H3 & H4) (H1' & H2' & H3' & H4').
  destruct (Nat.lt_trichotomy q q') as [H|[H|H]]; [|exact H|].
  - specialize (H4' q H1 ltac:(lia)). congruence.
  - specialize (H4 q' H1' ltac:(lia)). congruence.
Qed.

Lemma prevlive_unique x p p' : prevlive p x -> prevlive p' x -> p = p'.
Proof.
  intros (H1 & H2 & H3 & H4) (H1' & H2' & H3' & H4').
  destruct (Nat.lt_trichotomy p p') as [H|[H|H]]; [|exact H|].
  - specialize (H4 p' H1' ltac:(lia)). congruence.
  - specialize (H4' p H1 ltac:(lia)). congruence.
Qed.

(* the previous live neighbour of q is the previous live neighbour of a removed position before q *)
Lemma prevlive_shift p q j : prevlive p q -> nextlive j q -> live oc j = false -> prevlive p j.
Proof.
  intros (H1 & H2 & H3 & H4) (H1' & H2' & H3' & H4') Hj.
  assert (Hpj : p < j).
  { destruct (Nat.lt_trichotomy p j) as [H|[H|H]]; [exact H | subst; congruence |].
    specialize (H4' p H1 ltac:(lia)). congruence. }
  split; [exact H1|]. split; [exact H2|]. split; [exact Hpj|].
  intros y Hy Hr. apply H4; [exact Hy | lia].
Qed.

(* the live positions before x end with its previous live neighbour *)
Lemma prevlive_last pre x post p : Sq = pre ++ x :: post -> prevlive p x ->
  exists pre1 gap, pre = pre1 ++ p :: gap /\ forall y, In y gap -> live oc y = false.
Proof.
  intros E (H1 & H2 & H3 & H4). pose proof HascS as Ha. rewrite E in Ha, H1.
  assert (Hp : In p pre) by (eapply asc_in_before; eauto).
  destruct (in_split _ _ Hp) as (pre1 & gap & ->). exists pre1, gap. split; [reflexivity|].
  intros y Hy. apply H4.
  - rewrite E. apply in_or_app. left. apply in_or_app. right. right. exact Hy.
  - destruct (asc_split _ _ _ Ha) as (Hap & _ & Hpl & _).
    destruct (asc_split _ _ _ Hap) as (_ & _ & _ & Hg & _). split; [apply Hg; exact Hy|].
    apply Hpl. apply in_or_app. right. right. exact Hy.
Qed.

(* ---------------- the backward search for the preceding strong type ---------------- *)
Lemma find_back pc : okP pc -> forall pre gap x post,
  Sq = pre ++ gap ++ x :: post -> (forall y, In y gap -> live oc y = false) -> live oc x = true ->
  (hasdir (nth x pc BN) = false \/ exists p, prevlive p x /\ nth x pc BN = nth p pc BN) ->
  odir (find hasdir (at_ BN pc (rev pre))) = odir (find hasdir (at_ BN pc (rev (filter (live oc) pre)))).
Proof.
  intros HP. induction pre as [|j pre IH] using rev_ind; intros gap x post E Hgap Hlx Hcond; [reflexivity|].
  rewrite rev_app_distr, filter_app. cbn [rev app filter].
  pose proof HascS as Ha. rewrite E in Ha. rewrite <- app_assoc in E, Ha. cbn [app] in E, Ha.
  assert (HjS : In j Sq) by (rewrite E; apply in_or_app; right; left; reflexivity).
  destruct (live oc j) eqn:Elj.
  - rewrite rev_app_distr. cbn [rev app at_ map find]. fold (at_ BN pc (rev pre)).
    fold (at_ BN pc (rev (filter (live oc) pre))).
    destruct (hasdir (nth j pc BN)) eqn:Ehd; [reflexivity|].
    apply (IH [] j (gap ++ x :: post)); [exact E | intros y [] | exact Elj | left; exact Ehd].
  - rewrite app_nil_r. cbn [at_ map find]. fold (at_ BN pc (rev pre)).
    destruct (hasdir (nth j pc BN)) eqn:Ehd.
    + (* a removed position holding a strong class: it is a copy of the previous live position *)
      assert (Hnx : nextlive j x).
      { assert (HxS : In x Sq) by (rewrite E; apply in_or_app; right; right; apply in_or_app; right; left; reflexivity).
        destruct (asc_split _ _ _ Ha) as (_ & Ha2 & _ & Hjl & _).
        split; [exact HxS|]. split; [exact Hlx|].
        split; [apply Hjl; apply in_or_app; right; left; reflexivity|].
        intros y Hy Hr. rewrite E in Hy.
        assert (Hy2 : In y (gap ++ x :: post)) by (eapply asc_in_after; eauto; lia).
        apply Hgap. eapply asc_in_before; eauto. lia. }
      assert (Hprev : exists p, prevlive p j /\ nth j pc BN = nth p pc BN).
      { destruct (HP j HjS Elj) as [Hn|[(q & Hq & Eq)|Hp]]; [|  | exact Hp].
        - apply nibn_hasdir in Hn. congruence.
        - rewrite (nextlive_unique _ _ _ Hq Hnx) in Eq.
          destruct Hcond as [Hc|(p & Hp & Ep)]; [rewrite <- Eq in Hc; congruence|].
          exists p. split; [eapply prevlive_shift; eauto | congruence]. }
      destruct Hprev as (p & Hp & Ep).
      destruct (prevlive_last _ _ _ _ E Hp) as (pre1 & g1 & -> & Hg1).
      rewrite filter_app. cbn [filter]. destruct Hp as (_ & Hlp & _). rewrite Hlp.
      rewrite (filter_none _ g1) by exact Hg1. rewrite rev_app_distr. cbn [rev app at_ map find].
      rewrite <- Ep, Ehd. reflexivity.
    + apply (IH (j :: gap) x post); [exact E | | exact Hlx | exact Hcond].
      intros y [<-|Hy]; [exact Elj | apply Hgap; exact Hy].
Qed.

Lemma ctx_eq (o1 o2 : option bclass) l1 l2 : o1 = find hasdir l1 -> o2 = find hasdir l2 -> odir o1 = odir o2 ->
  match opt_or o1 sos with EN | AN => R | _ => opt_or o1 sos end =
  match o2 with Some c => match strong_dir c with Some d => d | None => sos end | None => sos end.
Proof.
  intros E1 E2 Ed. symmetry in E1, E2.
  destruct o1 as [c1|], o2 as [c2|]; cbn [opt_or odir] in *.
  - apply find_some in E1 as [_ E1]. rewrite <- Ed. destruct c1; cbn in E1 |- *; congruence.
  - apply find_some in E1 as [_ E1]. destruct c1; cbn in E1, Ed; congruence.
  - apply find_some in E2 as [_ E2]. destruct c2; cbn in E2, Ed; congruence.
  - destruct Hsos as [-> | ->]; reflexivity.
Qed.


(* ---------------- Spec.n0_one, with the decision isolated ---------------- *)
Definition n0_new (t : list bclass) (ia ib : nat) : option bclass :=
  let inside := firstn (ib - ia - 1) (skipn (S ia) t) in
  if existsb (sfe e) inside then Some e
  else if existsb (sfo e) inside then
    Some (match find hasdir (rev (firstn ia t)) with
          | Some c => match strong_dir c with Some d => d | None => sos end
          | None => sos
          end)
  else None.

Lemma n0_one_eq t ia ib : n0_one sos e onsm t (ia, ib) =
  match n0_new t ia ib with
  | None => t
  | Some d => let t2 := setnth (setnth t ia d) ib d in
              nsm_follow onsm d (S ib) (length t2) (nsm_follow onsm d (S ia) (length t2) t2)
  end.
Proof. reflexivity. Qed.

Lemma n0_new_LR t ia ib d : n0_new t ia ib = Some d -> d = L \/ d = R.
Proof.
  unfold n0_new. cbv zeta. destruct (existsb (sfe e) _); [intros [= <-]; exact He|].
  destruct (existsb (sfo e) _); [|discriminate]. intros [= <-].
  destruct (find hasdir _) as [c|]; [|exact Hsos].
  destruct c; cbn; auto; exact Hsos.
Qed.

Lemma find_ext {A} (f g : A -> bool) l : (forall x, f x = g x) -> find f l = find g l.
Proof. intros H. induction l as [|x l IH]; [reflexivity|]. cbn [find]. rewrite H, IH. reflexivity. Qed.

(* ---------------- one pair: the sequence cut at its two brackets ---------------- *)
Section Pair.
Variables (pre mid post : list nat) (a b : nat).
Hypothesis HSq : Sq = pre ++ a :: mid ++ b :: post.
Hypothesis Hla : live oc a = true.
Hypothesis Hlb : live oc b = true.

Let Wa := takewhile (walkable oc) (mid ++ b :: post).
Let Wb := takewhile (walkable oc) post.
Definition Bs (pc : list bclass) := takewhile (fun y => nth y pc BN =c BN) (rev pre).
Definition Mset (pc : list bclass) := [a; b] ++ Wa ++ Wb ++ Bs pc.

Lemma HSq2 : Sq = (pre ++ a :: mid) ++ b :: post.
Proof. rewrite HSq, <- app_assoc. reflexivity. Qed.

Lemma Haa : asc (pre ++ a :: mid ++ b :: post).
Proof. rewrite <- HSq. exact HascS. Qed.

Lemma Hab : a < b.
Proof.
  destruct (asc_split _ _ _ Haa) as (_ & _ & _ & H & _). apply H. apply in_or_app. right. left. reflexivity.
Qed.

Lemma HaS : In a Sq.
Proof. rewrite HSq. apply in_or_app. right. left. reflexivity. Qed.

Lemma HbS : In b Sq.
Proof. rewrite HSq2. apply in_or_app. right. left. reflexivity. Qed.

Lemma in_posta z : In z (mid ++ b :: post) <-> In z Sq /\ a < z.
Proof.
  split.
  - intros H. split; [rewrite HSq; apply in_or_app; right; right; exact H|].
    destruct (asc_split _ _ _ Haa) as (_ & _ & _ & H2 & _). apply H2. exact H.
  - intros [H1 H2]. rewrite HSq in H1. eapply asc_in_after; eauto. exact Haa.
Qed.

Lemma in_post z : In z post <-> In z Sq /\ b < z.
Proof.
  pose proof Haa as Ha. rewrite app_comm_cons, app_assoc in Ha.
  split.
  - intros H. split; [rewrite HSq2; apply in_or_app; right; right; exact H|].
    destruct (asc_split _ _ _ Ha) as (_ & _ & _ & H2 & _). apply H2. exact H.
  - intros [H1 H2]. rewrite HSq2 in H1. eapply asc_in_after; eauto.
Qed.

Lemma in_pre z : In z pre <-> In z Sq /\ z < a.
Proof.
  split.
  - intros H. split; [rewrite HSq; apply in_or_app; left; exact H|].
    destruct (asc_split _ _ _ Haa) as (_ & _ & H2 & _). apply H2. exact H.
  - intros [H1 H2]. rewrite HSq in H1. eapply asc_in_before; eauto. exact Haa.
Qed.

Lemma asc_pre : asc pre.
Proof. destruct (asc_split _ _ _ Haa) as (H & _). exact H. Qed.

Lemma asc_posta : asc (mid ++ b :: post).
Proof. destruct (asc_split _ _ _ Haa) as (_ & H & _). exact H. Qed.

Lemma asc_post : asc post.
Proof. destruct (asc_split _ _ _ asc_posta) as (_ & H & _). exact H. Qed.

Lemma in_Wa j : In j Wa <-> In j Sq /\ a < j /\ forall z, In z Sq -> a < z <= j -> walkable oc z = true.
Proof.
  unfold Wa. rewrite (takewhile_asc _ _ _ asc_posta), in_posta. split.
  - intros [[H1 H2] H3]. split; [exact H1|]. split; [exact H2|]. intros z Hz Hr. apply H3; [apply in_posta; split; [exact Hz | lia] | lia].
  - intros (H1 & H2 & H3). split; [auto|]. intros z Hz Hle. apply in_posta in Hz as [Hz1 Hz2]. apply H3; [exact Hz1 | lia].
Qed.

Lemma in_Wb j : In j Wb <-> In j Sq /\ b < j /\ forall z, In z Sq -> b < z <= j -> walkable oc z = true.
Proof.
  unfold Wb. rewrite (takewhile_asc _ _ _ asc_post), in_post. split.
  - intros [[H1 H2] H3]. split; [exact H1|]. split; [exact H2|]. intros z Hz Hr. apply H3; [apply in_post; split; [exact Hz | lia] | lia].
  - intros (H1 & H2 & H3). split; [auto|]. intros z Hz Hle. apply in_post in Hz as [Hz1 Hz2]. apply H3; [exact Hz1 | lia].
Qed.

Lemma in_Bs pc j : In j (Bs pc) <-> In j Sq /\ j < a /\ forall z, In z Sq -> j <= z < a -> nth z pc BN = BN.
Proof.
  unfold Bs. rewrite (takewhile_desc _ _ _ asc_pre), in_pre. split.
  - intros [[H1 H2] H3]. split; [exact H1|]. split; [exact H2|]. intros z Hz Hr. apply ceq_eq.
    apply H3; [apply in_pre; split; [exact Hz | lia] | lia].
  - intros (H1 & H2 & H3). split; [auto|]. intros z Hz Hle. apply in_pre in Hz as [Hz1 Hz2]. apply ceq_eq.
    apply H3; [exact Hz1 | lia].
Qed.

Lemma walkable_removed z : live oc z = false -> walkable oc z = true.
Proof.
  unfold live, not_removed_by_x9, walkable. intros H. destruct (removed_by_x9 (nth z oc BN)); [|discriminate].
  apply orb_true_r.
Qed.

Lemma walkable_live z : live oc z = true -> walkable oc z = (nth z oc BN =c NSM).
Proof.
  unfold live, not_removed_by_x9, walkable. intros H. destruct (removed_by_x9 (nth z oc BN)); [discriminate|].
  apply orb_false_r.
Qed.


Lemma Lli : li = filter (live oc) pre ++ a :: filter (live oc) mid ++ b :: filter (live oc) post.
Proof.
  unfold li, live_idx. fold Sq. rewrite HSq. rewrite filter_app. cbn [filter]. rewrite Hla.
  rewrite filter_app. cbn [filter]. rewrite Hlb. reflexivity.
Qed.

Lemma lidx_a : lidx li a = length (filter (live oc) pre).
Proof. pose proof Hascli as H. rewrite Lli in *. apply lidx_split. exact H. Qed.

Lemma lidx_b : lidx li b = length (filter (live oc) pre) + 1 + length (filter (live oc) mid).
Proof.
  pose proof Hascli as H. rewrite Lli in *. rewrite app_comm_cons, app_assoc in *.
  rewrite (lidx_split _ _ _ H), app_length. cbn [length]. lia.
Qed.

Lemma inside_eq pc : firstn (lidx li b - lidx li a - 1) (skipn (S (lidx li a)) (at_ BN pc li))
                     = at_ BN pc (filter (live oc) mid).
Proof.
  rewrite lidx_a, lidx_b, Lli. rewrite at_app. cbn [at_ map].
  change (nth a pc BN :: map (fun i => nth i pc BN) (filter (live oc) mid ++ b :: filter (live oc) post))
    with ([nth a pc BN] ++ at_ BN pc (filter (live oc) mid ++ b :: filter (live oc) post)).
  rewrite app_assoc, skipn_app_len by (rewrite app_length, at_length; cbn [length]; lia).
  rewrite at_app. apply firstn_app_len. rewrite at_length. lia.
Qed.

Lemma before_eq pc : rev (firstn (lidx li a) (at_ BN pc li)) = at_ BN pc (rev (filter (live oc) pre)).
Proof.
  rewrite lidx_a, Lli, at_app. rewrite firstn_app_len by (rewrite at_length; reflexivity).
  unfold at_. rewrite map_rev. reflexivity.
Qed.

Lemma first_char_len_inv site (sub : list N) n : first_char_len U32 site sub = Ok n -> n = 1.
Proof. unfold first_char_len. cbn [t_chars]. destruct sub; [discriminate|]. cbn [char_len]. congruence. Qed.

Lemma n0_pair_char pc mp pc' :
  bp_start mp = a -> bp_end mp = b ->
  pos_ok runs a (bp_start_run mp) -> pos_ok runs b (bp_end_run mp) ->
  okP pc -> brk_ok pc a ->
  n0_pair U32 false iter_backwards_from cps sq oc e (if e =c L then R else L) pc mp = Ok pc' ->
  match n0_new (at_ BN pc li) (lidx li a) (lidx li b) with
  | None => pc' = pc
  | Some d => length pc' = length pc /\
              forall j, nth j pc' BN = if mem j (Mset pc) then d else nth j pc BN
  end.
Proof.
  intros Ea Eb Hpa Hpb HP Hba H.
  destruct (iter_split runs a _ pre (mid ++ b :: post) Hpa HascS HSq) as [Efa Eba].
  destruct (iter_split runs b _ (pre ++ a :: mid) post Hpb HascS HSq2) as [Efb _].
  unfold runs in Efa, Eba, Efb.
  unfold n0_pair in H. cbv zeta in H. rewrite Ea, Eb in H. cbn [t_subrange t_len] in H.
  apply bind_ok in H as (sub & _ & H).
  apply bind_ok in H as (scl & Escl & H). apply first_char_len_inv in Escl. subst scl.
  rewrite Efa in H. cbn [bind] in H.
  apply bind_ok in H as ([fe fn] & Esc & H).
  assert (Hmid : forall y, In y mid -> y < b).
  { intros y Hy. destruct (asc_split _ _ _ asc_posta) as (_ & _ & Hm & _). apply Hm. exact Hy. }
  destruct (n0_scan_inv oc pc e b (b :: post) He (le_n b) mid false fe fn Esc Hmid) as [Hfe Hfn].
  cbn [orb] in Hfn.
  apply bind_ok in H as (cts & Ects & H).
  assert (Hcts : cts = n0_new (at_ BN pc li) (lidx li a) (lidx li b)).
  { unfold n0_new. cbv zeta. rewrite inside_eq, before_eq, <- Hfe.
    destruct fe; [congruence|]. rewrite <- (Hfn eq_refl).
    destruct fn; [|congruence].
    rewrite Eba in Ects. cbn [bind] in Ects.
    apply bind_ok in Ects as (ps & Eps & Ects). apply (find_value_by_inv _ _ _ BN) in Eps.
    rewrite (find_ext _ hasdir) in Eps by (intros c; destruct c; reflexivity).
    injection Ects as <-. f_equal.
    eapply ctx_eq; [exact Eps | reflexivity|]. rewrite Eps.
    apply (find_back pc HP pre [] a (mid ++ b :: post)); [exact HSq | intros y [] | exact Hla|].
    destruct Hba as [Hon|[_ Hp]]; [left; rewrite Hon; reflexivity | right; exact Hp]. }
  rewrite <- Hcts. destruct cts as [d|]; [|congruence].
  apply bind_ok in H as (sub2 & _ & H).
  apply bind_ok in H as (ecl & Eecl & H). apply first_char_len_inv in Eecl. subst ecl.
  apply bind_ok in H as (pc1 & E1 & H). apply set_range1_inv in E1 as (_ & L1 & N1).
  apply bind_ok in H as (pc2 & E2 & H). apply set_range1_inv in E2 as (_ & L2 & N2).
  rewrite Eba in H. cbn [bind] in H.
  apply bind_ok in H as (pc3 & E3 & H).
  apply set_while_bn_inv in E3 as [L3 N3]; [|apply NoDup_rev; apply asc_NoDup; exact asc_pre].

  apply bind_ok in H as (pc4 & E4 & H). apply n0_nsm_inv in E4 as [L4 N4].
  rewrite Efb in H. cbn [bind] in H. apply n0_nsm_inv in H as [L5 N5].
  split; [congruence|]. intros j.
  rewrite N5, N4, N3, N2, N1.
  rewrite (takewhile_ext_in (fun y => nth y pc2 BN =c BN) (fun y => nth y pc BN =c BN)).
  2:{ intros y Hy. apply in_rev in Hy. apply in_pre in Hy as [_ Hy]. pose proof Hab.
      rewrite N2, N1.
      assert (E1' : (y =? b) = false) by (apply Nat.eqb_neq; lia).
      assert (E2' : (y =? a) = false) by (apply Nat.eqb_neq; lia).
      rewrite E1', E2'. reflexivity. }
  unfold Mset. rewrite !mem_app. cbn [mem existsb]. fold (mem j (Bs pc)). unfold Bs, Wa, Wb.
  destruct (mem j (takewhile (walkable oc) post)), (mem j (takewhile (walkable oc) (mid ++ b :: post))),
    (mem j (takewhile (fun y => nth y pc BN =c BN) (rev pre))), (j =? a), (j =? b); reflexivity.
Qed.


(* ---------------- the set of positions N0 rewrites for this pair ---------------- *)
Definition walked (c j : nat) : Prop :=
  In j Sq /\ c <= j /\ forall z, In z Sq -> c < z <= j -> walkable oc z = true.

Lemma walked_a j : walked a j <-> j = a \/ In j Wa.
Proof.
  rewrite in_Wa. unfold walked. split.
  - intros (H1 & H2 & H3). destruct (Nat.eq_dec j a) as [->|Hne]; [left; reflexivity|].
    right. split; [exact H1|]. split; [lia | exact H3].
  - intros [->|(H1 & H2 & H3)].
    + split; [exact HaS|]. split; [lia|]. intros z _ Hz. lia.
    + split; [exact H1|]. split; [lia | exact H3].
Qed.

Lemma walked_b j : walked b j <-> j = b \/ In j Wb.
Proof.
  rewrite in_Wb. unfold walked. split.
  - intros (H1 & H2 & H3). destruct (Nat.eq_dec j b) as [->|Hne]; [left; reflexivity|].
    right. split; [exact H1|]. split; [lia | exact H3].
  - intros [->|(H1 & H2 & H3)].
    + split; [exact HbS|]. split; [lia|]. intros z _ Hz. lia.
    + split; [exact H1|]. split; [lia | exact H3].
Qed.

Lemma in_M pc j : mem j (Mset pc) = true <-> walked a j \/ walked b j \/ In j (Bs pc).
Proof.
  rewrite mem_In, walked_a, walked_b. unfold Mset. rewrite !in_app_iff. cbn [In]. split.
  - intros [[E|[E|[]]]|[H|[H|H]]]; subst; auto 6.
  - intros [[E|H]|[[E|H]|H]]; subst; auto 6.
Qed.

Lemma not_in_M pc j : mem j (Mset pc) = false -> ~ walked a j /\ ~ walked b j /\ ~ In j (Bs pc).
Proof.
  intros H. assert (H' : ~ (walked a j \/ walked b j \/ In j (Bs pc))) by (rewrite <- in_M; congruence). tauto.
Qed.

Lemma walked_down c x z : walked c x -> In z Sq -> c <= z <= x -> walked c z.
Proof.
  intros (H1 & H2 & H3) Hz Hr. split; [exact Hz|]. split; [lia|]. intros y Hy Hyr. apply H3; [exact Hy | lia].
Qed.

Lemma walked_up c x y : walked c x -> In y Sq -> x < y ->
  (forall z, In z Sq -> x < z <= y -> walkable oc z = true) -> walked c y.
Proof.
  intros (H1 & H2 & H3) Hy Hxy Hw. split; [exact Hy|]. split; [lia|]. intros z Hz Hr.
  destruct (Nat.le_gt_cases z x); [apply H3; [exact Hz | lia] | apply Hw; [exact Hz | lia]].
Qed.

Section Step.
Variables (pc pc' : list bclass) (d : bclass) (rest : list bracket_pair).
Hypothesis Hd : d = L \/ d = R.
Hypothesis Hlen : length pc' = length pc.
Hypothesis Hpt : forall j, nth j pc' BN = if mem j (Mset pc) then d else nth j pc BN.
Hypothesis Hk : length pc = k.
Hypothesis Halpha : forall x, In x li -> alphab (nth x pc BN) = true.
Hypothesis HP : okP pc.
Hypothesis Hba : brk_ok pc a.
Hypothesis Hbb : brk_ok pc b.
Hypothesis Hbrest : forall x, In x (flat_map ends rest) -> brk_ok pc x.
Hypothesis Hrest : forall x, In x (flat_map ends rest) -> In x li /\ x <> a /\ x <> b.

Lemma live_not_Bs x : In x li -> ~ In x (Bs pc).
Proof.
  intros Hx HB. apply in_Bs in HB as (H1 & H2 & H3). specialize (H3 x H1 ltac:(lia)).
  apply Halpha in Hx. apply alphab_not_BN in Hx. rewrite H3 in Hx. discriminate.
Qed.

Lemma set_in_M j : mem j (Mset pc) = true -> nth j pc' BN = d.
Proof. intros H. rewrite Hpt, H. reflexivity. Qed.

Lemma keep_not_M j : mem j (Mset pc) = false -> nth j pc' BN = nth j pc BN.
Proof. intros H. rewrite Hpt, H. reflexivity. Qed.

Lemma walked_M c j : c = a \/ c = b -> walked c j -> mem j (Mset pc) = true.
Proof. intros [-> | ->] H; apply in_M; auto. Qed.

(* a live position the walk from c reaches has original class NSM, and its previous live
   neighbour was rewritten as well *)
Lemma walked_live c x : c = a \/ c = b -> walked c x -> live oc x = true -> x <> c ->
  nth x oc BN = NSM /\ exists p, prevlive p x /\ nth x pc' BN = nth p pc' BN.
Proof.
  intros Hc Hw Hlx Hne. pose proof Hw as (H1 & H2 & H3).
  assert (HcS : In c Sq /\ live oc c = true) by (destruct Hc as [-> | ->]; split; auto using HaS, HbS).
  destruct HcS as [HcS Hlc]. split.
  - specialize (H3 x H1 ltac:(lia)). rewrite (walkable_live _ Hlx) in H3. apply ceq_eq. exact H3.
  - destruct (prevlive_exists c x HcS Hlc H1 ltac:(lia)) as (p & Hp & Hcp). exists p. split; [exact Hp|].
    destruct Hp as (Hp1 & _ & Hp3 & _).
    rewrite (set_in_M x) by (eapply walked_M; eauto).
    rewrite (set_in_M p); [reflexivity|]. eapply walked_M; [exact Hc|]. eapply walked_down; eauto. lia.
Qed.

Lemma okP_step : okP pc'.
Proof.
  intros j HjS Hlj. destruct (mem j (Mset pc)) eqn:Em.
  - apply in_M in Em as [Hw|[Hw|HB]].
    + (* reached by the walk after the opening bracket *)
      assert (Hne : j <> a) by (intros ->; congruence).
      destruct Hw as (H1 & H2 & H3).
      destruct (prevlive_exists a j HaS Hla HjS ltac:(lia)) as (p & Hp & Hcp). right. right. exists p.
      split; [exact Hp|]. destruct Hp as (Hp1 & _ & Hp3 & _).
      assert (Hwj : walked a j) by (split; [exact H1|]; split; [exact H2 | exact H3]).
      rewrite (set_in_M j) by (apply in_M; auto).
      rewrite (set_in_M p); [reflexivity|]. apply in_M. left. eapply walked_down; eauto. lia.
    + assert (Hne : j <> b) by (intros ->; congruence).
      destruct Hw as (H1 & H2 & H3).
      destruct (prevlive_exists b j HbS Hlb HjS ltac:(lia)) as (p & Hp & Hcp). right. right. exists p.
      split; [exact Hp|]. destruct Hp as (Hp1 & _ & Hp3 & _).
      assert (Hwj : walked b j) by (split; [exact H1|]; split; [exact H2 | exact H3]).
      rewrite (set_in_M j) by (apply in_M; auto).
      rewrite (set_in_M p); [reflexivity|]. apply in_M. right. left. eapply walked_down; eauto. lia.
    + (* a BN just before the opening bracket *)
      right. left. exists a. pose proof HB as HB'. apply in_Bs in HB as (H1 & H2 & H3). split.
      * split; [exact HaS|]. split; [exact Hla|]. split; [exact H2|].
        intros y Hy Hr. destruct (live oc y) eqn:Ely; [exfalso | reflexivity].
        assert (Hyl : In y li) by (apply in_li; auto).
        apply Halpha in Hyl. apply alphab_not_BN in Hyl. rewrite (H3 y Hy ltac:(lia)) in Hyl. discriminate.
      * rewrite (set_in_M j) by (apply in_M; auto).
        rewrite (set_in_M a); [reflexivity|]. apply in_M. left. apply walked_a. left. reflexivity.
  - rewrite (keep_not_M j Em). destruct (not_in_M _ _ Em) as (Hna & Hnb & HnB).
    (* a copy of the previous live position stays one *)
    assert (HPcopy : forall p, prevlive p j -> nth j pc BN = nth p pc BN ->
              nibn (nth j pc BN) = true \/
              (exists q, nextlive j q /\ nth j pc BN = nth q pc' BN) \/
              (exists p, prevlive p j /\ nth j pc BN = nth p pc' BN)).
    { intros p Hp Ep. right. right. exists p. split; [exact Hp|].
      destruct (mem p (Mset pc)) eqn:Emp; [|rewrite (keep_not_M p Emp); exact Ep].
      exfalso. destruct Hp as (Hp1 & Hp2 & Hp3 & Hp4).
      assert (Hup : forall z, In z Sq -> p < z <= j -> walkable oc z = true).
      { intros z Hz Hr. apply walkable_removed. destruct (Nat.eq_dec z j) as [->|Hzj]; [exact Hlj|].
        apply Hp4; [exact Hz | lia]. }
      apply in_M in Emp as [Hw|[Hw|HB]].
      - apply Hna. eapply walked_up; eauto.
      - apply Hnb. eapply walked_up; eauto.
      - eapply live_not_Bs; [|exact HB]. apply in_li; auto. }
    destruct (HP j HjS Hlj) as [Hn|[(q & Hq & Eq)|(p & Hp & Ep)]]; [left; exact Hn | | apply HPcopy with p; assumption].
    destruct (mem q (Mset pc)) eqn:Emq.
    2:{ right. left. exists q. split; [exact Hq|]. rewrite (keep_not_M q Emq). exact Eq. }
    pose proof Hq as (Hq1 & Hq2 & Hq3 & Hq4).
    assert (Hcase : forall c, c = a \/ c = b -> brk_ok pc c -> In c Sq -> live oc c = true -> walked c q -> ~ walked c j ->
              nibn (nth j pc BN) = true \/
              (exists q, nextlive j q /\ nth j pc BN = nth q pc' BN) \/
              (exists p, prevlive p j /\ nth j pc BN = nth p pc' BN)).
    { intros c Hc Hbc HcS Hlc Hw Hnw. destruct (Nat.eq_dec q c) as [->|Hqc].
      - destruct Hbc as [Hon|(_ & p & Hp & Ep)].
        + left. rewrite Eq, Hon. reflexivity.
        + apply HPcopy with p; [eapply prevlive_shift; eauto | congruence].
      - exfalso. apply Hnw. destruct Hw as (_ & Hw2 & Hw3).
        assert (Hcj : c < j).
        { destruct (Nat.lt_trichotomy c j) as [H|[H|H]]; [exact H | subst; congruence |].
          specialize (Hq4 c HcS ltac:(lia)). congruence. }
        split; [exact HjS|]. split; [lia|]. intros z Hz Hr. apply Hw3; [exact Hz | lia]. }
    apply in_M in Emq as [Hw|[Hw|HB]].
    + apply (Hcase a); auto using HaS.
    + apply (Hcase b); auto using HbS.
    + exfalso. eapply live_not_Bs; [|exact HB]. apply in_li; auto.
Qed.

Lemma brk_step x : In x (flat_map ends rest) -> brk_ok pc' x.
Proof.
  intros Hx. destruct (Hrest x Hx) as (Hxl & Hxa & Hxb). pose proof Hxl as Hxl'. apply in_li in Hxl' as [HxS Hlx].
  destruct (mem x (Mset pc)) eqn:Em.
  - right. apply in_M in Em as [Hw|[Hw|HB]].
    + apply (walked_live a); auto.
    + apply (walked_live b); auto.
    + exfalso. eapply live_not_Bs; eauto.
  - unfold brk_ok. rewrite (keep_not_M x Em). destruct (not_in_M _ _ Em) as (Hna & Hnb & HnB).
    destruct (Hbrest x Hx) as [Hon|(Hnsm & p & Hp & Ep)]; [left; exact Hon|].
    right. split; [exact Hnsm|]. exists p. split; [exact Hp|].
    destruct (mem p (Mset pc)) eqn:Emp; [|rewrite (keep_not_M p Emp); exact Ep].
    exfalso. destruct Hp as (Hp1 & Hp2 & Hp3 & Hp4).
    assert (Hup : forall z, In z Sq -> p < z <= x -> walkable oc z = true).
    { intros z Hz Hr. destruct (Nat.eq_dec z x) as [->|Hzx].
      - rewrite (walkable_live _ Hlx), Hnsm. reflexivity.
      - apply walkable_removed. apply Hp4; [exact Hz | lia]. }
    apply in_M in Emp as [Hw|[Hw|HB]].
    + apply Hna. eapply walked_up; eauto.
    + apply Hnb. eapply walked_up; eauto.
    + eapply live_not_Bs; [|exact HB]. apply in_li; auto.
Qed.

Lemma Inv_step : Inv pc' rest.
Proof.
  split; [congruence|]. split; [|split; [exact okP_step | exact brk_step]].
  intros x Hx. rewrite Hpt. destruct (mem x (Mset pc)); [|apply Halpha; exact Hx].
  destruct Hd as [-> | ->]; reflexivity.
Qed.

(* ---- the live classes after the step are Spec.n0_one's ---- *)
Lemma onsm_nth m : m < length li -> snth onsm m false = (nth (nth m li 0) oc BN =c NSM).
Proof.
  intros Hm. unfold snth, onsm.
  rewrite (nth_indep _ false (nth 0 oc BN =c NSM)) by (rewrite map_length; exact Hm).
  apply (map_nth (fun i => nth i oc BN =c NSM)).
Qed.

Lemma walk_idx c x : In c li -> In x li -> x <> c ->
  (walked c x <-> S (lidx li c) <= lidx li x /\ onsm_run onsm (S (lidx li c)) (lidx li x)).
Proof.
  intros Hc Hx Hne. pose proof Hascli as Hal. split.
  - intros (H1 & H2 & H3). assert (Hcx : c < x) by lia.
    pose proof (lidx_lt li c x Hal Hc Hcx) as Hlt. split; [lia|].
    intros m' Hm'. pose proof (lidx_len li x Hal Hx) as Hxl.
    assert (Hml : m' < length li) by lia.
    set (z := nth m' li 0). assert (Hz : In z li) by (apply nth_In; exact Hml).
    assert (Ez : lidx li z = m') by (apply lidx_nth; assumption).
    assert (Hcz : c < z).
    { destruct (Nat.le_gt_cases z c) as [H|H]; [|exact H]. pose proof (lidx_mono li z c H). lia. }
    assert (Hzx : z <= x).
    { destruct (Nat.le_gt_cases z x) as [H|H]; [exact H|]. pose proof (lidx_lt li x z Hal Hx H). lia. }
    rewrite (onsm_nth m' Hml). fold z. apply in_li in Hz as [HzS Hlz].
    rewrite <- (walkable_live _ Hlz). apply H3; [exact HzS | lia].
  - intros [Hle Hrun]. apply in_li in Hx as [HxS Hlx]. pose proof Hc as Hc'. apply in_li in Hc' as [HcS Hlc].
    assert (Hcx : c < x).
    { destruct (Nat.le_gt_cases x c) as [H|H]; [|exact H]. pose proof (lidx_mono li x c H). lia. }
    split; [exact HxS|]. split; [lia|]. intros z Hz Hr.
    destruct (live oc z) eqn:Elz; [|apply walkable_removed; exact Elz].
    rewrite (walkable_live _ Elz). assert (Hzl : In z li) by (apply in_li; auto).
    pose proof (lidx_lt li c z Hal Hc ltac:(lia)) as H1.
    pose proof (lidx_mono li z x ltac:(lia)) as H2.
    specialize (Hrun (lidx li z) ltac:(lia)).
    rewrite (onsm_nth _ (lidx_len li z Hal Hzl)) in Hrun. rewrite (nth_lidx li z 0 Hal Hzl) in Hrun. exact Hrun.
Qed.

Lemma n0_step_eq :
  at_ BN pc' li =
  (let t2 := setnth (setnth (at_ BN pc li) (lidx li a) d) (lidx li b) d in
   nsm_follow onsm d (S (lidx li b)) (length t2) (nsm_follow onsm d (S (lidx li a)) (length t2) t2)).
Proof.
  cbv zeta. pose proof Hascli as Hal.
  assert (Hal' : In a li) by (apply in_li; auto using HaS).
  assert (Hbl' : In b li) by (apply in_li; auto using HbS).
  pose proof (lidx_len li a Hal Hal') as Hia. pose proof (lidx_len li b Hal Hbl') as Hib.
  pose proof (lidx_lt li a b Hal Hal' Hab) as Hiab.
  apply (list_ext BN).
  { rewrite nsm_follow_length, nsm_follow_length, !setnth_length, !at_length. reflexivity. }
  intros m Hm. rewrite at_length in Hm. rewrite !setnth_length, at_length.
  set (x := nth m li 0). assert (Hx : In x li) by (apply nth_In; exact Hm).
  assert (Ex : lidx li x = m) by (apply lidx_nth; assumption).
  rewrite (nth_at BN BN pc' li m Hm). fold x.
  set (t2 := setnth (setnth (at_ BN pc li) (lidx li a) d) (lidx li b) d).
  assert (Lt2 : length t2 = length li) by (unfold t2; rewrite !setnth_length, at_length; reflexivity).
  assert (Hxa : x = a <-> m = lidx li a).
  { split; [intros E0; rewrite <- E0; symmetry; exact Ex | intros E; apply (lidx_inj li); auto; congruence]. }
  assert (Hxb : x = b <-> m = lidx li b).
  { split; [intros E0; rewrite <- E0; symmetry; exact Ex | intros E; apply (lidx_inj li); auto; congruence]. }
  (* the walk after the closing bracket *)
  destruct (Nat.eq_dec x b) as [Exb|Nxb].
  { rewrite (set_in_M x) by (apply in_M; right; left; apply walked_b; left; exact Exb).
    apply Hxb in Exb. rewrite nsm_follow_miss by lia. symmetry. apply nsm_follow_keep.
    unfold t2. rewrite setnth_nth by (rewrite setnth_length, at_length; lia).
    rewrite Exb, Nat.eqb_refl. reflexivity. }
  destruct (Nat.eq_dec x a) as [Exa|Nxa].
  { rewrite (set_in_M x) by (apply in_M; left; apply walked_a; left; exact Exa).
    apply Hxa in Exa. rewrite nsm_follow_miss by lia. rewrite nsm_follow_miss by lia.
    unfold t2. rewrite setnth_nth by (rewrite setnth_length, at_length; lia).
    rewrite setnth_nth by (rewrite at_length; lia).
    rewrite Exa, Nat.eqb_refl. destruct (lidx li a =? lidx li b); reflexivity. }
  pose proof (walk_idx b x Hbl' Hx Nxb) as Wb'. pose proof (walk_idx a x Hal' Hx Nxa) as Wa'.
  rewrite Ex in Wb', Wa'.
  destruct (mem x (Mset pc)) eqn:Em.
  - rewrite (set_in_M x Em). apply in_M in Em as [Hw|[Hw|HB]].
    + (* reached from the opening bracket: either also from the closing one, or set by the first follow *)
      apply Wa' in Hw as [Hle Hrun].
      destruct (Nat.le_gt_cases (S (lidx li b)) m) as [Hbm|Hbm].
      * symmetry. apply nsm_follow_hit; [rewrite nsm_follow_length; lia | rewrite nsm_follow_length; lia|].
        intros m' Hm'. apply Hrun. lia.
      * rewrite nsm_follow_miss by lia. symmetry. apply nsm_follow_hit; [lia | lia | exact Hrun].
    + apply Wb' in Hw as [Hle Hrun]. symmetry.
      apply nsm_follow_hit; [rewrite nsm_follow_length; lia | rewrite nsm_follow_length; lia | exact Hrun].
    + exfalso. eapply live_not_Bs; eauto.
  - rewrite (keep_not_M x Em). destruct (not_in_M _ _ Em) as (Hna & Hnb & _).
    rewrite nsm_follow_miss by (intros H; apply Hnb, Wb'; exact H).
    rewrite nsm_follow_miss by (intros H; apply Hna, Wa'; exact H).
    unfold t2. rewrite setnth_nth by (rewrite setnth_length, at_length; lia).
    rewrite setnth_nth by (rewrite at_length; lia).
    assert (E1 : (m =? lidx li b) = false) by (apply Nat.eqb_neq; intros E; apply Nxb, Hxb; exact E).
    assert (E2 : (m =? lidx li a) = false) by (apply Nat.eqb_neq; intros E; apply Nxa, Hxa; exact E).
    rewrite E1, E2. symmetry. apply nth_at. exact Hm.
Qed.

End Step.

End Pair.


(* ---------------- one step, then the fold over the pairs ---------------- *)
Lemma n0_pair_sim pc mp rest pc' :
  Inv pc (mp :: rest) -> pair_ok runs mp ->
  live oc (bp_start mp) = true -> live oc (bp_end mp) = true ->
  NoDup (flat_map ends (mp :: rest)) -> (forall x, In x (flat_map ends rest) -> In x li) ->
  n0_pair U32 false iter_backwards_from cps sq oc e (if e =c L then R else L) pc mp = Ok pc' ->
  Inv pc' rest /\ at_ BN pc' li = n0_one sos e onsm (at_ BN pc li) (gp li mp).
Proof.
  intros (Hk & Halpha & HP & Hbrk) (Hpa & Hpb & Hlt) Hla Hlb Hnd Hrl H.
  set (a := bp_start mp) in *. set (b := bp_end mp) in *.
  assert (HaS : In a Sq) by (eapply pos_ok_S; eauto).
  assert (HbS : In b Sq) by (eapply pos_ok_S; eauto).
  destruct (in_split _ _ HaS) as (pre & posta & HSq).
  pose proof HascS as Ha. rewrite HSq in Ha, HbS.
  assert (Hbp : In b posta) by (eapply asc_in_after; eauto).
  destruct (in_split _ _ Hbp) as (mid & post & ->). clear Hbp HbS Ha.
  assert (Hba : brk_ok pc a) by (apply Hbrk; cbn [flat_map ends]; left; reflexivity).
  assert (Hbb : brk_ok pc b) by (apply Hbrk; cbn [flat_map ends]; right; left; reflexivity).
  pose proof (n0_pair_char pre mid post a b HSq Hla Hlb pc mp pc' eq_refl eq_refl Hpa Hpb HP Hba H) as Hchar.
  unfold gp. fold a b. rewrite n0_one_eq.
  destruct (n0_new (at_ BN pc li) (lidx li a) (lidx li b)) as [d|] eqn:En.
  - destruct Hchar as [Hlen Hpt]. pose proof (n0_new_LR _ _ _ _ En) as Hd.
    cbn [flat_map ends app] in Hnd. fold a b in Hnd.
    apply NoDup_cons_iff in Hnd as [Hna Hnd]. apply NoDup_cons_iff in Hnd as [Hnb Hnd].
    assert (Hrest : forall x, In x (flat_map ends rest) -> In x li /\ x <> a /\ x <> b).
    { intros x Hx. split; [apply Hrl; exact Hx|]. split; intros ->.
      - apply Hna. right. exact Hx.
      - apply Hnb. exact Hx. }
    assert (Hbrest : forall x, In x (flat_map ends rest) -> brk_ok pc x).
    { intros x Hx. apply Hbrk. cbn [flat_map ends app]. right. right. exact Hx. }
    split.
    + eapply (Inv_step pre mid post a b HSq Hla Hlb pc pc' d rest); eauto.
    + eapply (n0_step_eq pre mid post a b HSq Hla Hlb pc pc' d); eauto.
  - subst pc'. split; [|reflexivity]. split; [exact Hk|]. split; [exact Halpha|]. split; [exact HP|].
    intros x Hx. apply Hbrk. cbn [flat_map ends app]. right. right. exact Hx.
Qed.

Lemma n0_pairs_sim : forall mps pc pc',
  Inv pc mps -> Forall (pair_ok runs) mps ->
  Forall (fun p => live oc (bp_start p) = true /\ live oc (bp_end p) = true) mps ->
  NoDup (flat_map ends mps) ->
  n0_pairs U32 false iter_backwards_from cps sq oc e (if e =c L then R else L) pc mps = Ok pc' ->
  Inv pc' [] /\ at_ BN pc' li = fold_left (n0_one sos e onsm) (map (gp li) mps) (at_ BN pc li).
Proof.
  induction mps as [|mp rest IH]; intros pc pc' HI Hok Hlive Hnd H; cbn [n0_pairs] in H.
  - injection H as <-. split; [exact HI | reflexivity].
  - apply bind_ok in H as (pc1 & E1 & H).
    inversion Hok as [|x1 l1 Hok1 Hok2]; subst. inversion Hlive as [|x2 l2 [Hl1 Hl2] Hlive2]; subst.
    assert (Hrl : forall x, In x (flat_map ends rest) -> In x li).
    { intros x Hx. apply in_flat_map in Hx as (p & Hp & Hx).
      rewrite Forall_forall in Hok2, Hlive2. destruct (Hok2 p Hp) as (A & B & _). destruct (Hlive2 p Hp) as [C D].
      apply in_li. destruct Hx as [<-|[<-|[]]]; split; auto; eapply pos_ok_S; eauto. }
    destruct (n0_pair_sim pc mp rest pc1 HI Hok1 Hl1 Hl2 Hnd Hrl E1) as [HI1 Eq1].
    cbn [flat_map] in Hnd. apply NoDup_app_r in Hnd.
    destruct (IH pc1 pc' HI1 Hok2 Hlive2 Hnd H) as [HI2 Eq2].
    split; [exact HI2|]. cbn [map fold_left]. rewrite <- Eq1. exact Eq2.
Qed.

(* ---------------- the invariant holds for the output of the weak stage ---------------- *)
Lemma find_first {A} (f : A -> bool) : forall l q, find f l = Some q ->
  exists l1 l2, l = l1 ++ q :: l2 /\ f q = true /\ forall y, In y l1 -> f y = false.
Proof.
  induction l as [|x l IH]; intros q H; cbn [find] in H; [discriminate|].
  destruct (f x) eqn:E.
  - injection H as <-. exists [], l. split; [reflexivity|]. split; [exact E | intros y []].
  - destruct (IH q H) as (l1 & l2 & -> & Hq & Hl1). exists (x :: l1), l2. split; [reflexivity|].
    split; [exact Hq|]. intros y [<-|Hy]; auto.
Qed.

Lemma transparent_from_inv v : forall l1 j r, transparent_from oc v (l1 ++ j :: r) = true -> live oc j = false ->
  nth j v BN = BN \/ nth j v BN = ON \/ exists q, find (live oc) r = Some q /\ nth q v BN = nth j v BN.
Proof.
  induction l1 as [|x l1 IH]; intros j r H Hj; cbn [app transparent_from] in H;
    apply andb_true_iff in H as [H1 H2].
  - rewrite Hj in H1. apply orb_true_iff in H1 as [H1|H1]; [apply orb_true_iff in H1 as [H1|H1]|].
    + left. apply ceq_eq. exact H1.
    + right. left. apply ceq_eq. exact H1.
    + right. right. destruct (find (live oc) r) as [q|]; [|discriminate]. exists q. split; [reflexivity|].
      apply ceq_eq. exact H1.
  - apply IH; assumption.
Qed.

Lemma okP_init pc1 : transparent oc pc1 sq = true -> okP pc1.
Proof.
  intros Ht j HjS Hlj. unfold transparent in Ht. fold Sq in Ht.
  destruct (in_split _ _ HjS) as (l1 & r & E). rewrite E in Ht.
  destruct (transparent_from_inv _ _ _ _ Ht Hlj) as [H|[H|(q & Hq & Eq)]].
  - left. rewrite H. reflexivity.
  - left. rewrite H. reflexivity.
  - right. left. exists q. split; [|congruence].
    destruct (find_first _ _ _ Hq) as (r1 & r2 & -> & Hlq & Hr1).
    pose proof HascS as Ha. rewrite E in Ha.
    destruct (asc_split _ _ _ Ha) as (_ & Har & _ & Hjr & _).
    split; [rewrite E; apply in_or_app; right; right; apply in_or_app; right; left; reflexivity|].
    split; [exact Hlq|]. split; [apply Hjr; apply in_or_app; right; left; reflexivity|].
    intros y Hy Hr. apply Hr1. rewrite E in Hy.
    assert (Hy2 : In y (r1 ++ q :: r2)) by (eapply asc_in_after; eauto; lia).
    eapply asc_in_before; eauto. lia.
Qed.

Lemma Inv_init pc1 mps : length pc1 = k ->
  (forall x, In x li -> alphab (nth x pc1 BN) = true) ->
  transparent oc pc1 sq = true ->
  Forall (fun p => bracket_pos_ok oc pc1 (bp_start p) /\ bracket_pos_ok oc pc1 (bp_end p)) mps ->
  Inv pc1 mps.
Proof.
  intros Hk Halpha Ht Hb. split; [exact Hk|]. split; [exact Halpha|]. split; [apply okP_init; exact Ht|].
  intros x Hx. apply in_flat_map in Hx as (p & Hp & Hx). rewrite Forall_forall in Hb.
  destruct (Hb p Hp) as [[_ A] [_ B]]. left. destruct Hx as [<-|[<-|[]]]; assumption.
Qed.

End N0.
