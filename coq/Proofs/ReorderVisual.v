(* Proofs/ReorderVisual.v — C04: reorder_visual (lib.rs:1002) is total on levels <= 126, returns a
   permutation of the indices, and agrees with rule L2 (Spec.l2).

   The implementation selects ranges by the ORIGINAL level of each POSITION; the specification by
   the level of the ELEMENT currently at that position.  The two coincide because reversing inside
   maximal ">= k" blocks keeps, for every k' <= k, the ">= k'" mask of the current elements equal to
   the ">= k'" mask of the positions ([inv_pass]).  Both are related through [rev_lv], one pass
   driven by an explicit level list. *)
From BidiVerif Require Import Base ConstsGen ModelText ModelLine Spec.
From BidiVerif.Proofs Require Import LevelOps.
From Coq Require Import Lia PeanoNat Permutation.

(* ------------------------------------------------------------------ *)
(* generic list helpers *)

Lemma firstn_len_app {A} (a b : list A) : firstn (length a) (a ++ b) = a.
Proof. induction a as [|x a IH]; cbn; [destruct b; reflexivity | now rewrite IH]. Qed.

Lemma skipn_len_app {A} (a b : list A) : skipn (length a) (a ++ b) = b.
Proof. induction a as [|x a IH]; cbn; [reflexivity | exact IH]. Qed.

Lemma repeat_mid {A} (a : A) n l : repeat a n ++ a :: l = a :: repeat a n ++ l.
Proof. induction n as [|n IH]; cbn; [reflexivity | now rewrite IH]. Qed.

Lemma map_all_true {A} (p : A -> bool) l :
  Forall (fun x => p x = true) l -> map p l = repeat true (length l).
Proof. induction 1 as [|x l Hx _ IH]; cbn; [reflexivity | now rewrite Hx, IH]. Qed.

(* split a list along the lengths of three others *)
Lemma split3_len {A B} (xs : list A) (a b c : list B) :
  length xs = length (a ++ b ++ c) ->
  exists xa xb xc, xs = xa ++ xb ++ xc /\ length xa = length a /\ length xb = length b
                   /\ length xc = length c.
Proof.
  intros H. rewrite !app_length in H.
  exists (firstn (length a) xs), (firstn (length b) (skipn (length a) xs)),
         (skipn (length b) (skipn (length a) xs)).
  rewrite !firstn_skipn. repeat split.
  - rewrite firstn_length. lia.
  - rewrite firstn_length, skipn_length. lia.
  - rewrite !skipn_length. lia.
Qed.

(* ------------------------------------------------------------------ *)
(* one pass, driven by an explicit list of levels *)

Fixpoint rev_lv {A} (k : nat) (ls : list nat) (xs : list A) (acc : list A) : list A :=
  match ls, xs with
  | l :: ls', x :: xs' =>
      if k <=? l then rev_lv k ls' xs' (x :: acc) else acc ++ x :: rev_lv k ls' xs' []
  | _, _ => acc
  end.

Lemma rev_runs_ge_lv k xs : forall acc, rev_runs_ge k xs acc = rev_lv k (map snd xs) xs acc.
Proof.
  induction xs as [|x xs IH]; intros acc; cbn [rev_runs_ge rev_lv map]; [reflexivity|].
  destruct (k <=? snd x); now rewrite IH.
Qed.

Lemma rev_lv_map {A B} (f : A -> B) k ls : forall xs acc,
  map f (rev_lv k ls xs acc) = rev_lv k ls (map f xs) (map f acc).
Proof.
  induction ls as [|l ls IH]; intros [|x xs] acc; cbn [rev_lv map]; try reflexivity.
  destruct (k <=? l).
  - now rewrite IH.
  - rewrite map_app. cbn [map]. now rewrite IH.
Qed.

(* only the mask matters *)
Lemma rev_lv_mask {A} k k' : forall ls ls' (xs acc : list A),
  map (Nat.leb k) ls = map (Nat.leb k') ls' ->
  rev_lv k ls xs acc = rev_lv k' ls' xs acc.
Proof.
  induction ls as [|l ls IH]; intros [|l' ls'] xs acc H; cbn [map] in H; try discriminate.
  - reflexivity.
  - injection H as H1 H2. destruct xs as [|x xs]; cbn [rev_lv]; [reflexivity|].
    rewrite <- H1. destruct (k <=? l); now rewrite (IH ls').
Qed.

Lemma rev_lv_perm {A} k : forall ls (xs acc : list A),
  length ls = length xs -> Permutation (rev_lv k ls xs acc) (acc ++ xs).
Proof.
  induction ls as [|l ls IH]; intros [|x xs] acc H; cbn [length] in H; try discriminate.
  - cbn. rewrite app_nil_r. apply Permutation_refl.
  - injection H as H. cbn [rev_lv]. destruct (k <=? l).
    + eapply Permutation_trans; [apply IH; exact H|].
      cbn [app]. apply Permutation_middle.
    + apply Permutation_app_head, perm_skip. apply (IH xs []); exact H.
Qed.

(* a predicate that holds on every element of every reversed block keeps its mask *)
Lemma rev_lv_keeps_mask {A} (p : A -> bool) k : forall ls xs acc,
  Forall2 (fun l x => k <= l -> p x = true) ls xs ->
  Forall (fun x => p x = true) acc ->
  map p (rev_lv k ls xs acc) = map p acc ++ map p xs.
Proof.
  induction ls as [|l ls IH]; intros xs acc H2 Hacc; inversion H2 as [|l0 x ls0 xs' Hx H2' E1 E2]; subst.
  - cbn. now rewrite app_nil_r.
  - cbn [rev_lv]. destruct (k <=? l) eqn:E.
    + apply Nat.leb_le in E. specialize (Hx E).
      rewrite IH; [|exact H2'|constructor; assumption].
      cbn [map]. rewrite Hx, (map_all_true p acc Hacc). cbn [app]. now rewrite repeat_mid.
    + rewrite map_app. cbn [map]. rewrite (IH xs' []); [reflexivity|exact H2'|constructor].
Qed.

(* block-wise evaluation *)
Lemma rev_lv_low {A} k : forall lo (xlo : list A) ls xs,
  Forall (fun l => l < k) lo -> length lo = length xlo ->
  rev_lv k (lo ++ ls) (xlo ++ xs) [] = xlo ++ rev_lv k ls xs [].
Proof.
  induction lo as [|l lo IH]; intros [|x xlo] ls xs HF HL; cbn [length] in HL; try discriminate.
  - reflexivity.
  - inversion HF as [|l0 lo0 Hl HF']; subst. injection HL as HL.
    cbn [app rev_lv]. destruct (k <=? l) eqn:E; [apply Nat.leb_le in E; lia|].
    cbn [app]. now rewrite IH.
Qed.

Lemma rev_lv_high {A} k : forall hi (xhi : list A) ls xs acc,
  Forall (fun l => k <= l) hi -> length hi = length xhi ->
  rev_lv k (hi ++ ls) (xhi ++ xs) acc = rev_lv k ls xs (rev xhi ++ acc).
Proof.
  induction hi as [|l hi IH]; intros [|x xhi] ls xs acc HF HL; cbn [length] in HL; try discriminate.
  - reflexivity.
  - inversion HF as [|l0 hi0 Hl HF']; subst. injection HL as HL.
    cbn [app rev_lv]. destruct (k <=? l) eqn:E; [|apply Nat.leb_gt in E; lia].
    rewrite IH by assumption. cbn [rev]. now rewrite <- app_assoc.
Qed.

Definition tail_ok (k : nat) (ls : list nat) : Prop :=
  match ls with [] => True | l :: _ => l < k end.

Lemma rev_lv_tail {A} k ls (xs acc : list A) :
  tail_ok k ls -> length ls = length xs ->
  rev_lv k ls xs acc = acc ++ rev_lv k ls xs [].
Proof.
  destruct ls as [|l ls], xs as [|x xs]; cbn [length]; intros HT HL; try discriminate.
  - cbn. now rewrite app_nil_r.
  - cbn [tail_ok] in HT. cbn [rev_lv]. destruct (k <=? l) eqn:E; [apply Nat.leb_le in E; lia|].
    reflexivity.
Qed.

Lemma rev_lv_block {A} k lo hi lt (xlo xhi xt : list A) :
  Forall (fun l => l < k) lo -> Forall (fun l => k <= l) hi -> tail_ok k lt ->
  length lo = length xlo -> length hi = length xhi -> length lt = length xt ->
  rev_lv k (lo ++ hi ++ lt) (xlo ++ xhi ++ xt) [] = xlo ++ rev xhi ++ rev_lv k lt xt [].
Proof.
  intros Hlo Hhi Ht L1 L2 L3.
  rewrite rev_lv_low by assumption. rewrite rev_lv_high by assumption.
  rewrite rev_lv_tail by assumption. now rewrite app_nil_r.
Qed.

(* a pass is an involution *)
Lemma rev_lv_invol_gen {A} k : forall ls (xs acc : list A) lsa,
  Forall (fun l => k <= l) lsa -> length lsa = length acc -> length ls = length xs ->
  rev_lv k (lsa ++ ls) (rev_lv k ls xs acc) [] = rev acc ++ xs.
Proof.
  induction ls as [|l ls IH]; intros [|x xs] acc lsa HF HA HL; cbn [length] in HL; try discriminate.
  - cbn [rev_lv]. rewrite <- (app_nil_r acc) at 1.
    rewrite rev_lv_high by assumption. cbn. reflexivity.
  - injection HL as HL. cbn [rev_lv]. destruct (k <=? l) eqn:E.
    + apply Nat.leb_le in E.
      replace (lsa ++ l :: ls) with ((lsa ++ [l]) ++ ls) by (rewrite <- app_assoc; reflexivity).
      rewrite IH.
      * cbn [rev]. rewrite <- app_assoc. reflexivity.
      * apply Forall_app; split; [assumption | constructor; [assumption | constructor]].
      * rewrite app_length. cbn [length]. lia.
      * exact HL.
    + apply Nat.leb_gt in E.
      rewrite rev_lv_high by assumption.
      cbn [rev_lv]. destruct (k <=? l) eqn:E'; [apply Nat.leb_le in E'; lia|].
      rewrite app_nil_r. f_equal. f_equal.
      apply (IH xs [] []); [constructor | reflexivity | exact HL].
Qed.

Lemma rev_lv_invol {A} k ls (xs : list A) :
  length ls = length xs -> rev_lv k ls (rev_lv k ls xs []) [] = xs.
Proof. intros H. apply (rev_lv_invol_gen k ls xs [] []); [constructor | reflexivity | exact H]. Qed.

(* ------------------------------------------------------------------ *)
(* the inner loop of reorder_visual is one pass *)

Lemma count_while_all {A} (p : A -> bool) a b :
  Forall (fun x => p x = true) a -> count_while p (a ++ b) = length a + count_while p b.
Proof. induction 1 as [|x a Hx _ IH]; cbn; [reflexivity | now rewrite Hx, IH]. Qed.

Lemma Forall_ltb k lo : Forall (fun l => l < k) lo -> Forall (fun l => (l <? k) = true) lo.
Proof. apply Forall_impl. intros l H. now apply Nat.ltb_lt. Qed.
Lemma Forall_leb k hi : Forall (fun l => k <= l) hi -> Forall (fun l => (k <=? l) = true) hi.
Proof. apply Forall_impl. intros l H. now apply Nat.leb_le. Qed.

Lemma count_while_tail_ok k lt : tail_ok k lt -> count_while (fun l => k <=? l) lt = 0.
Proof.
  destruct lt as [|l lt]; cbn; [reflexivity|]. intros H.
  destruct (k <=? l) eqn:E; [apply Nat.leb_le in E; lia | reflexivity].
Qed.

Lemma decomp k : forall ls : list nat, exists lo hi lt,
  ls = lo ++ hi ++ lt /\ Forall (fun l => l < k) lo /\ Forall (fun l => k <= l) hi /\
  tail_ok k lt /\ (hi = [] -> lt = []).
Proof.
  induction ls as [|l ls (lo & hi & lt & E & Hlo & Hhi & Ht & Hn)].
  - exists [], [], []. repeat split; constructor.
  - destruct (Nat.lt_ge_cases l k) as [Hl|Hl].
    + exists (l :: lo), hi, lt. subst ls. repeat split; try assumption. constructor; assumption.
    + destruct lo as [|l' lo].
      * exists [], (l :: hi), lt. subst ls. repeat split; try assumption.
        -- constructor; assumption.
        -- discriminate.
      * exists [], [l], ((l' :: lo) ++ hi ++ lt). subst ls. repeat split.
        -- constructor.
        -- constructor; [assumption | constructor].
        -- cbn. inversion Hlo; assumption.
        -- discriminate.
Qed.

Lemma next_range_none k lpre lo :
  Forall (fun l => l < k) lo ->
  next_range (lpre ++ lo) (length lpre) k = (length (lpre ++ lo), length (lpre ++ lo)).
Proof.
  intros Hlo. unfold next_range.
  destruct ((length (lpre ++ lo) =? 0) || (length (lpre ++ lo) <=? length lpre)) eqn:C.
  - assert (length lo = 0).
    { rewrite app_length in C. apply orb_true_iff in C as [C|C];
        [apply Nat.eqb_eq in C | apply Nat.leb_le in C]; lia. }
    rewrite app_length. replace (length lo) with 0 by lia. rewrite Nat.add_0_r. reflexivity.
  - rewrite skipn_len_app.
    assert (CW : count_while (fun l => l <? k) lo = length lo).
    { rewrite <- (app_nil_r lo) at 1. rewrite count_while_all by (apply Forall_ltb; exact Hlo).
      cbn [count_while]. apply Nat.add_0_r. }
    rewrite CW, <- app_length, Nat.leb_refl. reflexivity.
Qed.

Lemma next_range_some k lpre lo h hi lt :
  Forall (fun l => l < k) lo -> Forall (fun l => k <= l) (h :: hi) -> tail_ok k lt ->
  next_range (lpre ++ lo ++ (h :: hi) ++ lt) (length lpre) k
  = (length lpre + length lo, length lpre + length lo + length (h :: hi)).
Proof.
  intros Hlo Hhi Ht. unfold next_range. cbv zeta.
  remember (lpre ++ lo ++ (h :: hi) ++ lt) as levels eqn:EL.
  assert (HL : length levels = length lpre + length lo + S (length hi) + length lt).
  { subst levels. rewrite !app_length. cbn [length]. lia. }
  inversion Hhi as [|h0 hi0 Hh Hhi']; subst h0 hi0.
  destruct ((length levels =? 0) || (length levels <=? length lpre)) eqn:C.
  { apply orb_true_iff in C as [C|C]; [apply Nat.eqb_eq in C | apply Nat.leb_le in C]; lia. }
  assert (S1 : skipn (length lpre) levels = lo ++ (h :: hi) ++ lt)
    by (subst levels; apply skipn_len_app).
  rewrite !S1.
  assert (CW1 : count_while (fun l => l <? k) (lo ++ (h :: hi) ++ lt) = length lo).
  { rewrite count_while_all by (apply Forall_ltb; exact Hlo).
    assert (E : (h <? k) = false) by (apply Nat.ltb_ge; exact Hh).
    cbn [app count_while]. rewrite E. apply Nat.add_0_r. }
  rewrite !CW1.
  destruct (length levels <=? length lpre + length lo) eqn:C2; [apply Nat.leb_le in C2; lia|].
  assert (S2 : skipn (S (length lpre + length lo)) levels = hi ++ lt).
  { replace levels with ((lpre ++ lo ++ [h]) ++ hi ++ lt)
      by (subst levels; rewrite <- !app_assoc; reflexivity).
    replace (S (length lpre + length lo)) with (length (lpre ++ lo ++ [h]))
      by (rewrite !app_length; cbn [length]; lia).
    apply skipn_len_app. }
  rewrite S2.
  rewrite count_while_all by (apply Forall_leb; exact Hhi').
  rewrite count_while_tail_ok by exact Ht.
  f_equal. cbn [length]. lia.
Qed.

Lemma reverse_range_nil site (v : list nat) : reverse_range site v (length v) (length v) = Ok v.
Proof.
  unfold reverse_range. rewrite !Nat.leb_refl. cbn [andb]. rewrite Nat.sub_diag.
  cbn [firstn rev app]. rewrite firstn_skipn. reflexivity.
Qed.

Lemma reverse_range_mid site (p m q : list nat) a b :
  a = length p -> b = a + length m ->
  reverse_range site (p ++ m ++ q) a b = Ok (p ++ rev m ++ q).
Proof.
  intros -> ->. unfold reverse_range.
  destruct ((length p <=? length p + length m) && (length p + length m <=? length (p ++ m ++ q))) eqn:C.
  - rewrite firstn_len_app, skipn_len_app.
    replace (length p + length m - length p) with (length m) by lia.
    rewrite firstn_len_app.
    rewrite <- app_length, (app_assoc p m q), skipn_len_app. reflexivity.
  - apply andb_false_iff in C as [C|C]; apply Nat.leb_gt in C; rewrite ?app_length in C; lia.
Qed.

Lemma rv_inner_S f levels k result e a b :
  next_range levels e k = (a, b) ->
  rv_inner (S f) levels k result e =
  (result' <- reverse_range 1069 result a b ;;
   if length levels <=? b then Ok result' else rv_inner f levels k result' b).
Proof. intros H. cbn [rv_inner]. rewrite H. reflexivity. Qed.

Lemma rv_inner_spec k : forall fuel levels result lpre lrest pre rest,
  levels = lpre ++ lrest -> result = pre ++ rest ->
  length pre = length lpre -> length rest = length lrest -> length lrest < fuel ->
  rv_inner fuel levels k result (length lpre) = Ok (pre ++ rev_lv k lrest rest []).
Proof.
  induction fuel as [|f IH]; intros levels result lpre lrest pre rest EL ER LP LR HF; [lia|].
  destruct (decomp k lrest) as (lo & hi & lt & E & Hlo & Hhi & Ht & Hn). subst lrest.
  destruct (split3_len rest lo hi lt LR) as (xlo & xhi & xt & E & L1 & L2 & L3). subst rest.
  rewrite rev_lv_block by (try assumption; symmetry; assumption).
  destruct hi as [|h hi].
  - rewrite (Hn eq_refl) in *. destruct xhi; [|discriminate]. destruct xt; [|discriminate].
    cbn [app] in EL, ER. rewrite app_nil_r in EL, ER. subst levels result.
    rewrite (rv_inner_S _ _ _ _ _ _ _ (next_range_none k lpre lo Hlo)).
    replace (length (lpre ++ lo)) with (length (pre ++ xlo)) by (rewrite !app_length; lia).
    rewrite reverse_range_nil. cbn [bind].
    replace (length (lpre ++ lo)) with (length (pre ++ xlo)) by (rewrite !app_length; lia).
    rewrite Nat.leb_refl. cbn [rev rev_lv app]. rewrite app_nil_r. reflexivity.
  - subst levels.
    rewrite (rv_inner_S _ _ _ _ _ _ _ (next_range_some k lpre lo h hi lt Hlo Hhi Ht)).
    subst result. rewrite (app_assoc pre xlo).
    rewrite (reverse_range_mid 1069 (pre ++ xlo) xhi xt)
      by (rewrite ?app_length; lia).
    cbn [bind].
    destruct (length (lpre ++ lo ++ (h :: hi) ++ lt) <=? length lpre + length lo + length (h :: hi)) eqn:C.
    + apply Nat.leb_le in C. rewrite !app_length in C.
      assert (length lt = 0) by lia.
      destruct lt; [|discriminate]. destruct xt; [|discriminate].
      cbn [rev_lv]. rewrite <- app_assoc. reflexivity.
    + replace (length lpre + length lo + length (h :: hi)) with (length (lpre ++ lo ++ h :: hi))
        by (rewrite !app_length; lia).
      rewrite (IH _ _ (lpre ++ lo ++ h :: hi) lt ((pre ++ xlo) ++ rev xhi) xt).
      * rewrite <- !app_assoc. reflexivity.
      * rewrite <- !app_assoc. reflexivity.
      * rewrite <- !app_assoc. reflexivity.
      * rewrite !app_length, rev_length. lia.
      * exact L3.
      * rewrite !app_length in HF. cbn [length] in HF. lia.
Qed.

Lemma rv_inner_pass k levels result :
  length result = length levels ->
  rv_inner (S (length levels)) levels k result 0 = Ok (rev_lv k levels result []).
Proof.
  intros H.
  apply (rv_inner_spec k (S (length levels)) levels result [] levels [] result);
    try reflexivity; [exact H | lia].
Qed.

(* ------------------------------------------------------------------ *)
(* the invariant: element masks = position masks, for every threshold <= k *)

Definition pass (k : nat) (xs : list (nat * nat)) : list (nat * nat) := rev_runs_ge k xs [].

Definition inv (levels : list nat) (k : nat) (xs : list (nat * nat)) : Prop :=
  forall k', k' <= k -> map (fun x => k' <=? snd x) xs = map (Nat.leb k') levels.

Lemma inv_length levels k xs : inv levels k xs -> length xs = length levels.
Proof.
  intros H. specialize (H 0 (Nat.le_0_l k)).
  apply (f_equal (@length bool)) in H. now rewrite !map_length in H.
Qed.

Lemma inv_mono levels k k' xs : k' <= k -> inv levels k xs -> inv levels k' xs.
Proof. intros Hk H k'' Hk''. apply H. lia. Qed.

Lemma pass_perm k xs : Permutation (pass k xs) xs.
Proof.
  unfold pass. rewrite rev_runs_ge_lv.
  apply (rev_lv_perm k (map snd xs) xs []). apply map_length.
Qed.

Lemma pass_length k xs : length (pass k xs) = length xs.
Proof. apply Permutation_length, pass_perm. Qed.

Lemma pass_positional levels k xs :
  inv levels k xs -> pass k xs = rev_lv k levels xs [].
Proof.
  intros H. unfold pass. rewrite rev_runs_ge_lv. apply rev_lv_mask.
  rewrite map_map. apply H. apply Nat.le_refl.
Qed.

Lemma inv_pass levels k xs : inv levels k xs -> inv levels k (pass k xs).
Proof.
  intros H k' Hk'. rewrite <- (H k' Hk').
  unfold pass. rewrite rev_runs_ge_lv.
  rewrite (rev_lv_keeps_mask (fun x => k' <=? snd x) k (map snd xs) xs []); [reflexivity| |constructor].
  clear H. induction xs as [|x xs IH]; cbn [map]; constructor; [|exact IH].
  intros Hx. apply Nat.leb_le. lia.
Qed.

(* what the inner loop does to the index vector *)
Lemma rv_inner_is_pass levels k xs :
  inv levels k xs ->
  rv_inner (S (length levels)) levels k (map fst xs) 0 = Ok (map fst (pass k xs)).
Proof.
  intros H. rewrite rv_inner_pass by (rewrite map_length; eapply inv_length; exact H).
  rewrite (pass_positional levels k xs H), rev_lv_map. reflexivity.
Qed.

(* a pass at k and a pass at k-1 cancel when no position has level k-1 *)
Lemma pass_pair_cancel levels k xs :
  1 <= k -> ~ In (k - 1) levels -> inv levels k xs -> pass (k - 1) (pass k xs) = xs.
Proof.
  intros Hk Hnot H.
  assert (H1 : inv levels (k - 1) (pass k xs)) by (apply (inv_mono levels k); [lia | apply inv_pass; exact H]).
  rewrite (pass_positional levels (k - 1) _ H1), (pass_positional levels k xs H).
  rewrite (rev_lv_mask (k - 1) k levels levels).
  - apply rev_lv_invol. symmetry. eapply inv_length; exact H.
  - apply map_ext_in. intros l Hl.
    assert (l <> k - 1) by (intros ->; contradiction).
    destruct (k - 1 <=? l) eqn:A, (k <=? l) eqn:B; try reflexivity;
      [apply Nat.leb_le in A; apply Nat.leb_gt in B | apply Nat.leb_gt in A; apply Nat.leb_le in B]; lia.
Qed.

(* d passes, at k, k-1, ..., k-d+1 *)
Fixpoint passes (d k : nat) (xs : list (nat * nat)) : list (nat * nat) :=
  match d with
  | O => xs
  | S d' => passes d' (k - 1) (pass k xs)
  end.

Lemma passes_app d1 : forall d2 k xs,
  passes (d1 + d2) k xs = passes d2 (k - d1) (passes d1 k xs).
Proof.
  induction d1 as [|d1 IH]; intros d2 k xs; cbn [passes Nat.add].
  - now rewrite Nat.sub_0_r.
  - rewrite IH. f_equal. lia.
Qed.

Lemma passes_perm d : forall k xs, Permutation (passes d k xs) xs.
Proof.
  induction d as [|d IH]; intros k xs; cbn [passes]; [apply Permutation_refl|].
  eapply Permutation_trans; [apply IH | apply pass_perm].
Qed.

Lemma inv_passes levels d : forall k xs, inv levels k xs -> inv levels (k - d) (passes d k xs).
Proof.
  induction d as [|d IH]; intros k xs H; cbn [passes].
  - now rewrite Nat.sub_0_r.
  - replace (k - S d) with (k - 1 - d) by lia. apply IH.
    apply (inv_mono levels k); [lia | apply inv_pass; exact H].
Qed.

Lemma passes_cancel levels j : forall k xs,
  2 * j <= k -> Nat.even k = true ->
  (forall l, In l levels -> Nat.odd l = true -> k < l) ->
  inv levels k xs -> passes (2 * j) k xs = xs.
Proof.
  induction j as [|j IH]; intros k xs Hj Hev Hodd H; [reflexivity|].
  replace (2 * S j) with (S (S (2 * j))) by lia. cbn [passes].
  rewrite (pass_pair_cancel levels k xs); [| lia | | exact H].
  - apply IH; [lia | | | apply (inv_mono levels k); [lia | exact H]].
    + replace k with (S (S (k - 1 - 1))) in Hev by lia. exact Hev.
    + intros l Hl Ho. specialize (Hodd l Hl Ho). lia.
  - intros Hin. assert (Ho : Nat.odd (k - 1) = true).
    { replace k with (S (k - 1)) in Hev by lia. rewrite Nat.even_succ in Hev. exact Hev. }
    specialize (Hodd _ Hin Ho). lia.
Qed.

Lemma l2_down_passes lo : 1 <= lo -> forall k xs, l2_down k lo xs = passes (k + 1 - lo) k xs.
Proof.
  intros Hlo. induction k as [|k IH]; intros xs.
  - cbn [l2_down]. replace (0 + 1 - lo) with 0 by lia. reflexivity.
  - cbn [l2_down]. destruct (lo <=? S k) eqn:E.
    + apply Nat.leb_le in E. replace (S k + 1 - lo) with (S (k + 1 - lo)) by lia.
      cbn [passes]. rewrite IH. unfold pass. f_equal. lia.
    + apply Nat.leb_gt in E. replace (S k + 1 - lo) with 0 by lia. reflexivity.
Qed.

(* ------------------------------------------------------------------ *)
(* the outer loop *)

Lemma rv_outer_spec levels mn : 1 <= mn -> forall d fuel mx xs,
  d = mx + 1 - mn -> d < fuel -> inv levels mx xs ->
  rv_outer fuel levels mn mx (map fst xs) = Ok (map fst (passes d mx xs)).
Proof.
  intros Hmn. induction d as [|d IH]; intros fuel mx xs Hd Hf H;
    (destruct fuel as [|f]; [lia|]); cbn [rv_outer passes].
  - destruct (mx <? mn) eqn:E; [reflexivity | apply Nat.ltb_ge in E; lia].
  - destruct (mx <? mn) eqn:E; [apply Nat.ltb_lt in E; lia|]. apply Nat.ltb_ge in E.
    rewrite (rv_inner_is_pass levels mx xs H). cbn [bind].
    rewrite lower_spec. destruct (1 <=? mx) eqn:E1; [|apply Nat.leb_gt in E1; lia].
    apply IH; [lia | lia |].
    apply (inv_mono levels mx); [lia | apply inv_pass; exact H].
Qed.

(* ------------------------------------------------------------------ *)
(* minimum, maximum, lowest odd level *)

Lemma fold_max_spec l : forall a,
  a <= fold_left Nat.max l a /\ (forall x, In x l -> x <= fold_left Nat.max l a) /\
  (fold_left Nat.max l a = a \/ In (fold_left Nat.max l a) l).
Proof.
  induction l as [|x t IH]; intros a; cbn [fold_left].
  - split; [lia|]. split; [intros x []| left; reflexivity].
  - destruct (IH (Nat.max a x)) as (H1 & H2 & H3). split; [lia|]. split.
    + intros y [<-|Hy]; [lia | apply H2; exact Hy].
    + destruct H3 as [H3|H3]; [rewrite H3|right; right; exact H3].
      destruct (Nat.max_spec a x) as [[_ E]|[_ E]]; rewrite E.
      * right; left; reflexivity.
      * left; reflexivity.
Qed.

Lemma fold_min_spec l : forall a,
  fold_left Nat.min l a <= a /\ (forall x, In x l -> fold_left Nat.min l a <= x) /\
  (fold_left Nat.min l a = a \/ In (fold_left Nat.min l a) l).
Proof.
  induction l as [|x t IH]; intros a; cbn [fold_left].
  - split; [lia|]. split; [intros x []| left; reflexivity].
  - destruct (IH (Nat.min a x)) as (H1 & H2 & H3). split; [lia|]. split.
    + intros y [<-|Hy]; [lia | apply H2; exact Hy].
    + destruct H3 as [H3|H3]; [rewrite H3|right; right; exact H3].
      destruct (Nat.min_spec a x) as [[_ E]|[_ E]]; rewrite E.
      * left; reflexivity.
      * right; left; reflexivity.
Qed.

Lemma fold_max_head l0 t : fold_left Nat.max (l0 :: t) 0 = fold_left Nat.max (l0 :: t) l0.
Proof. cbn [fold_left]. now rewrite Nat.max_0_l, Nat.max_id. Qed.

Definition lo_step (acc : option nat) (l : nat) : option nat :=
  if Nat.odd l then match acc with Some m => Some (Nat.min m l) | None => Some l end else acc.

Lemma lowest_odd_fold lv : lowest_odd lv = fold_left lo_step lv None.
Proof. reflexivity. Qed.

Lemma lo_fold_spec lv : forall acc,
  (forall a, acc = Some a -> Nat.odd a = true) ->
  match fold_left lo_step lv acc with
  | None => acc = None /\ (forall l, In l lv -> Nat.odd l = false)
  | Some lo => Nat.odd lo = true /\ (acc = Some lo \/ In lo lv) /\
               (forall l, In l lv -> Nat.odd l = true -> lo <= l) /\
               (forall a, acc = Some a -> lo <= a)
  end.
Proof.
  induction lv as [|x t IH]; intros acc Hacc; cbn [fold_left].
  - destruct acc as [a|].
    + split; [apply Hacc; reflexivity|]. split; [left; reflexivity|].
      split; [intros l []|]. intros a' E. injection E as ->. lia.
    + split; [reflexivity | intros l []].
  - assert (Hacc' : forall a, lo_step acc x = Some a -> Nat.odd a = true).
    { unfold lo_step. destruct (Nat.odd x) eqn:Ox; [|exact Hacc].
      destruct acc as [m|]; intros a E; injection E as <-; [|exact Ox].
      destruct (Nat.min_spec m x) as [[_ E]|[_ E]]; rewrite E; [apply Hacc; reflexivity | exact Ox]. }
    specialize (IH (lo_step acc x) Hacc').
    destruct (fold_left lo_step t (lo_step acc x)) as [lo|].
    + destruct IH as (Ho & Hin & Hmin & Hle). split; [exact Ho|].
      unfold lo_step in Hin, Hle. destruct (Nat.odd x) eqn:Ox.
      * destruct acc as [m|].
        -- specialize (Hle _ eq_refl). split; [|split].
           ++ destruct Hin as [E|Hin]; [|right; right; exact Hin]. injection E as E.
              destruct (Nat.min_spec m x) as [[_ E']|[_ E']]; rewrite E' in E;
                [left; now subst | right; left; exact E].
           ++ intros l [<-|Hl] Hol; [lia | apply Hmin; assumption].
           ++ intros a E. injection E as <-. lia.
        -- specialize (Hle _ eq_refl). split; [|split].
           ++ destruct Hin as [E|Hin]; [right; left; now injection E | right; right; exact Hin].
           ++ intros l [<-|Hl] Hol; [lia | apply Hmin; assumption].
           ++ intros a E. discriminate.
      * split; [|split].
        -- destruct Hin as [E|Hin]; [left; exact E | right; right; exact Hin].
        -- intros l [<-|Hl] Hol; [congruence | apply Hmin; assumption].
        -- exact Hle.
    + destruct IH as (E & Hall). unfold lo_step in E. destruct (Nat.odd x) eqn:Ox.
      * destruct acc; discriminate.
      * split; [exact E|]. intros l [<-|Hl]; [exact Ox | apply Hall; exact Hl].
Qed.

Lemma lowest_odd_none lv : lowest_odd lv = None -> forall l, In l lv -> Nat.odd l = false.
Proof.
  intros H. pose proof (lo_fold_spec lv None) as S. rewrite <- lowest_odd_fold, H in S.
  apply S. intros a E. discriminate.
Qed.

Lemma lowest_odd_some lv lo : lowest_odd lv = Some lo ->
  Nat.odd lo = true /\ In lo lv /\ (forall l, In l lv -> Nat.odd l = true -> lo <= l).
Proof.
  intros H. pose proof (lo_fold_spec lv None) as S. rewrite <- lowest_odd_fold, H in S.
  destruct S as (Ho & Hin & Hmin & _); [intros a E; discriminate|].
  split; [exact Ho|]. split; [|exact Hmin]. destruct Hin as [E|Hin]; [discriminate | exact Hin].
Qed.

Lemma lowest_odd_all_even lv : forallb Nat.even lv = true -> lowest_odd lv = None.
Proof.
  intros H. rewrite lowest_odd_fold. generalize (@None nat).
  induction lv as [|x t IH]; intros acc; cbn [fold_left]; [reflexivity|].
  cbn [forallb] in H. apply andb_true_iff in H as [Hx Ht].
  unfold lo_step at 2. rewrite <- Nat.negb_even, Hx. cbn [negb]. apply IH; exact Ht.
Qed.

(* ------------------------------------------------------------------ *)
(* the initial state *)

Definition start (lv : list nat) : list (nat * nat) := combine (seq 0 (length lv)) lv.

Lemma map_fst_combine {A B} : forall (a : list A) (b : list B),
  length a = length b -> map fst (combine a b) = a.
Proof.
  induction a as [|x a IH]; intros [|y b] H; cbn [length] in H; try discriminate; [reflexivity|].
  cbn. f_equal. apply IH. now injection H.
Qed.
Lemma map_snd_combine {A B} : forall (a : list A) (b : list B),
  length a = length b -> map snd (combine a b) = b.
Proof.
  induction a as [|x a IH]; intros [|y b] H; cbn [length] in H; try discriminate; [reflexivity|].
  cbn. f_equal. apply IH. now injection H.
Qed.

Lemma start_fst lv : map fst (start lv) = seq 0 (length lv).
Proof. apply map_fst_combine, seq_length. Qed.

Lemma start_inv lv k : inv lv k (start lv).
Proof.
  intros k' _. rewrite <- (map_map snd (Nat.leb k')). unfold start.
  rewrite map_snd_combine by apply seq_length. reflexivity.
Qed.

Lemma odd_ge_1 n : Nat.odd n = true -> 1 <= n.
Proof. destruct n; [discriminate | lia]. Qed.

Lemma l2_perm lv : Permutation (l2 lv) (seq 0 (length lv)).
Proof.
  unfold l2. destruct (lowest_odd lv) as [lo|] eqn:LO; [|apply Permutation_refl].
  apply lowest_odd_some in LO as (Ho & _ & _).
  rewrite l2_down_passes by (apply odd_ge_1; exact Ho).
  fold (start lv). rewrite <- (start_fst lv). apply Permutation_map, passes_perm.
Qed.

Lemma l2_all_even lv : forallb Nat.even lv = true -> l2 lv = seq 0 (length lv).
Proof. intros H. unfold l2. now rewrite (lowest_odd_all_even lv H). Qed.

(* ------------------------------------------------------------------ *)
(* reorder_visual computes L2 *)

Lemma rv_unfold l0 t :
  reorder_visual (l0 :: t) =
  (if (fold_left Nat.min (l0 :: t) l0 =? fold_left Nat.max (l0 :: t) l0)
      && is_ltr (fold_left Nat.min (l0 :: t) l0)
   then Ok (seq 0 (length (l0 :: t)))
   else match level_lowest_ge_rtl (fold_left Nat.min (l0 :: t) l0) with
        | None => Panic 1057
        | Some mn' => rv_outer 130 (l0 :: t) mn' (fold_left Nat.max (l0 :: t) l0)
                               (seq 0 (length (l0 :: t)))
        end).
Proof. reflexivity. Qed.

Lemma even_true_mod n : Nat.even n = true <-> n mod 2 = 0.
Proof. rewrite even_mod2. apply Nat.eqb_eq. Qed.
Lemma odd_true_mod n : Nat.odd n = true <-> n mod 2 = 1.
Proof. rewrite odd_mod2. apply Nat.eqb_eq. Qed.
Lemma odd_false_mod n : Nat.odd n = false <-> n mod 2 = 0.
Proof. rewrite odd_mod2. rewrite Nat.eqb_neq. split; intros H; [|lia].
  pose proof (Nat.mod_upper_bound n 2). lia. Qed.

Lemma reorder_visual_l2 lv :
  Forall (fun l => l <= 126) lv -> reorder_visual lv = Ok (l2 lv).
Proof.
  intros HF. destruct lv as [|l0 t]; [reflexivity|].
  rewrite rv_unfold.
  remember (l0 :: t) as lv eqn:Elv.
  assert (Hl0 : In l0 lv) by (subst lv; left; reflexivity).
  destruct (fold_min_spec lv l0) as (Hmn1 & Hmn2 & Hmn3).
  destruct (fold_max_spec lv l0) as (Hmx1 & Hmx2 & Hmx3).
  assert (Kmax : fold_left Nat.max lv 0 = fold_left Nat.max lv l0) by (subst lv; apply fold_max_head).
  set (mn := fold_left Nat.min lv l0) in *. set (mx := fold_left Nat.max lv l0) in *.
  assert (Hmn : In mn lv) by (destruct Hmn3 as [E|H]; [rewrite E; exact Hl0 | exact H]).
  assert (Hmx : In mx lv) by (destruct Hmx3 as [E|H]; [rewrite E; exact Hl0 | exact H]).
  clear Hmn3 Hmx3.
  assert (Hmx126 : mx <= 126) by (rewrite Forall_forall in HF; apply HF; exact Hmx).
  assert (Hmnmx : mn <= mx) by lia.
  destruct ((mn =? mx) && is_ltr mn) eqn:C.
  - (* all levels equal and even *)
    apply andb_true_iff in C as [C1 C2]. apply Nat.eqb_eq in C1. rewrite is_ltr_even in C2.
    rewrite l2_all_even; [reflexivity|].
    apply forallb_forall. intros l Hl.
    assert (l = mn) by (specialize (Hmn2 l Hl); specialize (Hmx2 l Hl); lia). now subst l.
  - destruct (level_lowest_ge_rtl mn) as [mn'|] eqn:LG.
    2:{ exfalso. apply lowest_ge_rtl_fails_iff in LG; [|lia].
        assert (mx = 126) by lia.
        rewrite LG in C. replace mx with 126 in C. vm_compute in C. discriminate. }
    apply lowest_ge_rtl_spec in LG as (G1 & G2 & G3 & G4); [|lia].
    assert (Hmn'1 : 1 <= mn') by lia.
    rewrite <- (start_fst lv).
    rewrite (rv_outer_spec lv mn' Hmn'1 (mx + 1 - mn') 130 mx (start lv) eq_refl);
      [| lia | apply start_inv].
    f_equal. unfold l2. destruct (lowest_odd lv) as [lo|] eqn:LO.
    + (* some odd level: the passes below the lowest odd level cancel in pairs *)
      apply lowest_odd_some in LO as (Ho & Hlo & Hmin).
      pose proof (odd_ge_1 lo Ho) as Hlo1.
      apply odd_true_mod in Ho.
      assert (mn <= lo <= mx) by (specialize (Hmn2 lo Hlo); specialize (Hmx2 lo Hlo); lia).
      assert (mn' <= lo) by (apply G4; lia).
      rewrite Kmax. fold mx. fold (start lv).
      rewrite l2_down_passes by exact Hlo1.
      f_equal.
      replace (mx + 1 - mn') with ((mx + 1 - lo) + 2 * ((lo - mn') / 2)) by lia.
      rewrite passes_app.
      apply (passes_cancel lv).
      * lia.
      * apply even_true_mod. lia.
      * intros l Hl Hol. specialize (Hmin l Hl Hol). lia.
      * apply inv_passes, start_inv.
    + (* no odd level: all passes cancel in pairs *)
      pose proof (lowest_odd_none lv LO) as Hev.
      pose proof (Hev mn Hmn) as Emn. apply odd_false_mod in Emn.
      pose proof (Hev mx Hmx) as Emx. apply odd_false_mod in Emx.
      assert (mn' = mn + 1) by (specialize (G4 (mn + 1)); lia).
      replace (mx + 1 - mn') with (2 * ((mx - mn) / 2)) by lia.
      rewrite (passes_cancel lv).
      * apply start_fst.
      * lia.
      * apply even_true_mod. exact Emx.
      * intros l Hl Hol. rewrite (Hev l Hl) in Hol. discriminate.
      * apply start_inv.
Qed.

Theorem reorder_visual_correct :
  forall lv, Forall (fun l => l <= 126) lv ->
  exists out,
    reorder_visual lv = Ok out /\
    length out = length lv /\
    Permutation out (seq 0 (length lv)) /\
    out = Spec.l2 lv /\
    (forallb Nat.even lv = true -> out = seq 0 (length lv)).
Proof.
  intros lv HF. exists (l2 lv).
  split; [apply reorder_visual_l2; exact HF|].
  split; [rewrite (Permutation_length (l2_perm lv)); apply seq_length|].
  split; [apply l2_perm|].
  split; [reflexivity | apply l2_all_even].
Qed.
