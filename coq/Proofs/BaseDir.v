(* Proofs/BaseDir.v — get_base_direction (lib.rs:1327-1348) against P1-P3 of the specification.
   The implementation's isolate counter is related to BD9 (matching_pdi) through an intermediate
   structural scanner [fs] over class lists. *)
From BidiVerif Require Import Base ConstsGen TablesGen ModelText ModelResolve ModelLine Spec Obs Judge Stmts.

(* ------------------------------------------------------------------ *)
(* 1. the implementation only looks at classes *)

Fixpoint bd_cls (full : bool) (lvl : nat) (cls : list bclass) : direction :=
  match cls with
  | [] => Mixed
  | c :: rest =>
    match c with
    | LRI | RLI | FSI => bd_cls full (S lvl) rest
    | PDI => bd_cls full (lvl - 1) rest
    | L => if lvl =? 0 then Ltr else bd_cls full lvl rest
    | R | AL => if lvl =? 0 then Rtl else bd_cls full lvl rest
    | B => if full then bd_cls full 0 rest else Mixed
    | _ => bd_cls full lvl rest
    end
  end.

Lemma base_direction_from_cls ds full cs :
  forall lvl, base_direction_from ds full lvl cs = bd_cls full lvl (map (ds_class ds) cs).
Proof.
  induction cs as [|c rest IH]; intros lvl; [reflexivity|].
  cbn [base_direction_from bd_cls map].
  destruct (ds_class ds c); rewrite ?IH; reflexivity.
Qed.

(* ------------------------------------------------------------------ *)
(* 2. a structural first-strong scanner with a depth counter *)

Fixpoint fs (d : nat) (l : list bclass) : option bclass :=
  match l with
  | [] => None
  | c :: t =>
    if is_init c then fs (S d) t
    else if c =c PDI then fs (d - 1) t
    else if is_strong c then (if d =? 0 then Some c else fs d t)
    else fs d t
  end.

Definition dir_of (o : option bclass) : direction :=
  match o with Some L => Ltr | Some _ => Rtl | None => Mixed end.

Lemma fs_strong l : forall d c, fs d l = Some c -> is_strong c = true.
Proof.
  induction l as [|x t IH]; intros d c H; [discriminate|].
  cbn [fs] in H.
  destruct (is_init x); [exact (IH _ _ H)|].
  destruct (x =c PDI); [exact (IH _ _ H)|].
  destruct (is_strong x) eqn:Hs; [|exact (IH _ _ H)].
  destruct (d =? 0); [|exact (IH _ _ H)].
  injection H as <-. exact Hs.
Qed.

(* the depth counter, started at d >= 1, returns to 0 exactly at the PDI found by BD9 *)
Lemma match_pdi_fs l : forall d j, 1 <= d ->
  match match_pdi_from l d j with
  | None => fs d l = None
  | Some k => j <= k /\ k < j + length l /\ fs d l = fs 0 (skipn (S (k - j)) l)
  end.
Proof.
  induction l as [|c t IH]; intros d j Hd; [reflexivity|].
  cbn [match_pdi_from fs length].
  destruct (is_init c) eqn:Hi.
  - specialize (IH (S d) (S j) ltac:(lia)).
    destruct (match_pdi_from t (S d) (S j)) as [k|]; [|exact IH].
    destruct IH as (H1 & H2 & H3).
    split; [lia|]. split; [lia|].
    replace (k - j) with (S (k - S j)) by lia. cbn [skipn]. exact H3.
  - destruct (c =c PDI) eqn:Hp.
    + destruct (d =? 1) eqn:Hd1.
      * apply Nat.eqb_eq in Hd1. subst d.
        split; [lia|]. split; [lia|].
        replace (j - j) with 0 by lia. reflexivity.
      * apply Nat.eqb_neq in Hd1.
        specialize (IH (d - 1) (S j) ltac:(lia)).
        destruct (match_pdi_from t (d - 1) (S j)) as [k|]; [|exact IH].
        destruct IH as (H1 & H2 & H3).
        split; [lia|]. split; [lia|].
        replace (k - j) with (S (k - S j)) by lia. cbn [skipn]. exact H3.
    + assert (E : fs d (c :: t) = fs d t).
      { cbn [fs]. rewrite Hi, Hp. destruct (is_strong c); [|reflexivity].
        destruct (d =? 0) eqn:E0; [apply Nat.eqb_eq in E0; lia | reflexivity]. }
      cbn [fs] in E. rewrite Hi, Hp in E. rewrite E.
      specialize (IH d (S j) Hd).
      destruct (match_pdi_from t d (S j)) as [k|]; [|exact IH].
      destruct IH as (H1 & H2 & H3).
      split; [lia|]. split; [lia|].
      replace (k - j) with (S (k - S j)) by lia. cbn [skipn]. exact H3.
Qed.

Lemma skipn_nth_error {A} (l : list A) : forall i c, nth_error l i = Some c -> skipn i l = c :: skipn (S i) l.
Proof.
  induction l as [|x t IH]; intros [|i] c H; try discriminate.
  - injection H as ->. reflexivity.
  - cbn [nth_error] in H. change (skipn i t = c :: skipn (S i) t). exact (IH _ _ H).
Qed.

Lemma skipn_skipn' {A} (l : list A) : forall y x, skipn x (skipn y l) = skipn (x + y) l.
Proof.
  induction l as [|h t IH]; intros y x.
  - rewrite !skipn_nil. reflexivity.
  - destruct y as [|y].
    + rewrite Nat.add_0_r. reflexivity.
    + rewrite Nat.add_succ_r. cbn [skipn]. apply IH.
Qed.

(* fuel S (hi - lo) suffices: every step advances the index *)
Lemma first_strong_fuel_fs fuel : forall cls i, S (length cls - i) <= fuel ->
  first_strong_fuel fuel cls i (length cls) = fs 0 (skipn i cls).
Proof.
  induction fuel as [|f IH]; intros cls i Hf; [lia|].
  cbn [first_strong_fuel].
  destruct (length cls <=? i) eqn:Hle.
  - apply Nat.leb_le in Hle. rewrite skipn_all2 by exact Hle. reflexivity.
  - apply Nat.leb_gt in Hle.
    destruct (nth_error cls i) as [c|] eqn:Hn.
    2:{ apply nth_error_None in Hn. lia. }
    rewrite (skipn_nth_error _ _ _ Hn). cbn [fs].
    destruct (is_strong c) eqn:Hs.
    + destruct c; try discriminate; reflexivity.
    + destruct (is_init c) eqn:Hi.
      * unfold matching_pdi.
        pose proof (match_pdi_fs (skipn (S i) cls) 1 (S i) (le_n 1)) as M.
        destruct (match_pdi_from (skipn (S i) cls) 1 (S i)) as [k|].
        -- destruct M as (M1 & M2 & M3). rewrite skipn_length in M2.
           assert (Hk : (length cls <=? k) = false) by (apply Nat.leb_gt; lia).
           rewrite Hk. rewrite IH by lia. rewrite M3, skipn_skipn'.
           replace (S (k - S i) + S i) with (S k) by lia. reflexivity.
        -- symmetry. exact M.
      * rewrite IH by lia.
        destruct (c =c PDI); reflexivity.
Qed.

Lemma first_strong_fs cls : first_strong cls 0 (length cls) = fs 0 cls.
Proof. unfold first_strong. rewrite first_strong_fuel_fs by lia. reflexivity. Qed.

Lemma spec_direction_fs p : spec_direction p = dir_of (fs 0 p).
Proof. unfold spec_direction, dir_of. rewrite first_strong_fs. reflexivity. Qed.

(* ------------------------------------------------------------------ *)
(* 3. the scanner state after a paragraph prefix *)

Definition Inv (cur : list bclass) (lvl : nat) : Prop := forall l', fs 0 (cur ++ l') = fs lvl l'.

Lemma Inv_nil : Inv [] 0.
Proof. intros l'. reflexivity. Qed.

Lemma Inv_step cur lvl c lvl' :
  Inv cur lvl -> (forall l', fs lvl (c :: l') = fs lvl' l') -> Inv (cur ++ [c]) lvl'.
Proof. intros H Hc l'. rewrite <- app_assoc. cbn [app]. rewrite H. apply Hc. Qed.

Lemma Inv_stuck cur lvl : Inv cur lvl -> spec_direction cur = Mixed.
Proof. intros H. rewrite spec_direction_fs. rewrite <- (app_nil_r cur), H. reflexivity. Qed.

Lemma Inv_found cur c a :
  Inv cur 0 -> is_strong c = true -> spec_direction ((cur ++ [c]) ++ a) = dir_of (Some c).
Proof.
  intros H Hs. rewrite spec_direction_fs, <- app_assoc. cbn [app]. rewrite H.
  destruct c; try discriminate; reflexivity.
Qed.

(* ------------------------------------------------------------------ *)
(* 4. paragraphs *)

Notation idc := (fun k : bclass => k).

Lemma split_head (l : list bclass) : forall cur, cur <> [] ->
  exists a rest, split_paragraphs_from idc cur l = (cur ++ a) :: rest.
Proof.
  induction l as [|x r IH]; intros cur Hc.
  - exists [], []. cbn [split_paragraphs_from]. rewrite app_nil_r.
    destruct cur; [contradiction | reflexivity].
  - cbn [split_paragraphs_from]. destruct (x =c B).
    + exists [x], (split_paragraphs_from idc [] r). reflexivity.
    + destruct (IH (cur ++ [x])) as (a & rest & E).
      { destruct cur; discriminate. }
      exists (x :: a), rest. rewrite E, <- app_assoc. reflexivity.
Qed.

Lemma snoc_nonnil {A} (cur : list A) x : cur ++ [x] <> [].
Proof. destruct cur; discriminate. Qed.

Definition first_dir (paras : list (list bclass)) : direction :=
  match paras with p :: _ => spec_direction p | [] => Mixed end.
Definition first_unmixed (paras : list (list bclass)) : direction :=
  match find (fun p => negb (dir_eqb (spec_direction p) Mixed)) paras with
  | Some p => spec_direction p
  | None => Mixed
  end.

Lemma first_dir_found cur c r :
  Inv cur 0 -> is_strong c = true ->
  first_dir (split_paragraphs_from idc (cur ++ [c]) r) = dir_of (Some c).
Proof.
  intros H Hs. destruct (split_head r (cur ++ [c]) (snoc_nonnil _ _)) as (a & rest & E).
  rewrite E. cbn [first_dir]. apply Inv_found; assumption.
Qed.

Lemma first_unmixed_found cur c r :
  Inv cur 0 -> is_strong c = true ->
  first_unmixed (split_paragraphs_from idc (cur ++ [c]) r) = dir_of (Some c).
Proof.
  intros H Hs. destruct (split_head r (cur ++ [c]) (snoc_nonnil _ _)) as (a & rest & E).
  rewrite E. unfold first_unmixed. cbn [find].
  pose proof (Inv_found _ _ a H Hs) as F.
  destruct c; try discriminate; rewrite F; cbn [dir_of dir_eqb negb]; exact F.
Qed.

Ltac inv_step H := apply (Inv_step _ _ _ _ H); intros l'; cbn [fs is_init is_strong ceq bclass_beq]; try reflexivity.

(* use_full_text = false: the first paragraph *)
Lemma bd_nonfull l : forall cur lvl, Inv cur lvl ->
  bd_cls false lvl l = first_dir (split_paragraphs_from idc cur l).
Proof.
  induction l as [|c r IH]; intros cur lvl H.
  - cbn [bd_cls split_paragraphs_from]. destruct cur as [|x cur']; [reflexivity|].
    cbn [first_dir]. symmetry. exact (Inv_stuck _ _ H).
  - destruct c; cbn [bd_cls split_paragraphs_from ceq bclass_beq];
      try (apply IH; inv_step H; fail).
    + (* AL *) destruct (lvl =? 0) eqn:E.
      * apply Nat.eqb_eq in E. subst lvl. rewrite first_dir_found by (auto). reflexivity.
      * apply IH. inv_step H. rewrite E. reflexivity.
    + (* B *) cbn [first_dir]. symmetry. apply (Inv_stuck _ lvl). inv_step H.
    + (* L *) destruct (lvl =? 0) eqn:E.
      * apply Nat.eqb_eq in E. subst lvl. rewrite first_dir_found by (auto). reflexivity.
      * apply IH. inv_step H. rewrite E. reflexivity.
    + (* R *) destruct (lvl =? 0) eqn:E.
      * apply Nat.eqb_eq in E. subst lvl. rewrite first_dir_found by (auto). reflexivity.
      * apply IH. inv_step H. rewrite E. reflexivity.
Qed.

(* use_full_text = true: the first paragraph whose direction is not Mixed *)
Lemma bd_full l : forall cur lvl, Inv cur lvl ->
  bd_cls true lvl l = first_unmixed (split_paragraphs_from idc cur l).
Proof.
  induction l as [|c r IH]; intros cur lvl H.
  - cbn [bd_cls split_paragraphs_from]. destruct cur as [|x cur']; [reflexivity|].
    unfold first_unmixed. cbn [find]. rewrite (Inv_stuck _ _ H). reflexivity.
  - destruct c; cbn [bd_cls split_paragraphs_from ceq bclass_beq];
      try (apply IH; inv_step H; fail).
    + (* AL *) destruct (lvl =? 0) eqn:E.
      * apply Nat.eqb_eq in E. subst lvl. rewrite first_unmixed_found by (auto). reflexivity.
      * apply IH. inv_step H. rewrite E. reflexivity.
    + (* B *) assert (S : spec_direction (cur ++ [B]) = Mixed).
      { apply (Inv_stuck _ lvl). inv_step H. }
      unfold first_unmixed. cbn [find]. rewrite S. cbn [dir_eqb negb].
      apply (IH [] 0 Inv_nil).
    + (* L *) destruct (lvl =? 0) eqn:E.
      * apply Nat.eqb_eq in E. subst lvl. rewrite first_unmixed_found by (auto). reflexivity.
      * apply IH. inv_step H. rewrite E. reflexivity.
    + (* R *) destruct (lvl =? 0) eqn:E.
      * apply Nat.eqb_eq in E. subst lvl. rewrite first_unmixed_found by (auto). reflexivity.
      * apply IH. inv_step H. rewrite E. reflexivity.
Qed.

(* ------------------------------------------------------------------ *)
(* 5. P3: the direction agrees with the auto-detected paragraph level *)

Lemma spec_direction_level p :
  (spec_direction p = Ltr -> Spec.para_level p None = 0) /\
  (spec_direction p = Rtl -> Spec.para_level p None = 1).
Proof.
  unfold spec_direction, para_level. rewrite first_strong_fs.
  destruct (fs 0 p) as [c|] eqn:E; [|split; discriminate].
  apply fs_strong in E.
  destruct c; try discriminate E; split; intros D; try discriminate D; reflexivity.
Qed.

(* ------------------------------------------------------------------ *)
Lemma C16_proof : C16_statement.
Proof.
  unfold C16_statement. intros e ds text. cbv zeta.
  unfold get_base_direction, split_paragraphs.
  rewrite !base_direction_from_cls.
  split; [exact (bd_nonfull _ [] 0 Inv_nil)|].
  split; [exact (bd_full _ [] 0 Inv_nil)|].
  intros p _. apply spec_direction_level.
Qed.
