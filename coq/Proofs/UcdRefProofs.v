(* Proofs/UcdRefProofs.v — C14 / C15 against the committed UCD 16.0 reference (UcdRef.v):
   the class lookup of the regenerated table equals the reference on EVERY code point (all N), and
   the bracket lookup equals the reference on every code point.  Method: a verified canonical form
   (drop class-L ranges, merge adjacent ranges of one class) preserves the lookup on every sorted,
   disjoint table; the canonical form of the regenerated table IS the reference (one vm_compute). *)
From BidiVerif Require Import Base ConstsGen TablesGen ModelText UcdRef RefDs Stmts Stmts6.
From BidiVerif.Proofs Require Import Tables.
Local Open Scope N_scope.

Definition entry := (N * N * bclass)%type.
Definition ld (tab : list entry) (c : N) : bclass :=
  match lookup_linear tab c with Some k => k | None => L end.

Definition optl (acc : option entry) : list entry := match acc with Some s => [s] | None => [] end.

Fixpoint canon (acc : option entry) (tab : list entry) : list entry :=
  match tab with
  | [] => optl acc
  | (lo, hi, k) :: r =>
    if k =c L then optl acc ++ canon None r
    else match acc with
         | Some (a, b, k') => if (k' =c k) && (b + 1 =? lo) then canon (Some (a, hi, k)) r
                              else (a, b, k') :: canon (Some (lo, hi, k)) r
         | None => canon (Some (lo, hi, k)) r
         end
  end.

Lemma lookup_above : forall (r : list entry) p c,
  sorted_disjoint_from (Some p) r = true -> c <= p -> lookup_linear r c = None.
Proof.
  induction r as [|[[lo hi] k] r IH]; intros p c H Hc; [reflexivity|].
  apply sdf_cons in H. destruct H as (Hle & Hp & Hr). cbn [above] in Hp.
  cbn [lookup_linear].
  destruct (lo <=? c) eqn:E1; [apply N.leb_le in E1; lia|]. cbn [andb].
  apply (IH hi); [exact Hr | lia].
Qed.

Lemma ld_cons lo hi k r c :
  ld ((lo, hi, k) :: r) c = if (lo <=? c) && (c <=? hi) then k else ld r c.
Proof. unfold ld. cbn [lookup_linear]. destruct ((lo <=? c) && (c <=? hi)); reflexivity. Qed.

Lemma ld_optl_app acc X c :
  ld (optl acc ++ X) c =
  match acc with
  | Some (a, b, k) => if (a <=? c) && (c <=? b) then k else ld X c
  | None => ld X c
  end.
Proof. destruct acc as [[[a b] k]|]; cbn [optl app]; [apply ld_cons | reflexivity]. Qed.

Lemma sdf_optl_app acc tab p :
  sorted_disjoint_from p (optl acc ++ tab) = true ->
  match acc with
  | Some (a, b, k) => a <= b /\ above p a /\ sorted_disjoint_from (Some b) tab = true
  | None => sorted_disjoint_from p tab = true
  end.
Proof.
  destruct acc as [[[a b] k]|]; cbn [optl app]; intros H; [|exact H].
  apply sdf_cons in H. exact H.
Qed.

Lemma sdf_weaken : forall (tab : list entry) p q,
  sorted_disjoint_from (Some p) tab = true -> q <= p -> sorted_disjoint_from (Some q) tab = true.
Proof.
  intros [|[[lo hi] k] r] p q H Hq; [reflexivity|].
  apply sdf_cons in H. destruct H as (Hle & Hp & Hr). cbn [above] in Hp.
  cbn [sorted_disjoint_from]. rewrite Hr.
  replace (lo <=? hi) with true by (symmetry; apply N.leb_le; lia).
  replace (q <? lo) with true by (symmetry; apply N.ltb_lt; lia). reflexivity.
Qed.

Lemma sdf_drop_prev : forall (tab : list entry) p,
  sorted_disjoint_from (Some p) tab = true -> sorted_disjoint_from None tab = true.
Proof.
  intros [|[[lo hi] k] r] p H; [reflexivity|].
  apply sdf_cons in H. destruct H as (Hle & _ & Hr).
  cbn [sorted_disjoint_from]. rewrite Hr.
  replace (lo <=? hi) with true by (symmetry; apply N.leb_le; lia). reflexivity.
Qed.

Lemma canon_ld : forall (tab : list entry) acc p c,
  sorted_disjoint_from p (optl acc ++ tab) = true ->
  ld (canon acc tab) c = ld (optl acc ++ tab) c.
Proof.
  induction tab as [|[[lo hi] k] r IH]; intros acc p c H.
  - cbn [canon]. rewrite app_nil_r. reflexivity.
  - cbn [canon]. destruct (k =c L) eqn:Ek.
    + apply ceq_eq in Ek. subst k.
      rewrite !ld_optl_app.
      assert (Hr : exists q, sorted_disjoint_from q ((lo, hi, L) :: r) = true).
      { apply sdf_optl_app in H. destruct acc as [[[a b] k']|]; [destruct H as (_ & _ & H); eauto | eauto]. }
      destruct Hr as (q & Hr). apply sdf_cons in Hr. destruct Hr as (Hle & _ & Hr).
      assert (E : ld (canon None r) c = ld ((lo, hi, L) :: r) c).
      { rewrite (IH None None c) by (cbn [optl app]; eapply sdf_drop_prev; exact Hr).
        cbn [optl app]. rewrite ld_cons.
        destruct ((lo <=? c) && (c <=? hi)) eqn:Ein; [|reflexivity].
        apply andb_true_iff in Ein. destruct Ein as [_ E2]. apply N.leb_le in E2.
        unfold ld. rewrite (lookup_above r hi c Hr E2). reflexivity. }
      rewrite E. reflexivity.
    + destruct acc as [[[a b] k']|].
      * cbn [optl app] in H. apply sdf_cons in H. destruct H as (Hab & Hpa & H).
        apply sdf_cons in H. destruct H as (Hle & Hb & Hr). cbn [above] in Hb.
        destruct ((k' =c k) && (b + 1 =? lo)) eqn:Em.
        -- apply andb_true_iff in Em. destruct Em as [Ekk Eb]. apply ceq_eq in Ekk. apply N.eqb_eq in Eb. subst k'.
           rewrite (IH (Some (a, hi, k)) p c).
           2:{ cbn [optl app sorted_disjoint_from]. rewrite Hr.
               replace (a <=? hi) with true by (symmetry; apply N.leb_le; lia).
               destruct p as [q|]; cbn [above] in Hpa; [|reflexivity].
               replace (q <? a) with true by (symmetry; apply N.ltb_lt; lia). reflexivity. }
           cbn [optl app]. rewrite !ld_cons.
           destruct (a <=? c) eqn:E1, (c <=? b) eqn:E2, (lo <=? c) eqn:E3, (c <=? hi) eqn:E4; cbn [andb]; try reflexivity;
             repeat match goal with
                    | H : (_ <=? _) = true |- _ => apply N.leb_le in H
                    | H : (_ <=? _) = false |- _ => apply N.leb_gt in H
                    end; lia.
        -- cbn [optl app]. rewrite !ld_cons.
           rewrite (IH (Some (lo, hi, k)) (Some b) c).
           2:{ cbn [optl app sorted_disjoint_from]. rewrite Hr.
               replace (lo <=? hi) with true by (symmetry; apply N.leb_le; lia).
               replace (b <? lo) with true by (symmetry; apply N.ltb_lt; lia). reflexivity. }
           cbn [optl app]. rewrite ld_cons. reflexivity.
      * cbn [optl app] in H |- *.
        rewrite (IH (Some (lo, hi, k)) p c) by (cbn [optl app]; exact H).
        cbn [optl app]. reflexivity.
Qed.

Lemma canon_class_table : canon None bidi_class_table = ucd16_class_table.
Proof. vm_compute. reflexivity. Qed.

(* C14, the reference clause: for EVERY code point *)
Theorem class_lookup_is_ucd16 : forall c : N, hardcoded_class c = ucd16_class c.
Proof.
  intros c. unfold hardcoded_class, ucd16_class.
  rewrite (bsearch_eq_linear bidi_class_table c class_table_sorted).
  change (ld bidi_class_table c = ld ucd16_class_table c).
  rewrite <- canon_class_table.
  symmetry. apply (canon_ld bidi_class_table None None c). exact class_table_sorted.
Qed.

Lemma ucd16_sorted : sorted_disjoint ucd16_class_table = true.
Proof. vm_compute. reflexivity. Qed.

(* ------------------------------------------------------------------ C15 *)
Lemma matched_none : forall (tab : list (N * N * option N)) c,
  ~ In c (pair_chars tab) -> matched_opening_bracket_in tab c = None.
Proof.
  induction tab as [|[[o cl] k] r IH]; intros c H; [reflexivity|].
  cbn [matched_opening_bracket_in].
  unfold pair_chars in H. cbn [flat_map fst snd app In] in H.
  destruct (o =? c) eqn:E1; [apply N.eqb_eq in E1; exfalso; apply H; left; exact E1|].
  destruct (cl =? c) eqn:E2; [apply N.eqb_eq in E2; exfalso; apply H; right; left; exact E2|].
  cbn [orb]. apply IH. intros Hin. apply H. right. right. exact Hin.
Qed.

Lemma assocN_none {A} : forall (l : list (N * A)) c, ~ In c (map fst l) -> assocN c l = None.
Proof.
  induction l as [|[x v] r IH]; intros c H; [reflexivity|].
  cbn [assocN]. cbn [map fst In] in H.
  destruct (x =? c) eqn:E; [apply N.eqb_eq in E; exfalso; apply H; left; exact E|].
  apply IH. intros Hin. apply H. right. exact Hin.
Qed.

Definition obr_eqb (a b : option (N * bool)) : bool :=
  match a, b with
  | Some (k1, o1), Some (k2, o2) => (k1 =? k2) && Bool.eqb o1 o2
  | None, None => true
  | _, _ => false
  end.
Lemma obr_eqb_eq a b : obr_eqb a b = true -> a = b.
Proof.
  destruct a as [[k1 o1]|], b as [[k2 o2]|]; cbn [obr_eqb]; intros H; try discriminate; [|reflexivity].
  apply andb_true_iff in H. destruct H as [H1 H2]. apply N.eqb_eq in H1. apply Bool.eqb_prop in H2. congruence.
Qed.

Definition all_bracket_chars : list N := pair_chars bidi_pairs_table ++ map fst ucd16_brackets.

Lemma brackets_listed_agree :
  forallb (fun c => obr_eqb (hardcoded_bracket c) (assocN c ucd16_brackets)) all_bracket_chars = true.
Proof. vm_compute. reflexivity. Qed.

(* C15, the reference clause: for EVERY code point *)
Theorem bracket_lookup_is_ucd16 : forall c : N, hardcoded_bracket c = ucd16_bracket c.
Proof.
  intros c. unfold ucd16_bracket.
  destruct (in_dec N.eq_dec c all_bracket_chars) as [Hin|Hout].
  - apply obr_eqb_eq. exact (proj1 (forallb_forall _ _) brackets_listed_agree c Hin).
  - unfold all_bracket_chars in Hout.
    unfold hardcoded_bracket.
    rewrite matched_none by (intros H; apply Hout; apply in_or_app; left; exact H).
    rewrite assocN_none by (intros H; apply Hout; apply in_or_app; right; exact H).
    reflexivity.
Qed.

(* the reference itself: 128 bracket characters, no character twice *)
Lemma ucd16_brackets_count : length ucd16_brackets = 128%nat.
Proof. reflexivity. Qed.

Theorem C14_reference : C14_reference_statement.
Proof. split; [exact ucd16_sorted | exact class_lookup_is_ucd16]. Qed.
Theorem C15_reference : C15_reference_statement.
Proof. exact bracket_lookup_is_ucd16. Qed.
