(* Proofs/C13Spec.v — C13 "isolates isolate" at the level of the specification: entry point.
   The proof is split over
     C13Explicit.v  part A (P2/P3, X1-X8): paragraph level, explicit levels and classes outside the pair
     C13Runs.v      general facts about BD7 level runs and BD13 chains of Spec.v
     C13Text.v      remaining positions and BD9 matching for a text  prefix ++ [ini] ++ c ++ [PDI] ++ suffix
     C13Seqs.v      level runs / continuations / chains / isolating run sequences of the text with content c
                    against the text with empty content
     C13Full.v      X10, W, N, I on the sequences outside the pair and the resolved levels (part B). *)
From BidiVerif Require Import Base ConstsGen TablesGen ModelText ModelResolve ModelLine Spec Obs Judge StageRel
     Stmts Stmts2 Stmts3 Stmts4 Stmts5 Stmts6 Stmts7.
From BidiVerif.Proofs Require Export C13Explicit C13Runs C13Text C13Seqs C13Full.

Lemma c13_explicit_spec_proof : C13_explicit.
Proof. exact c13_explicit_proof. Qed.

Lemma c13_full_spec_proof : C13_full.
Proof. exact c13_full_proof. Qed.
