(* Proofs/C13Text.v — C13 part B, text-level facts: remaining positions, matching PDIs and levels of a
   text  prefix ++ [ini] ++ c ++ [PDI] ++ suffix  with balanced content c. *)
From BidiVerif Require Import Base ConstsGen TablesGen ModelText ModelResolve ModelLine Spec Obs Judge StageRel
     Stmts Stmts2 Stmts3 Stmts4 Stmts5 Stmts6 Stmts7.
From BidiVerif.Proofs Require Import BaseDir InitialInfo C13Explicit C13Runs.

(* ------------------------------------------------------------------ *)
(* remaining positions of a concatenation *)
Lemma filter_seq_shift (p : nat -> bool) a n : forall s,
  filter p (seq (a + s) n) = map (fun i => a + i) (filter (fun i => p (a + i)) (seq s n)).
Proof.
  induction n as [|n IH]; intros s; [reflexivity|].
  cbn [seq filter]. replace (S (a + s)) with (a + S s) by lia. rewrite IH.
  destruct (p (a + s)); reflexivity.
Qed.

Lemma remaining_app a b :
  remaining (a ++ b) = remaining a ++ map (fun i => length a + i) (remaining b).
Proof.
  unfold remaining. rewrite app_length, seq_app, filter_app. f_equal.
  - apply filter_ext_in. intros i Hi. apply in_seq in Hi. unfold snth. rewrite app_nth1 by lia. reflexivity.
  - cbn [Nat.add].
    match goal with |- filter ?p _ = _ =>
      pose proof (filter_seq_shift p (length a) (length b) 0) as F end.
    rewrite Nat.add_0_r in F. rewrite F. f_equal.
    apply filter_ext. intros i. unfold snth. rewrite app_nth2 by lia.
    replace (length a + i - length a) with i by lia. reflexivity.
Qed.

Lemma remaining_lt cls i : In i (remaining cls) -> i < length cls /\ is_removed (snth cls i BN) = false.
Proof.
  unfold remaining. intros H. apply filter_In in H. destruct H as [H1 H2]. apply in_seq in H1.
  split; [lia|]. destruct (is_removed _); [discriminate|reflexivity].
Qed.

Lemma remaining_single x : is_removed x = false -> remaining [x] = [0].
Proof. intros H. unfold remaining. cbn [length seq filter snth nth]. rewrite H. reflexivity. Qed.

(* ------------------------------------------------------------------ *)
(* BD9 over concatenations *)
Fixpoint dep (l : list bclass) (d : nat) : nat :=
  match l with
  | [] => d
  | c :: t => if is_init c then dep t (S d) else if c =c PDI then dep t (d - 1) else dep t d
  end.

Lemma mp_app A : forall B d j,
  match_pdi_from (A ++ B) d j =
  match match_pdi_from A d j with
  | Some k => Some k
  | None => match_pdi_from B (dep A d) (j + length A)
  end.
Proof.
  induction A as [|x A IH]; intros B d j.
  - cbn [app match_pdi_from dep length]. rewrite Nat.add_0_r. reflexivity.
  - cbn [app match_pdi_from dep length]. replace (j + S (length A)) with (S j + length A) by lia.
    destruct (is_init x); [apply IH|]. destruct (x =c PDI); [|apply IH].
    destruct (d =? 1); [reflexivity|apply IH].
Qed.

Lemma mp_none_dep A : forall d j, 1 <= d -> match_pdi_from A d j = None -> 1 <= dep A d.
Proof.
  induction A as [|x A IH]; intros d j Hd H; [exact Hd|].
  cbn [match_pdi_from dep] in *. destruct (is_init x); [apply (IH (S d) (S j)); [lia|exact H]|].
  destruct (x =c PDI); [|apply (IH _ _ Hd H)].
  destruct (d =? 1) eqn:E; [discriminate|]. apply Nat.eqb_neq in E. apply (IH (d - 1) (S j)); [lia|exact H].
Qed.

Lemma mp_lt A : forall d j k, match_pdi_from A d j = Some k -> k < j + length A.
Proof.
  induction A as [|x A IH]; intros d j k H; [discriminate|].
  cbn [match_pdi_from length] in *.
  destruct (is_init x); [apply IH in H; lia|].
  destruct (x =c PDI); [|apply IH in H; lia].
  destruct (d =? 1); [injection H as <-; lia|apply IH in H; lia].
Qed.

Lemma mp_shift A a : forall d j,
  match_pdi_from A d (j + a) = option_map (fun k => k + a) (match_pdi_from A d j).
Proof.
  induction A as [|x A IH]; intros d j; [reflexivity|].
  cbn [match_pdi_from]. change (S (j + a)) with (S j + a).
  destruct (is_init x); [apply IH|]. destruct (x =c PDI); [|apply IH].
  destruct (d =? 1); [reflexivity|apply IH].
Qed.

(* an initiator inside balanced content is matched inside it *)
Lemma mp_inside post : forall k d j rest, iso_bal (k + d) post = true -> 1 <= d ->
  exists j', match_pdi_from (post ++ rest) d j = Some j' /\ j' < j + length post.
Proof.
  induction post as [|x post IH]; intros k d j rest Hb Hd.
  - cbn [iso_bal] in Hb. apply Nat.eqb_eq in Hb. lia.
  - cbn [iso_bal] in Hb. cbn [app match_pdi_from length].
    destruct (is_init x).
    + destruct (IH k (S d) (S j) rest) as (j' & H1 & H2); [replace (k + S d) with (S (k + d)) by lia; exact Hb|lia|].
      exists j'. split; [exact H1|lia].
    + destruct (x =c PDI).
      * destruct (d =? 1) eqn:E; [exists j; split; [reflexivity|lia]|].
        apply Nat.eqb_neq in E. destruct (k + d) as [|kd] eqn:Ekd; [discriminate|].
        destruct (IH k (d - 1) (S j) rest) as (j' & H1 & H2); [replace (k + (d - 1)) with kd by lia; exact Hb|lia|].
        exists j'. split; [exact H1|lia].
      * destruct (IH k d (S j) rest Hb Hd) as (j' & H1 & H2). exists j'. split; [exact H1|lia].
Qed.

Lemma iso_bal_app a : forall k b, iso_bal k (a ++ b) = true -> exists k', iso_bal k' b = true.
Proof.
  induction a as [|x a IH]; intros k b H; [exists k; exact H|].
  cbn [app iso_bal] in H. destruct (is_init x); [apply IH in H; exact H|].
  destruct (x =c PDI); [destruct k; [discriminate|apply IH in H; exact H]|apply IH in H; exact H].
Qed.

(* ------------------------------------------------------------------ *)
(* levels of characters that X9 keeps are defined *)
Lemma x_step_level_some cls0 pl s i c0 :
  is_removed c0 = false -> snd (fst (x_step cls0 pl s i c0)) <> None.
Proof.
  intros H. unfold x_step. destruct (top_of (x_stack s) pl) as [[tl to] tb].
  destruct c0; try discriminate H; cbn [ceq bclass_beq fst snd]; try discriminate.
  - destruct (fsi_strong cls0 i) as [[]|]; cbn [fst snd]; discriminate.
  - destruct (top_of _ pl) as [[tl2 to2] tb2]. cbn [fst snd]. discriminate.
Qed.

Lemma x_run_level_some cls0 pl l : forall s i k,
  k < length l -> is_removed (nth k l BN) = false -> nth k (fst (x_run cls0 pl s i l)) None <> None.
Proof.
  induction l as [|c r IH]; intros s i k Hk H; [cbn in Hk; lia|].
  rewrite x_run_cons. cbn [fst]. destruct k as [|k]; cbn [nth] in *.
  - apply x_step_level_some. exact H.
  - apply IH; [cbn [length] in Hk; lia|exact H].
Qed.

(* ------------------------------------------------------------------ *)
(* the position map: positions of the text with empty content -> positions of the text with content c *)
Definition fo (np m j : nat) : nat := if j <=? np then j else j + m.

Lemma fo_le np m j : j <= np -> fo np m j = j.
Proof. intros H. unfold fo. apply Nat.leb_le in H. rewrite H. reflexivity. Qed.
Lemma fo_gt np m j : np < j -> fo np m j = j + m.
Proof. intros H. unfold fo. apply Nat.leb_gt in H. rewrite H. reflexivity. Qed.
Lemma fo_0 np m : fo np m 0 = 0.
Proof. apply fo_le. lia. Qed.
Lemma fo_mono np m x y : x < y -> fo np m x < fo np m y.
Proof. intros H. unfold fo. destruct (x <=? np) eqn:E1, (y <=? np) eqn:E2;
  try apply Nat.leb_le in E1; try apply Nat.leb_le in E2; try apply Nat.leb_gt in E1; try apply Nat.leb_gt in E2; lia. Qed.
Lemma fo_inj np m x y : fo np m x = fo np m y -> x = y.
Proof.
  intros H. destruct (Nat.lt_trichotomy x y) as [L|[E|L]]; [|exact E|];
    apply (fo_mono np m) in L; lia.
Qed.
Lemma fo_range np m j : fo np m j <= np \/ np + 1 + m <= fo np m j.
Proof. unfold fo. destruct (j <=? np) eqn:E; [apply Nat.leb_le in E|apply Nat.leb_gt in E]; lia. Qed.
Lemma fo_le_iff np m j : fo np m j <= np <-> j <= np.
Proof. unfold fo. destruct (j <=? np) eqn:E; [apply Nat.leb_le in E|apply Nat.leb_gt in E]; lia. Qed.

Section PairText.
Variables (prefix suffix c : list bclass) (ini : bclass).
Hypothesis Hini : ini = LRI \/ ini = RLI.
Hypothesis Hbal : iso_bal 0 c = true.

Let np := length prefix.
Let m := length c.
Let q := np + 1 + m.
Let T := txt prefix ini c suffix.
Let T0 := txt prefix ini [] suffix.
Let f := fo np m.

Lemma ini_init : is_init ini = true.
Proof. destruct Hini as [-> | ->]; reflexivity. Qed.
Lemma ini_not_removed : is_removed ini = false.
Proof. destruct Hini as [-> | ->]; reflexivity. Qed.

Lemma T_nth {A} (P : list A) a C b D d j : length P = np -> length C = m ->
  nth (f j) (P ++ [a] ++ C ++ [b] ++ D) d = nth j (P ++ [a] ++ [] ++ [b] ++ D) d.
Proof.
  intros H1 H2. unfold f, fo. rewrite <- H1, <- H2. apply (nth_outside P a C b D d j).
Qed.

Lemma T_snth d j : snth T (f j) d = snth T0 j d.
Proof. unfold snth, T, T0, txt. apply T_nth; reflexivity. Qed.

Lemma remaining_T :
  remaining T = remaining prefix ++ [np] ++ map (fun i => np + 1 + i) (remaining c) ++ [q]
                ++ map (fun i => q + 1 + i) (remaining suffix).
Proof.
  unfold T, txt. rewrite !remaining_app.
  rewrite (remaining_single ini ini_not_removed), (remaining_single PDI eq_refl).
  rewrite !map_app, !map_map. cbn [map length]. fold np. fold m.
  f_equal. f_equal; [f_equal; lia|]. f_equal; [apply map_ext; intros; lia|].
  f_equal; [f_equal; unfold q; lia|]. apply map_ext. intros. unfold q. lia.
Qed.

Lemma mp_pair d j : 1 <= d ->
  match_pdi_from (ini :: c ++ PDI :: suffix) d j = match_pdi_from suffix d (j + 2 + m).
Proof.
  intros Hd. cbn [match_pdi_from]. rewrite ini_init.
  pose proof (mp_bal c 0 (S d) (S j) (PDI :: suffix) Hbal ltac:(lia)) as Eb. cbn [Nat.add] in Eb. rewrite Eb.
  cbn [match_pdi_from is_init ceq bclass_beq].
  assert (E : (S d =? 1) = false) by (apply Nat.eqb_neq; lia). rewrite E.
  f_equal; [lia|fold m; lia].
Qed.

Lemma matching_ini : matching_pdi T np = Some q.
Proof.
  unfold matching_pdi, T, txt.
  rewrite skipn_app_ge by (fold np; lia). fold np. replace (S np - np) with 1 by lia.
  cbn [app skipn].
  pose proof (mp_bal c 0 1 (S np) (PDI :: suffix) Hbal ltac:(lia)) as Eb. cbn [Nat.add] in Eb. rewrite Eb.
  cbn [match_pdi_from is_init ceq bclass_beq Nat.eqb]. f_equal. unfold q. fold m. lia.
Qed.
End PairText.

Lemma iso_bal_nil : iso_bal 0 [] = true.
Proof. reflexivity. Qed.

Section PairText2.
Variables (prefix suffix c : list bclass) (ini : bclass).
Hypothesis Hini : ini = LRI \/ ini = RLI.
Hypothesis Hbal : iso_bal 0 c = true.

Let np := length prefix.
Let m := length c.
Let q := np + 1 + m.
Let T := txt prefix ini c suffix.
Let T0 := txt prefix ini [] suffix.
Let f := fo np m.

(* initiators of the prefix *)
Lemma matching_prefix_gen cc l : iso_bal 0 cc = true -> l < np ->
  matching_pdi (txt prefix ini cc suffix) l =
  match match_pdi_from (skipn (S l) prefix) 1 (S l) with
  | Some k => Some k
  | None => match_pdi_from suffix (dep (skipn (S l) prefix) 1) (np + 2 + length cc)
  end.
Proof.
  intros Hb Hl. unfold matching_pdi, txt. rewrite skipn_app_lt by (fold np; lia).
  cbn [app]. rewrite mp_app.
  destruct (match_pdi_from (skipn (S l) prefix) 1 (S l)) eqn:E; [reflexivity|].
  rewrite (mp_pair prefix suffix cc ini Hini Hb) by (apply (mp_none_dep _ 1 (S l)); [lia|exact E]).
  f_equal. rewrite skipn_length. fold np. lia.
Qed.

Lemma matching_outside l : l <> np ->
  matching_pdi T (f l) = option_map f (matching_pdi T0 l) /\ matching_pdi T0 l <> Some (np + 1).
Proof.
  intros Hl. destruct (Nat.lt_ge_cases l np) as [Hlt|Hge].
  - unfold f. rewrite fo_le by lia. unfold T, T0.
    rewrite (matching_prefix_gen c l Hbal Hlt), (matching_prefix_gen [] l iso_bal_nil Hlt).
    destruct (match_pdi_from (skipn (S l) prefix) 1 (S l)) as [k|] eqn:E.
    + apply mp_lt in E. rewrite skipn_length in E. fold np in E. cbn [option_map].
      rewrite fo_le by lia. split; [reflexivity|]. intros H. injection H as H. lia.
    + cbn [length]. fold m. rewrite (mp_shift suffix m). rewrite Nat.add_0_r.
      destruct (match_pdi_from suffix (dep (skipn (S l) prefix) 1) (np + 2)) as [k|] eqn:E2; cbn [option_map].
      * apply mp_ge in E2. rewrite fo_gt by lia. split; [reflexivity|]. intros H. injection H as H. lia.
      * split; [reflexivity|discriminate].
  - assert (Hk : l = np + 1 + (l - np - 1)) by lia. generalize dependent (l - np - 1). intros k Hk. subst l.
    unfold f. rewrite fo_gt by lia. unfold matching_pdi, T, T0, txt.
    replace (prefix ++ [ini] ++ c ++ [PDI] ++ suffix) with ((prefix ++ [ini] ++ c ++ [PDI]) ++ suffix)
      by (rewrite <- !app_assoc; reflexivity).
    replace (prefix ++ [ini] ++ [] ++ [PDI] ++ suffix) with ((prefix ++ [ini] ++ [PDI]) ++ suffix)
      by (rewrite <- !app_assoc; reflexivity).
    rewrite !skipn_app_ge by (rewrite !app_length; cbn [length]; fold np; fold m; lia).
    rewrite !app_length. cbn [length]. fold np. fold m.
    replace (S (np + 1 + k + m) - (np + (1 + (m + 1)))) with k by lia.
    replace (S (np + 1 + k) - (np + (1 + 1))) with k by lia.
    replace (S (np + 1 + k + m)) with (S (np + 1 + k) + m) by lia. rewrite mp_shift.
    destruct (match_pdi_from (skipn k suffix) 1 (S (np + 1 + k))) as [j|] eqn:E; cbn [option_map].
    + apply mp_ge in E. rewrite fo_gt by lia. split; [reflexivity|]. intros H. injection H as H. lia.
    + split; [reflexivity|discriminate].
Qed.

(* initiators of the content *)
Lemma matching_content l : np < l -> l < q -> is_init (snth T l ON) = true ->
  exists j, matching_pdi T l = Some j /\ l < j /\ j < q.
Proof.
  intros H1 H2 Hi.
  assert (Hk : l = np + 1 + (l - np - 1)) by lia. generalize dependent (l - np - 1). intros k Hk. subst l.
  assert (Hkm : k < m) by (unfold q in H2; lia).
  unfold snth, T, txt in Hi. rewrite app_nth2 in Hi by (fold np; lia). fold np in Hi.
  replace (np + 1 + k - np) with (S k) in Hi by lia. cbn [app nth] in Hi.
  rewrite app_nth1 in Hi by (fold m; lia).
  (* split the content at k *)
  destruct (nth_split c ON Hkm) as (pre & post & Ec & Hpre).
  set (x := nth k c ON) in *.
  assert (Hb' : exists k', iso_bal (S k') post = true).
  { pose proof Hbal as Hb. rewrite Ec in Hb. apply iso_bal_app in Hb. destruct Hb as (k' & Hb).
    exists k'. cbn [iso_bal] in Hb. rewrite Hi in Hb. exact Hb. }
  destruct Hb' as (k' & Hb').
  unfold matching_pdi, T, txt.
  replace (prefix ++ [ini] ++ c ++ [PDI] ++ suffix) with ((prefix ++ [ini] ++ pre ++ [x]) ++ post ++ PDI :: suffix)
    by (rewrite Ec, <- !app_assoc; reflexivity).
  rewrite skipn_app_ge by (rewrite !app_length; cbn [length]; fold np; lia).
  replace (S (np + 1 + k) - length (prefix ++ [ini] ++ pre ++ [x])) with 0
    by (rewrite !app_length; cbn [length]; fold np; lia).
  cbn [skipn].
  destruct (mp_inside post k' 1 (S (np + 1 + k)) (PDI :: suffix)) as (j' & E1 & E2);
    [replace (k' + 1) with (S k') by lia; exact Hb'|lia|].
  exists j'. split; [exact E1|]. apply mp_ge in E1. split; [lia|].
  assert (Hm : m = k + 1 + length post).
  { unfold m. rewrite Ec, app_length. cbn [length]. lia. }
  unfold q. lia.
Qed.
End PairText2.
