(* Proofs/Finals2.v — FINAL-FORM theorems, second group: C03 (reordered_levels and
   reordered_levels_per_char are rule L1 applied to the line's characters), for every valid case. *)
From BidiVerif Require Import Base ConstsGen TablesGen ModelText ModelResolve ModelLine Spec Obs Judge
     Stmts Stmts2 Stmts3 Stmts4 Stmts5 Stmts6.
From BidiVerif.Proofs Require Import L1 TextView LIAssemble TotalAssemble LLLevels FinalsBase Finals1.
From Coq Require Import Lia.

(* ================================================================== *)
(* the characters of a line *)

Lemma chars_in_prefix : forall (chs : list (N * nat)) pos a j,
  Forall (fun ch : N * nat => 0 < snd ch) chs ->
  a <= pos -> j <= length chs ->
  chars_in pos a (pos + ustart (map snd chs) j) chs = Some (firstn j chs).
Proof.
  induction chs as [|ch rest IH]; intros pos a j HF Ha Hj; cbn [length] in Hj.
  - assert (j = 0) by lia. subst j. cbn [map chars_in firstn]. rewrite la_ustart_0, Nat.add_0_r, Nat.eqb_refl.
    reflexivity.
  - inversion HF as [|x y Hpos HF']; subst x y.
    cbn [chars_in map]. assert (E1 : (pos <? a) = false) by (apply Nat.ltb_ge; lia). rewrite E1.
    destruct j as [|j].
    + rewrite la_ustart_0, Nat.add_0_r, Nat.ltb_irrefl. reflexivity.
    + rewrite la_ustart_S.
      assert (E2 : (pos <? pos + (snd ch + ustart (map snd rest) j)) = true) by (apply Nat.ltb_lt; lia).
      assert (E3 : (pos + (snd ch + ustart (map snd rest) j) <? pos + snd ch) = false)
        by (apply Nat.ltb_ge; lia).
      rewrite E2, E3, Nat.add_assoc, (IH (pos + snd ch) a j HF' ltac:(lia) ltac:(lia)).
      reflexivity.
Qed.

Lemma chars_in_sub : forall (chs : list (N * nat)) pos i j,
  Forall (fun ch : N * nat => 0 < snd ch) chs ->
  i <= j -> j <= length chs ->
  chars_in pos (pos + ustart (map snd chs) i) (pos + ustart (map snd chs) j) chs = Some (sub chs i j).
Proof.
  induction chs as [|ch rest IH]; intros pos i j HF Hij Hj; cbn [length] in Hj.
  - assert (j = 0) by lia. assert (i = 0) by lia. subst i j.
    cbn [map chars_in]. rewrite la_ustart_0, Nat.add_0_r, Nat.eqb_refl. reflexivity.
  - destruct i as [|i].
    + rewrite la_ustart_0, Nat.add_0_r. unfold sub. rewrite Nat.sub_0_r. cbn [skipn].
      apply chars_in_prefix; [exact HF | lia | cbn [length]; lia].
    + destruct j as [|j]; [lia|].
      inversion HF as [|x y Hpos HF']; subst x y.
      cbn [chars_in map]. rewrite !la_ustart_S.
      assert (E1 : (pos <? pos + (snd ch + ustart (map snd rest) i)) = true) by (apply Nat.ltb_lt; lia).
      assert (E2 : (pos + (snd ch + ustart (map snd rest) i) <? pos + snd ch) = false)
        by (apply Nat.ltb_ge; lia).
      rewrite E1, E2, !Nat.add_assoc, (IH (pos + snd ch) i j HF' ltac:(lia) ltac:(lia)).
      reflexivity.
Qed.

(* sampling an expansion at the character starts *)
Lemma at_starts_expand_from {A} : forall (lens : list nat) (v pre : list A),
  Forall (fun n => 0 < n) lens -> length v = length lens ->
  map (nth_error (pre ++ expand lens v)) (starts_from (length pre) lens) = map Some v.
Proof.
  induction lens as [|l lens IH]; intros [|x v] pre HF Hv; cbn [length] in Hv; try discriminate; [reflexivity|].
  inversion HF as [|a b Hl HF']; subst a b.
  cbn [starts_from map]. rewrite la_expand_cons. f_equal.
  - rewrite nth_error_app2 by lia. rewrite Nat.sub_diag. destruct l as [|l]; [lia|]. reflexivity.
  - replace (length pre + l) with (length (pre ++ repeat x l))
      by (rewrite app_length, repeat_length; reflexivity).
    rewrite (app_assoc pre (repeat x l)). apply IH; [exact HF' | lia].
Qed.

Lemma at_starts_expand {A} (lens : list nat) (v : list A) :
  Forall (fun n => 0 < n) lens -> length v = length lens ->
  at_starts lens (expand lens v) = map Some v.
Proof. intros HF Hv. exact (at_starts_expand_from lens v [] HF Hv). Qed.

Lemma seg_expand {A} lens (v : list A) i j : i <= j -> j <= length v -> j <= length lens ->
  firstn (ustart lens j - ustart lens i) (skipn (ustart lens i) (expand lens v))
  = expand (sub lens i j) (sub v i j).
Proof.
  intros Hij Hv Hl. pose proof (la_slice_expand 0 lens v i j Hij Hv Hl) as H.
  unfold slice in H. destruct (_ && _); [|discriminate]. injection H as H. exact H.
Qed.

Lemma opt_eqb2_Some (l : list nat) : list_eqb2 opt_nat_eqb (map Some l) l = true.
Proof.
  induction l as [|x t IH]; [reflexivity|]. cbn [map list_eqb2 opt_nat_eqb].
  rewrite Nat.eqb_refl, IH. reflexivity.
Qed.

Lemma forallb_Some {A} (l : list A) :
  forallb (fun x : option A => match x with Some _ => true | None => false end) (map Some l) = true.
Proof. induction l as [|x t IH]; [reflexivity|]. cbn [map forallb]. exact IH. Qed.

Lemma map_dflt_Some (l : list nat) :
  map (fun x : option nat => match x with Some l => l | None => 0 end) (map Some l) = l.
Proof. induction l as [|x t IH]; [reflexivity|]. cbn [map]. rewrite IH. reflexivity. Qed.

(* ================================================================== *)
(* the expected L1 vector of the judge, on a valid line *)

Section PerLine.
Variable c : tcase.
Let e := tc_enc c.
Let text := tc_text c.
Let chars := view_of e text.
Let lens := map snd chars.
Hypothesis Hvalid : valid_text e text.
Variables (cls : list bclass) (lv : list nat) (pl i j : nat).
Hypothesis Hc : length cls = length chars.
Hypothesis Hl : length lv = length chars.
Hypothesis Hij : i < j.
Hypothesis Hj : j <= length chars.
Hypothesis Hpl : pl <= 126.
Hypothesis Hk : map kgroup cls = map kgroup (map (ds_class (tc_ds c)) (map fst chars)).

Lemma f2_chars_pos : Forall (fun ch : N * nat => 0 < snd ch) chars.
Proof.
  pose proof (TotalAssemble.view_lens_pos e text Hvalid) as H. fold chars in H.
  apply Forall_forall. intros ch Hin. rewrite Forall_forall in H. apply H. apply in_map. exact Hin.
Qed.

Lemma f2_sub_lens_pos : Forall (fun n => 0 < n) (sub lens i j).
Proof. apply CLReorderLine.Forall_sub. exact (TotalAssemble.view_lens_pos e text Hvalid). Qed.

Lemma f2_line_cls :
  map kgroup (map (fun ch : N * nat => ds_class (tc_ds c) (fst ch)) (sub chars i j)) = map kgroup (sub cls i j).
Proof.
  rewrite <- !sub_map, Hk. rewrite !map_map. reflexivity.
Qed.

Lemma l1_expected_line :
  l1_expected c (expand lens lv) pl (the_line e text i j) = Some (the_LV e text cls lv pl i j).
Proof.
  assert (Hlk : length lens = length chars) by (unfold lens; apply map_length).
  unfold l1_expected, the_line. fold chars lens.
  rewrite case_chars_view. fold e text chars.
  pose proof (chars_in_sub chars 0 i j f2_chars_pos ltac:(lia) Hj) as Hci.
  cbn [Nat.add] in Hci. fold lens in Hci. rewrite Hci.
  rewrite (seg_expand lens lv i j) by lia.
  rewrite <- (sub_map snd chars i j). fold lens.
  rewrite at_starts_expand.
  2: exact f2_sub_lens_pos.
  2: rewrite !sub_length by lia; reflexivity.
  rewrite forallb_Some, map_dflt_Some.
  rewrite (l1_kgroup pl _ (sub cls i j) (sub lv i j) f2_line_cls).
  f_equal. unfold the_LV, the_L. fold chars lens.
  apply expand_lline; lia.
Qed.

Lemma c03_line : line_l1_ok c (expand lens lv) pl (the_lo e text cls lv pl i j) = true.
Proof.
  unfold line_l1_ok. rewrite fl_line, l1_expected_line.
  rewrite (fl_rl e text Hvalid cls lv pl i j Hc Hl Hij Hj Hpl).
  rewrite (fl_rlc e text Hvalid cls lv pl i j Hc Hl Hij Hj Hpl).
  unfold okb. rewrite nat_list_eqb_refl. cbn [andb].
  rewrite case_chars_view. fold e text chars lens.
  unfold the_LV. fold chars lens.
  assert (HL : length (the_L cls lv pl i j) = length chars)
    by (apply (fl_L_length e text cls lv pl i j Hc Hl Hij Hj Hpl)).
  rewrite at_starts_expand.
  2: exact (TotalAssemble.view_lens_pos e text Hvalid).
  2: rewrite HL; unfold lens; rewrite map_length; reflexivity.
  rewrite opt_eqb2_Some, HL, Nat.eqb_refl. reflexivity.
Qed.
End PerLine.

(* ================================================================== *)
Lemma c03_final_proof : C03_final.
Proof.
  intros c Hvc. destruct (case_analysis c Hvc) as (b' & p' & CA & Ebi & Epi).
  pose proof (fl_valid c Hvc) as Hv.
  unfold C03_judge. rewrite obs_bi, obs_pi, Ebi, Epi. unfold okb.
  apply andb_true_iff. split.
  - apply (bi_lines_forall c Hvc b' p' CA Ebi). intros i j pl Hij Hj Hpl Hlev.
    rewrite fl_line, Hlev. cbn [xbi bi_levels].
    apply c03_line; try assumption.
    + exact (ca_bi_cls c b' p' CA).
    + exact (ca_bi_lv c b' p' CA).
    + lia.
    + destruct CA as (_ & _ & _ & _ & _ & _ & H & _). exact H.
  - apply (pi_lines_forall c Hvc p' Epi). intros i j Hij Hj.
    cbn [xpi pb_levels pb_level].
    apply c03_line; try assumption.
    + exact (ca_pi_cls c b' p' CA).
    + exact (ca_pi_lv c b' p' CA).
    + exact (ca_pi_level c b' p' CA).
    + destruct CA as (_ & _ & _ & _ & _ & _ & _ & _ & _ & _ & _ & _ & _ & H). exact H.
Qed.
