(* Proofs/CSNeutralN12.v — N1/N2: n12_loop (one shared iterator, X9-removed positions inside) against
   Spec.neutral on the live classes. *)
From BidiVerif Require Import Base ConstsGen TablesGen ModelText ModelResolve ModelLine Spec Obs Judge StageRel
     Stmts Stmts2 Stmts3 Stmts4.
From BidiVerif.Proofs Require Import TotalNeutral CSNeutralBase CSNeutralBD16 CSNeutralOps CSNeutralN0.

(* ------------------------------------------------------------------ *)
(* specification side *)

Definition norm (c : bclass) : bclass := match strong_dir c with Some d => d | None => c end.

Definition nd (eos : bclass) (r : list bclass) : bclass :=
  match r with [] => eos | x :: _ => if is_ni x then hd eos (next_dirs eos r) else norm x end.

Lemma next_dirs_cons eos c r : next_dirs eos (c :: r) = nd eos r :: next_dirs eos r.
Proof. destruct r; reflexivity. Qed.

Lemma nd_ni eos c r : is_ni c = true -> nd eos (c :: r) = nd eos r.
Proof. intros H. unfold nd at 1. rewrite H, next_dirs_cons. reflexivity. Qed.

Lemma nd_run eos nis r : Forall (fun c => is_ni c = true) nis -> nd eos (nis ++ r) = nd eos r.
Proof.
  induction nis as [|c nis IH]; intros H; [reflexivity|]. inversion H; subst. cbn [app].
  rewrite nd_ni by assumption. apply IH. assumption.
Qed.

Lemma n12_cons_ni ls e eos c r : is_ni c = true ->
  n12 ls e (c :: r) (next_dirs eos (c :: r)) = (if ls =c nd eos r then ls else e) :: n12 ls e r (next_dirs eos r).
Proof. intros H. rewrite next_dirs_cons. cbn [n12]. rewrite H. reflexivity. Qed.

Lemma n12_cons_strong ls e eos c r : is_ni c = false ->
  n12 ls e (c :: r) (next_dirs eos (c :: r)) = c :: n12 (norm c) e r (next_dirs eos r).
Proof. intros H. rewrite next_dirs_cons. cbn [n12]. rewrite H. reflexivity. Qed.

Lemma n12_run ls e eos nis r : Forall (fun c => is_ni c = true) nis ->
  n12 ls e (nis ++ r) (next_dirs eos (nis ++ r)) =
  map (fun _ => if ls =c nd eos r then ls else e) nis ++ n12 ls e r (next_dirs eos r).
Proof.
  induction nis as [|c nis IH]; intros H; [reflexivity|]. inversion H; subst. cbn [app map].
  rewrite n12_cons_ni by assumption. rewrite nd_run by assumption. rewrite IH by assumption. reflexivity.
Qed.

Fixpoint lead_after (lead : bclass) (t : list bclass) : bclass :=
  match t with [] => lead | c :: r => lead_after (if is_ni c then lead else norm c) r end.

Lemma lead_after_app lead t1 t2 : lead_after lead (t1 ++ t2) = lead_after (lead_after lead t1) t2.
Proof. revert lead; induction t1 as [|c t1 IH]; intros lead; [reflexivity|]. cbn [app lead_after]. apply IH. Qed.

Lemma lead_after_ni lead t : Forall (fun c => is_ni c = true) t -> lead_after lead t = lead.
Proof.
  induction t as [|c t IH]; intros H; [reflexivity|]. inversion H as [|c' t' Hc Ht]; subst.
  cbn [lead_after]. rewrite Hc. apply IH. exact Ht.
Qed.

Lemma n12_class_norm pm nx e : hasdir nx = true ->
  n12_class pm nx e = if norm pm =c norm nx then norm pm else e.
Proof. destruct nx; try discriminate; intros _; destruct pm; reflexivity. Qed.

Lemma norm_LR c : c = L \/ c = R -> norm c = c.
Proof. intros [-> | ->]; reflexivity. Qed.

Lemma hasdir_LR c : c = L \/ c = R -> hasdir c = true.
Proof. intros [-> | ->]; reflexivity. Qed.

Lemma nibn_live_ni c : nibn c = true -> alphab c = true -> is_ni c = true.
Proof. destruct c; cbn; congruence. Qed.

Lemma not_nibn_ni c : nibn c = false -> is_ni c = false.
Proof. unfold nibn. intros H. apply orb_false_iff in H as [H _]. exact H. Qed.

Lemma alpha_strong c : alphab c = true -> is_ni c = false -> hasdir c = true.
Proof. unfold alphab. intros H1 H2. rewrite H2 in H1. exact H1. Qed.

(* ------------------------------------------------------------------ *)
(* list helpers *)

Lemma find_app_none {A} (f : A -> bool) l1 l2 : (forall y, In y l1 -> f y = false) -> find f (l1 ++ l2) = find f l2.
Proof.
  induction l1 as [|x l1 IH]; intros H; [reflexivity|]. cbn [app find].
  rewrite (H x (or_introl eq_refl)). apply IH. intros y Hy. apply H. right; exact Hy.
Qed.

Lemma find_app_some {A} (f : A -> bool) l1 l2 : filter f l1 <> [] ->
  exists y, find f (l1 ++ l2) = Some y /\ In y l1 /\ f y = true.
Proof.
  induction l1 as [|x l1 IH]; intros H; [contradiction|]. cbn [app find]. cbn [filter] in H.
  destruct (f x) eqn:E.
  - exists x. split; [reflexivity|]. split; [left; reflexivity | exact E].
  - destruct (IH H) as (y & Hy & Hin & Hf). exists y. split; [exact Hy|]. split; [right; exact Hin | exact Hf].
Qed.

Lemma find_filter_hd {A} (f : A -> bool) l q : find f l = Some q -> exists tl, filter f l = q :: tl.
Proof.
  induction l as [|x l IH]; cbn [find filter]; [discriminate|]. destruct (f x).
  - intros [= ->]. eauto.
  - exact IH.
Qed.

Lemma map_const_eq {A B} (u v : B) (l : list A) : (l <> [] -> u = v) -> map (fun _ => u) l = map (fun _ => v) l.
Proof. destruct l as [|x l]; [reflexivity|]. intros H. rewrite H by discriminate. reflexivity. Qed.

Lemma at_const (out : list bclass) nc l : (forall y, In y l -> nth y out BN = nc) -> at_ BN out l = map (fun _ => nc) l.
Proof. intros H. unfold at_. apply map_ext_in. exact H. Qed.

Lemma ni_consume_inv pc : forall l acc last run li' nc rest',
  ni_consume pc l acc last = Ok (run, li', nc, rest') ->
  exists l1, run = acc ++ l1 /\ (forall y, In y l1 -> nibn (nth y pc BN) = true) /\
    ((nc = None /\ l = l1 /\ rest' = []) \/
     (exists c, nc = Some c /\ l = l1 ++ li' :: rest' /\ nth li' pc BN = c /\ nibn c = false)).
Proof.
  induction l as [|j l IH]; intros acc last run li' nc rest' H; cbn [ni_consume] in H.
  - injection H as <- <- <- <-. exists []. rewrite app_nil_r. split; [reflexivity|]. split; [intros y []|].
    left. auto.
  - apply bind_ok in H as (c & Ec & H). apply get_inv in Ec as [_ Ec]. specialize (Ec BN).
    rewrite is_NI_ni in H. fold (nibn c) in H. destruct (nibn c) eqn:En.
    + apply IH in H as (l1 & -> & Hl1 & Hcase). exists (j :: l1). rewrite <- app_assoc. split; [reflexivity|].
      split; [intros y [<-|Hy]; [rewrite Ec; exact En | auto]|].
      destruct Hcase as [(-> & -> & ->)|(c' & -> & -> & Hc' & Hn')].
      * left. auto.
      * right. exists c'. auto.
    + injection H as <- <- <- <-. exists []. rewrite app_nil_r. split; [reflexivity|]. split; [intros y []|].
      right. exists c. auto.
Qed.

(* ------------------------------------------------------------------ *)
Section N12.
Variable sq : irs.
Variable oc : list bclass.
Variable k : nat.
Hypothesis Hwf : seq_wf k sq.
Variable e : bclass.
Variable pc0 : list bclass.
Hypothesis Halpha0 : forall x, In x (live_idx oc sq) -> alphab (nth x pc0 BN) = true.
Hypothesis HP0 : okP sq oc pc0.
Let Sq := seq_idx sq.
Let sos := irs_sos sq.
Let eos := irs_eos sq.

Lemma Heos : eos = L \/ eos = R.
Proof. destruct Hwf as (_ & _ & _ & _ & H). exact H. Qed.

Lemma Hsos' : sos = L \/ sos = R.
Proof. destruct Hwf as (_ & _ & _ & H & _). exact H. Qed.

Definition T (l : list nat) : list bclass := at_ BN pc0 (filter (live oc) l).
Definition LS (dn : list nat) : bclass := lead_after sos (T dn).
Definition relpm (dn idxs : list nat) (pm : bclass) : Prop :=
  norm pm = LS dn \/
  match find (live oc) idxs with Some q => is_ni (nth q pc0 BN) = false | None => True end.

Lemma T_app l1 l2 : T (l1 ++ l2) = T l1 ++ T l2.
Proof. unfold T. rewrite filter_app, at_app. reflexivity. Qed.

Lemma map_const_T {B} (v : B) l : map (fun _ : bclass => v) (T l) = map (fun _ : nat => v) (filter (live oc) l).
Proof. unfold T, at_. apply map_map. Qed.

Lemma T_single j : T [j] = if live oc j then [nth j pc0 BN] else [].
Proof. unfold T. cbn [filter]. destruct (live oc j); reflexivity. Qed.

Lemma live_alpha y : In y Sq -> live oc y = true -> alphab (nth y pc0 BN) = true.
Proof. intros H1 H2. apply Halpha0. apply (in_li sq oc). auto. Qed.

Lemma T_ni mid : (forall y, In y mid -> In y Sq) -> (forall y, In y mid -> nibn (nth y pc0 BN) = true) ->
  Forall (fun c => is_ni c = true) (T mid).
Proof.
  intros HS Hn. unfold T, at_. apply Forall_map. apply Forall_forall. intros y Hy.
  apply filter_In in Hy as [Hy Hl]. apply nibn_live_ni; [apply Hn; exact Hy | apply live_alpha; auto].
Qed.

Lemma nextlive_find d j r q : Sq = d ++ j :: r -> nextlive sq oc j q -> find (live oc) r = Some q.
Proof.
  intros E (H1 & H2 & H3 & H4). pose proof (HascS sq k Hwf) as Ha. fold Sq in Ha, H1. rewrite E in Ha, H1.
  assert (Hq : In q r) by (eapply asc_in_after; eauto).
  destruct (in_split _ _ Hq) as (r1 & r2 & ->).
  rewrite find_app_none.
  - cbn [find]. rewrite H2. reflexivity.
  - intros y Hy. apply H4.
    + fold Sq. rewrite E. apply in_or_app. right. right. apply in_or_app. left. exact Hy.
    + destruct (asc_split _ _ _ Ha) as (_ & Har & _ & Hjr & _).
      destruct (asc_split _ _ _ Har) as (_ & _ & Hr1 & _). split; [|apply Hr1; exact Hy].
      apply Hjr. apply in_or_app. left. exact Hy.
Qed.

(* an X9-removed position that does not hold a neutral class copies a neighbouring live position *)
Lemma removed_strong d j r : Sq = d ++ j :: r -> live oc j = false -> nibn (nth j pc0 BN) = false ->
  hasdir (nth j pc0 BN) = true /\
  ((exists q, find (live oc) r = Some q /\ nth q pc0 BN = nth j pc0 BN) \/
   (exists L1 p, filter (live oc) d = L1 ++ [p] /\ nth p pc0 BN = nth j pc0 BN)).
Proof.
  intros E Hlj Hn.
  assert (HjS : In j (seq_idx sq)) by (fold Sq; rewrite E; apply in_or_app; right; left; reflexivity).
  destruct (HP0 j HjS Hlj) as [Hc|[(q & Hq & Eq)|(p & Hp & Ep)]]; [congruence| |].
  - pose proof Hq as (Hq1 & Hq2 & _). split.
    + rewrite Eq. apply alpha_strong; [apply live_alpha; assumption|]. rewrite <- Eq. apply not_nibn_ni. exact Hn.
    + left. exists q. split; [eapply nextlive_find; eauto | congruence].
  - pose proof Hp as (Hp1 & Hp2 & _). split.
    + rewrite Ep. apply alpha_strong; [apply live_alpha; assumption|]. rewrite <- Ep. apply not_nibn_ni. exact Hn.
    + right. destruct (prevlive_last sq oc k Hwf _ _ _ _ E Hp) as (pre1 & gap & -> & Hg).
      exists (filter (live oc) pre1), p. rewrite filter_app. cbn [filter]. rewrite Hp2.
      rewrite (filter_none _ gap) by exact Hg. split; [reflexivity | congruence].
Qed.

(* the state after a (possibly empty) run of neutral/BN positions [mid] ended by position j *)
Lemma rel_next dn0 mid j r : Sq = dn0 ++ mid ++ j :: r ->
  (forall y, In y mid -> nibn (nth y pc0 BN) = true) -> nibn (nth j pc0 BN) = false ->
  relpm ((dn0 ++ mid) ++ [j]) r (nth j pc0 BN) /\ hasdir (nth j pc0 BN) = true /\
  LS ((dn0 ++ mid) ++ [j]) = (if live oc j then norm (nth j pc0 BN) else LS dn0) /\
  (filter (live oc) mid <> [] -> live oc j = false -> nd eos (T r) = norm (nth j pc0 BN)).
Proof.
  intros E Hmid Hn. set (c := nth j pc0 BN) in *.
  assert (HmS : forall y, In y mid -> In y Sq).
  { intros y Hy. rewrite E. apply in_or_app. right. apply in_or_app. left. exact Hy. }
  assert (HjS : In j Sq).
  { rewrite E. apply in_or_app. right. apply in_or_app. right. left. reflexivity. }
  pose proof (T_ni mid HmS Hmid) as Hni.
  assert (HLSmid : LS (dn0 ++ mid) = LS dn0).
  { unfold LS. rewrite T_app, lead_after_app. apply lead_after_ni. exact Hni. }
  destruct (live oc j) eqn:Elj.
  - assert (Hc : is_ni c = false) by (apply not_nibn_ni; exact Hn).
    assert (HLS : LS ((dn0 ++ mid) ++ [j]) = norm c).
    { unfold LS. rewrite T_app, lead_after_app. unfold T at 2. cbn [filter]. rewrite Elj.
      cbn [at_ map lead_after]. fold c. rewrite Hc. reflexivity. }
    split; [left; symmetry; exact HLS|]. split; [apply alpha_strong; [apply live_alpha; assumption | exact Hc]|].
    split; [exact HLS | discriminate].
  - assert (HLS : LS ((dn0 ++ mid) ++ [j]) = LS dn0).
    { unfold LS. rewrite T_app. unfold T at 2. cbn [filter]. rewrite Elj. cbn [at_ map]. rewrite app_nil_r.
      exact HLSmid. }
    rewrite app_assoc in E.
    destruct (removed_strong _ _ _ E Elj Hn) as [Hhd [(q & Hq & Eq)|(L1 & p & EL & Ep)]]; fold c in Hhd.
    + split; [right; rewrite Hq, Eq; apply not_nibn_ni; exact Hn|]. split; [exact Hhd|]. split; [exact HLS|].
      intros _ _. unfold T. destruct (find_filter_hd _ _ _ Hq) as (tl & ->). cbn [at_ map nd].
      rewrite Eq. fold c. rewrite (not_nibn_ni _ Hn). reflexivity.
    + rewrite filter_app in EL. destruct (filter (live oc) mid) as [|m0 ml] eqn:Em.
      * rewrite app_nil_r in EL. split; [|split; [exact Hhd|]; split; [exact HLS | congruence]].
        left. rewrite HLS. unfold LS, T. rewrite EL, at_app, lead_after_app. cbn [at_ map lead_after].
        rewrite Ep. fold c. rewrite (not_nibn_ni _ Hn). reflexivity.
      * exfalso. assert (Hne : m0 :: ml <> []) by discriminate.
        destruct (exists_last Hne) as (L2 & p' & EL2). rewrite EL2, app_assoc in EL.
        apply app_inj_tail in EL as [_ <-].
        assert (Hp : In p' (filter (live oc) mid)) by (rewrite Em, EL2; apply in_or_app; right; left; reflexivity).
        apply filter_In in Hp as [Hp _]. apply Hmid in Hp. rewrite Ep in Hp. fold c in Hp. congruence.
Qed.

(* a neutral run that contains a live position: the model's prev_class is the specification's lead *)
Lemma rel_live dn mid r' pm : (forall y, In y mid -> In y Sq) ->
  relpm dn (mid ++ r') pm -> (forall y, In y mid -> nibn (nth y pc0 BN) = true) ->
  filter (live oc) mid <> [] -> norm pm = LS dn.
Proof.
  intros HmS [H|H] Hmid Hne; [exact H|]. exfalso.
  destruct (find_app_some (live oc) mid r' Hne) as (y & Hy & Hin & Hl). rewrite Hy in H.
  assert (is_ni (nth y pc0 BN) = true); [|congruence].
  apply nibn_live_ni; [apply Hmid; exact Hin | apply live_alpha; auto].
Qed.

Lemma n12_sim : forall fuel idxs dn pc pm out,
  Sq = dn ++ idxs -> length idxs < fuel -> length pc = k ->
  (forall j, In j idxs -> nth j pc BN = nth j pc0 BN) ->
  relpm dn idxs pm ->
  n12_loop fuel sq e pc idxs pm = Ok out ->
  at_ BN out (filter (live oc) idxs) = n12 (LS dn) e (T idxs) (next_dirs eos (T idxs)) /\
  forall j, ~ In j idxs -> nth j out BN = nth j pc BN.
Proof.
  induction fuel as [|f IH]; intros idxs dn pc pm out E Hlen Hk Hagree Hrel H; [lia|].
  destruct idxs as [|i rest]; cbn [n12_loop] in H.
  { injection H as <-. split; [reflexivity | auto]. }
  pose proof (HascS sq k Hwf) as Ha. fold Sq in Ha. rewrite E in Ha.
  destruct (asc_split _ _ _ Ha) as (_ & Har & _ & Hir & _).
  apply bind_ok in H as (c & Ec & H). apply get_inv in Ec as [_ Ec]. specialize (Ec BN).
  assert (Ec0 : nth i pc0 BN = c) by (rewrite <- Hagree; [exact Ec | left; reflexivity]).
  rewrite is_NI_ni in H. fold (nibn c) in H. destruct (nibn c) eqn:En.
  - (* a run of neutral / BN positions *)
    apply bind_ok in H as ([[[run li'] nc] rest'] & Econs & H).
    apply ni_consume_inv in Econs as (l1 & -> & Hl1 & Hcase).
    apply bind_ok in H as (pc' & Eset & H). apply set_all_inv in Eset as (_ & Lset & Nset).
    apply bind_ok in H as (p & Ep & H). apply get_inv in Ep as [_ Ep]. specialize (Ep BN).
    cbn [app] in Nset.
    assert (Hrun0 : forall y, In y (i :: l1) -> In y (i :: rest) -> nibn (nth y pc0 BN) = true).
    { intros y [<-|Hy] Hin; [rewrite Ec0; exact En|]. rewrite <- Hagree by exact Hin. apply Hl1. exact Hy. }
    destruct Hcase as [(-> & <- & ->)|(c' & -> & Erest & Ec' & Hn')].
    + (* the iterator is exhausted *)
      destruct f as [|f']; [cbn [length] in Hlen; lia|]. cbn [n12_loop] in H. injection H as <-.
      assert (Hrun : forall y, In y (i :: rest) -> nibn (nth y pc0 BN) = true) by (intros y Hy; apply Hrun0; exact Hy).
      assert (HmS : forall y, In y (i :: rest) -> In y Sq) by (intros y Hy; rewrite E; apply in_or_app; right; exact Hy).
      split.
      * rewrite <- (app_nil_r (T (i :: rest))). rewrite n12_run by (apply T_ni; assumption).
        cbn [n12 next_dirs nd]. rewrite app_nil_r. unfold T, at_ at 2. rewrite map_map.
        rewrite (at_const pc' (n12_class pm (opt_or None eos) e)).
        2:{ intros y Hy. apply filter_In in Hy as [Hy _]. rewrite Nset.
            assert (Em : mem y (i :: rest) = true) by (apply mem_In; exact Hy). rewrite Em. reflexivity. }
        apply map_const_eq. intros Hne. cbn [opt_or].
        rewrite n12_class_norm by (apply hasdir_LR; exact Heos). rewrite (norm_LR _ Heos).
        rewrite <- (app_nil_r (i :: rest)) in Hrel.
        rewrite (rel_live dn (i :: rest) [] pm HmS Hrel Hrun Hne). reflexivity.
      * intros j Hj. rewrite Nset. assert (Em : mem j (i :: rest) = false) by (apply mem_nIn; exact Hj).
        rewrite Em. reflexivity.
    + (* the run ends at position li' *)
      set (j := li') in *. subst rest.
      assert (HmS : forall y, In y (i :: l1) -> In y Sq).
      { intros y Hy. rewrite E. apply in_or_app. right. rewrite app_comm_cons. apply in_or_app. left. exact Hy. }
      assert (Hrun : forall y, In y (i :: l1) -> nibn (nth y pc0 BN) = true).
      { intros y Hy. apply Hrun0; [exact Hy|]. rewrite app_comm_cons. apply in_or_app. left. exact Hy. }
      change (i :: l1 ++ j :: rest') with ((i :: l1) ++ j :: rest') in *.
      assert (Hidx : asc ((i :: l1) ++ j :: rest')) by (apply asc_app in Ha as (_ & H0 & _); exact H0).
      apply asc_app in Hidx as (_ & Hajr & Hrunlt).
      destruct Hajr as [Hjr' _].
      assert (Hj0 : nth j pc0 BN = c').
      { rewrite <- Hagree; [exact Ec' | apply in_or_app; right; left; reflexivity]. }
      assert (Hjrun : mem j (i :: l1) = false).
      { apply mem_nIn. intros Hin. specialize (Hrunlt j j Hin (or_introl eq_refl)). lia. }
      assert (Epj : p = c') by (rewrite <- Ep, Nset, Hjrun; exact Ec').
      rewrite Epj in H.
      destruct (rel_next dn (i :: l1) j rest' E Hrun ltac:(rewrite Hj0; exact Hn')) as (Hrel' & Hhd & HLS & Hnd).
      rewrite Hj0 in Hrel', Hhd, HLS, Hnd.
      assert (E' : Sq = ((dn ++ i :: l1) ++ [j]) ++ rest').
      { rewrite E. rewrite <- !app_assoc. reflexivity. }
      assert (Hagree' : forall y, In y rest' -> nth y pc' BN = nth y pc0 BN).
      { intros y Hy. rewrite Nset.
        assert (Em : mem y (i :: l1) = false).
        { apply mem_nIn. intros Hin. specialize (Hrunlt y y Hin (or_intror Hy)). lia. }
        rewrite Em. apply Hagree. apply in_or_app. right. right. exact Hy. }
      assert (Hlen' : length rest' < f).
      { rewrite app_length in Hlen. cbn [length] in Hlen. lia. }
      destruct (IH rest' _ pc' c' out E' Hlen' ltac:(congruence) Hagree' Hrel' H) as [IH1 IH2].
      assert (Hnr : forall y, In y ((i :: l1) ++ [j]) -> ~ In y rest').
      { intros y Hy Hin. apply in_app_or in Hy as [Hy|[<-|[]]].
        - specialize (Hrunlt y y Hy (or_intror Hin)). lia.
        - apply Hjr' in Hin. lia. }
      split.
      * change ((i :: l1) ++ j :: rest') with ((i :: l1) ++ [j] ++ rest').
        rewrite !filter_app, !at_app. rewrite IH1, HLS.
        rewrite T_app, T_app. rewrite n12_run by (apply T_ni; assumption).
        rewrite (at_const out (n12_class pm (opt_or (Some c') eos) e)).
        2:{ intros y Hy. apply filter_In in Hy as [Hy _].
            rewrite IH2 by (apply Hnr; apply in_or_app; left; exact Hy). rewrite Nset.
            assert (Em : mem y (i :: l1) = true) by (apply mem_In; exact Hy). rewrite Em. reflexivity. }
        cbn [opt_or]. rewrite map_const_T.
        assert (Eoj : nth j out BN = c').
        { rewrite IH2 by (apply Hnr; apply in_or_app; right; left; reflexivity). rewrite Nset, Hjrun. exact Ec'. }
        f_equal.
        -- apply map_const_eq. intros Hne. rewrite n12_class_norm by exact Hhd.
           rewrite (rel_live dn (i :: l1) (j :: rest') pm HmS Hrel Hrun Hne).
           rewrite T_single. destruct (live oc j) eqn:Elj.
           ++ cbn [app nd]. rewrite Hj0, (not_nibn_ni _ Hn'). reflexivity.
           ++ cbn [app]. rewrite (Hnd Hne eq_refl). reflexivity.
        -- rewrite T_single. cbn [filter]. destruct (live oc j) eqn:Elj.
           ++ cbn [at_ map app]. rewrite Hj0, Eoj. rewrite n12_cons_strong by (apply not_nibn_ni; exact Hn').
              reflexivity.
           ++ reflexivity.
      * intros y Hy. rewrite IH2.
        -- rewrite Nset. assert (Em : mem y (i :: l1) = false).
           { apply mem_nIn. intros Hin. apply Hy. apply in_or_app. left. exact Hin. }
           rewrite Em. reflexivity.
        -- intros Hin. apply Hy. apply in_or_app. right. right. exact Hin.
  - (* a position holding a strong class *)
    destruct (rel_next dn [] i rest E ltac:(intros y []) ltac:(rewrite Ec0; exact En)) as (Hrel' & Hhd & HLS & _).
    rewrite app_nil_r in Hrel', HLS. rewrite Ec0 in Hrel', HLS.
    assert (E' : Sq = (dn ++ [i]) ++ rest) by (rewrite E, <- app_assoc; reflexivity).
    assert (Hagree' : forall y, In y rest -> nth y pc BN = nth y pc0 BN) by (intros y Hy; apply Hagree; right; exact Hy).
    cbn [length] in Hlen.
    destruct (IH rest _ pc c out E' ltac:(lia) Hk Hagree' Hrel' H) as [IH1 IH2].
    assert (Hni : ~ In i rest) by (intros Hin; apply Hir in Hin; lia).
    split.
    + cbn [filter]. unfold T. cbn [filter]. destruct (live oc i) eqn:Eli.
      * cbn [at_ map]. fold (at_ BN out (filter (live oc) rest)). fold (at_ BN pc0 (filter (live oc) rest)).
        fold (T rest). rewrite Ec0. rewrite n12_cons_strong by (apply not_nibn_ni; exact En).
        rewrite IH1, HLS, (IH2 i Hni), Ec. reflexivity.
      * fold (T rest). rewrite IH1, HLS. reflexivity.
    + intros y Hy. apply IH2. intros Hin. apply Hy. right. exact Hin.
Qed.

End N12.
