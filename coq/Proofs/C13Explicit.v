(* Proofs/C13Explicit.v — C13 "isolates isolate", part A: paragraph level and explicit levels/classes
   outside a matched valid isolate pair do not depend on the (B-free, isolate-balanced) content. *)
From BidiVerif Require Import Base ConstsGen TablesGen ModelText ModelResolve ModelLine Spec Obs Judge StageRel
     Stmts Stmts2 Stmts3 Stmts4 Stmts5 Stmts6 Stmts7.
From BidiVerif.Proofs Require Import BaseDir InitialInfo.

(* ------------------------------------------------------------------ *)
(* 1. the structural scanners pass over balanced content *)

Lemma iso_bal_init k c r : is_init c = true -> iso_bal k (c :: r) = iso_bal (S k) r.
Proof. intros H. cbn [iso_bal]. rewrite H. reflexivity. Qed.

Lemma init_not_pdi c : is_init c = true -> (c =c PDI) = false.
Proof. destruct c; intros H; try discriminate H; reflexivity. Qed.

Lemma fs_bal c : forall k d rest, iso_bal k c = true -> 1 <= d ->
  fs (k + d) (c ++ rest) = fs d rest.
Proof.
  induction c as [|x t IH]; intros k d rest Hb Hd.
  - cbn [iso_bal] in Hb. apply Nat.eqb_eq in Hb. subst k. reflexivity.
  - cbn [iso_bal] in Hb. cbn [app fs].
    destruct (is_init x) eqn:Hi.
    + apply (IH (S k)); assumption.
    + destruct (x =c PDI) eqn:Hp.
      * destruct k as [|k']; [discriminate|].
        replace (S k' + d - 1) with (k' + d) by lia. apply IH; assumption.
      * destruct (is_strong x).
        -- assert (E : (k + d =? 0) = false) by (apply Nat.eqb_neq; lia). rewrite E. apply IH; assumption.
        -- apply IH; assumption.
Qed.

Lemma fsu_bal c : forall k d rest, iso_bal k c = true -> 1 <= d ->
  fsu (k + d) (c ++ rest) = fsu d rest.
Proof.
  induction c as [|x t IH]; intros k d rest Hb Hd.
  - cbn [iso_bal] in Hb. apply Nat.eqb_eq in Hb. subst k. reflexivity.
  - cbn [iso_bal] in Hb. cbn [app fsu].
    destruct (is_init x) eqn:Hi.
    + apply (IH (S k)); assumption.
    + destruct (x =c PDI) eqn:Hp.
      * destruct k as [|k']; [discriminate|].
        assert (E : (S k' + d =? 0) = false) by (apply Nat.eqb_neq; lia). rewrite E.
        replace (S k' + d - 1) with (k' + d) by lia. apply IH; assumption.
      * destruct (is_strong x).
        -- assert (E : (k + d =? 0) = false) by (apply Nat.eqb_neq; lia). rewrite E. apply IH; assumption.
        -- apply IH; assumption.
Qed.

Lemma mp_bal c : forall k d j rest, iso_bal k c = true -> 1 <= d ->
  match_pdi_from (c ++ rest) (k + d) j = match_pdi_from rest d (j + length c).
Proof.
  induction c as [|x t IH]; intros k d j rest Hb Hd.
  - cbn [iso_bal] in Hb. apply Nat.eqb_eq in Hb. subst k. cbn [app length]. rewrite Nat.add_0_r. reflexivity.
  - cbn [iso_bal] in Hb. cbn [app match_pdi_from length].
    replace (j + S (length t)) with (S j + length t) by lia.
    destruct (is_init x) eqn:Hi.
    + apply (IH (S k)); assumption.
    + destruct (x =c PDI) eqn:Hp.
      * destruct k as [|k']; [discriminate|].
        assert (E : (S k' + d =? 1) = false) by (apply Nat.eqb_neq; lia). rewrite E.
        replace (S k' + d - 1) with (k' + d) by lia. apply IH; assumption.
      * apply IH; assumption.
Qed.

Section Pair.
Variables (ini : bclass) (c1 c2 suffix : list bclass).
Hypothesis Hini : is_init ini = true.
Hypothesis Hb1 : iso_bal 0 c1 = true.
Hypothesis Hb2 : iso_bal 0 c2 = true.

Lemma fs_pair_one c d : iso_bal 0 c = true ->
  fs d (ini :: c ++ PDI :: suffix) = fs d suffix.
Proof.
  intros Hb. cbn [fs]. rewrite Hini.
  rewrite (fs_bal c 0 (S d) _ Hb) by lia. cbn [fs is_init ceq bclass_beq].
  replace (S d - 1) with d by lia. reflexivity.
Qed.

Lemma fsu_pair_one c d : iso_bal 0 c = true ->
  fsu d (ini :: c ++ PDI :: suffix) = fsu d suffix.
Proof.
  intros Hb. cbn [fsu]. rewrite Hini.
  rewrite (fsu_bal c 0 (S d) _ Hb) by lia. cbn [fsu is_init ceq bclass_beq Nat.eqb].
  replace (S d - 1) with d by lia. reflexivity.
Qed.

Lemma fs_pair p : forall d,
  fs d (p ++ ini :: c1 ++ PDI :: suffix) = fs d (p ++ ini :: c2 ++ PDI :: suffix).
Proof.
  induction p as [|x t IH]; intros d.
  - cbn [app]. rewrite !fs_pair_one by assumption. reflexivity.
  - cbn [app fs]. rewrite !IH. reflexivity.
Qed.

Lemma fsu_pair p : forall d,
  fsu d (p ++ ini :: c1 ++ PDI :: suffix) = fsu d (p ++ ini :: c2 ++ PDI :: suffix).
Proof.
  induction p as [|x t IH]; intros d.
  - cbn [app]. rewrite !fsu_pair_one by assumption. reflexivity.
  - cbn [app fsu]. rewrite !IH. reflexivity.
Qed.
End Pair.

(* ------------------------------------------------------------------ *)
(* 2. X1-X8 run: decomposition and dependence on the text only through fsi_strong *)

Fixpoint x_end (cls0 : list bclass) (pl : nat) (s : xstate) (i : nat) (l : list bclass) : xstate :=
  match l with
  | [] => s
  | c :: r => x_end cls0 pl (fst (fst (x_step cls0 pl s i c))) (S i) r
  end.

Lemma x_run_app cls0 pl a : forall s i b,
  x_run cls0 pl s i (a ++ b) =
  (fst (x_run cls0 pl s i a) ++ fst (x_run cls0 pl (x_end cls0 pl s i a) (i + length a) b),
   snd (x_run cls0 pl s i a) ++ snd (x_run cls0 pl (x_end cls0 pl s i a) (i + length a) b)).
Proof.
  induction a as [|c r IH]; intros s i b.
  - cbn [app x_run x_end length fst snd]. rewrite Nat.add_0_r. destruct (x_run cls0 pl s i b); reflexivity.
  - cbn [app x_run x_end length].
    destruct (x_step cls0 pl s i c) as [[s' lv] k] eqn:E. cbn [fst snd].
    rewrite IH. replace (i + S (length r)) with (S i + length r) by lia.
    destruct (x_run cls0 pl s' (S i) r) as [la ca]. cbn [fst snd]. reflexivity.
Qed.

Lemma x_end_app cls0 pl a : forall s i b,
  x_end cls0 pl s i (a ++ b) = x_end cls0 pl (x_end cls0 pl s i a) (i + length a) b.
Proof.
  induction a as [|c r IH]; intros s i b.
  - cbn [app x_end length]. rewrite Nat.add_0_r. reflexivity.
  - cbn [app x_end length]. rewrite IH. f_equal. lia.
Qed.

Lemma x_state_after_end cls0 pl a : forall s i b,
  x_state_after cls0 pl s i (a ++ b) (length a) = x_end cls0 pl s i a.
Proof.
  induction a as [|c r IH]; intros s i b.
  - destruct b; reflexivity.
  - cbn [app length x_state_after x_end].
    destruct (x_step cls0 pl s i c) as [[s' lv] k]. cbn [fst]. apply IH.
Qed.

Lemma x_run_length cls0 pl l : forall s i,
  length (fst (x_run cls0 pl s i l)) = length l /\ length (snd (x_run cls0 pl s i l)) = length l.
Proof.
  induction l as [|c r IH]; intros s i; [split; reflexivity|].
  cbn [x_run]. destruct (x_step cls0 pl s i c) as [[s' lv] k].
  specialize (IH s' (S i)). destruct (x_run cls0 pl s' (S i) r). cbn [fst snd length] in *. lia.
Qed.

Lemma x_step_ext cls0 cls0' pl s i i' c0 :
  (c0 = FSI -> fsi_strong cls0 i = fsi_strong cls0' i') ->
  x_step cls0 pl s i c0 = x_step cls0' pl s i' c0.
Proof.
  intros H. unfold x_step. destruct (c0 =c FSI) eqn:E; [|reflexivity].
  apply ceq_eq in E. rewrite (H E). reflexivity.
Qed.

Lemma x_run_ext cls0 cls0' pl l : forall s i i',
  (forall k, k < length l -> nth k l ON = FSI -> fsi_strong cls0 (i + k) = fsi_strong cls0' (i' + k)) ->
  x_run cls0 pl s i l = x_run cls0' pl s i' l /\ x_end cls0 pl s i l = x_end cls0' pl s i' l.
Proof.
  induction l as [|c r IH]; intros s i i' H; [split; reflexivity|].
  cbn [x_run x_end].
  rewrite (x_step_ext cls0 cls0' pl s i i' c).
  2:{ intros Hc. specialize (H 0). rewrite !Nat.add_0_r in H. apply H; [cbn [length]; lia|exact Hc]. }
  destruct (x_step cls0' pl s i' c) as [[s' lv] k]. cbn [fst].
  destruct (IH s' (S i) (S i')) as [E1 E2].
  { intros k0 Hk Hn. specialize (H (S k0)). replace (S i + k0) with (i + S k0) by lia.
    replace (S i' + k0) with (i' + S k0) by lia. apply H; [cbn [length]; lia|exact Hn]. }
  rewrite E1, E2. split; reflexivity.
Qed.

(* ------------------------------------------------------------------ *)
(* 3. processing balanced content on top of a pushed isolate entry *)

Definition lvl (e : sentry) : nat := fst (fst e).
Fixpoint count_iso (st : list sentry) : nat :=
  match st with
  | [] => 0
  | e :: r => (if snd e then 1 else 0) + count_iso r
  end.

Lemma pop_isolate_app (ce r : list sentry) : 0 < count_iso ce ->
  pop_isolate (ce ++ r) = pop_isolate ce ++ r /\ count_iso (pop_isolate ce) = count_iso ce - 1 /\
  (forall P, Forall P ce -> Forall P (pop_isolate ce)).
Proof.
  induction ce as [|[[l o] b] ce IH]; intros H; [cbn in H; lia|].
  cbn [app pop_isolate count_iso snd] in *.
  destruct b.
  - split; [reflexivity|]. split; [lia|]. intros P HP. inversion HP; assumption.
  - destruct (IH ltac:(lia)) as (A & B & C). split; [exact A|]. split; [exact B|].
    intros P HP. inversion HP; subst. apply C. assumption.
Qed.

Lemma pop_isolate_noiso (ce : list sentry) (e : sentry) r : count_iso ce = 0 -> snd e = true -> pop_isolate (ce ++ e :: r) = r.
Proof.
  induction ce as [|[[l o] b] ce IH]; intros H He.
  - destruct e as [[l o] b]. cbn in He. subst b. reflexivity.
  - cbn [count_iso snd] in H. destruct b; [lia|]. cbn [app pop_isolate]. apply IH; [lia|exact He].
Qed.

Section Content.
Variables (nl vi0 : nat) (base : list sentry).

Definition CInv (d : nat) (s : xstate) : Prop :=
  exists ce : list sentry, x_stack s = ce ++ ((nl, ONone, true) : sentry) :: base /\ x_vi s = vi0 + 1 + count_iso ce /\
             d = count_iso ce + x_oi s /\ Forall (fun e => nl <= lvl e) ce.

Definition bal_next (d : nat) (c : bclass) : option nat :=
  if is_init c then Some (S d)
  else if c =c PDI then match d with O => None | S d' => Some d' end
  else Some d.

Definition lv_ok (lv : option nat) : Prop := match lv with None => True | Some l => nl <= l end.

Lemma next_odd_gt l : l < next_odd l.
Proof. unfold next_odd. destruct (Nat.even l); lia. Qed.
Lemma next_even_gt l : l < next_even l.
Proof. unfold next_even. destruct (Nat.even l); lia. Qed.

Lemma CInv_top d s pl : CInv d s -> nl <= lvl (top_of (x_stack s) pl).
Proof.
  intros (ce & Hs & _ & _ & Hf). rewrite Hs. destruct ce as [|e ce]; cbn [app top_of].
  - cbn. lia.
  - inversion Hf; assumption.
Qed.

Lemma CInv_step cls0 pl d s i c d' :
  CInv d s -> c <> B -> bal_next d c = Some d' ->
  CInv d' (fst (fst (x_step cls0 pl s i c))) /\ lv_ok (snd (fst (x_step cls0 pl s i c))).
Proof.
  intros HI HB Hn.
  pose proof (CInv_top d s pl HI) as Htop.
  destruct HI as (ce & Hs & Hv & Hd & Hf).
  unfold x_step.
  set (ceff := if c =c FSI then match fsi_strong cls0 i with Some R | Some AL => RLI | _ => LRI end else c).
  destruct (top_of (x_stack s) pl) as [[tl_ to] tb] eqn:Etop. cbn [lvl fst] in Htop.
  assert (Hpush : forall l o b, nl <= l -> 
            exists ce' : list sentry, (l, o, b) :: x_stack s = ce' ++ ((nl, ONone, true) : sentry) :: base /\
                        count_iso ce' = (if b then 1 else 0) + count_iso ce /\
                        Forall (fun e => nl <= lvl e) ce').
  { intros l o b Hl. exists ((l, o, b) :: ce). rewrite Hs. split; [reflexivity|]. split; [reflexivity|].
    constructor; [exact Hl|exact Hf]. }
  pose proof (next_odd_gt tl_) as Ho. pose proof (next_even_gt tl_) as He.
  (* classify *)
  assert (Hcase : (is_init c = true /\ (ceff = RLI \/ ceff = LRI)) \/ (is_init c = false /\ ceff = c)).
  { unfold ceff. destruct c; cbn [ceq bclass_beq is_init]; auto.
    left. split; [reflexivity|]. destruct (fsi_strong cls0 i) as [[]|]; auto. }
  destruct Hcase as [[Hi Hc]|[Hi Hc]].
  - (* initiator *)
    unfold bal_next in Hn. rewrite Hi in Hn. injection Hn as <-.
    assert (G : forall nl', tl_ < nl' ->
      CInv (S d) (if (nl' <=? max_depth_spec) && (x_oi s =? 0) && (x_oe s =? 0)
              then {| x_stack := (nl', ONone, true) :: x_stack s;
                      x_oi := x_oi s; x_oe := x_oe s; x_vi := S (x_vi s) |}
              else {| x_stack := x_stack s; x_oi := S (x_oi s); x_oe := x_oe s; x_vi := x_vi s |})).
    { intros nl' Hnl'. destruct (_ && _).
      - destruct (Hpush nl' ONone true ltac:(lia)) as (ce' & A1 & A2 & A3).
        exists ce'. cbn [x_stack x_vi x_oi]. repeat split; try assumption; lia.
      - exists ce. cbn [x_stack x_vi x_oi]. repeat split; try assumption; lia. }
    destruct Hc as [Hc|Hc]; rewrite Hc; cbn [fst snd]; (split; [apply G; assumption | exact Htop]).
  - rewrite Hc. clear ceff Hc.
    unfold bal_next in Hn. rewrite Hi in Hn.
    destruct c; try discriminate Hi; try (exfalso; apply HB; reflexivity);
      cbn [ceq bclass_beq] in Hn;
      try (injection Hn as <-; cbn [fst snd]; split; [exists ce; repeat split; assumption | exact Htop || exact I]).
    + (* LRE *)
      injection Hn as <-.
      destruct (_ && _); cbn [fst snd]; (split; [|exact I]).
      * destruct (Hpush (next_even tl_) ONone false ltac:(lia)) as (ce' & A1 & A2 & A3).
        exists ce'. cbn [x_stack x_vi x_oi]. repeat split; try assumption; lia.
      * exists ce. cbn [x_stack x_vi x_oi]. repeat split; assumption.
    + (* LRO *)
      injection Hn as <-.
      destruct (_ && _); cbn [fst snd]; (split; [|exact I]).
      * destruct (Hpush (next_even tl_) OvL false ltac:(lia)) as (ce' & A1 & A2 & A3).
        exists ce'. cbn [x_stack x_vi x_oi]. repeat split; try assumption; lia.
      * exists ce. cbn [x_stack x_vi x_oi]. repeat split; assumption.
    + (* PDF *)
      injection Hn as <-. cbn [fst snd]. split; [|exact I].
      destruct (0 <? x_oi s); [exists ce; repeat split; assumption|].
      destruct (0 <? x_oe s); [exists ce; cbn [x_stack x_vi x_oi]; repeat split; assumption|].
      rewrite Hs. destruct ce as [|[[l o] b] ce']; cbn [app].
      * exists []. cbn [app]. repeat split; assumption.
      * destruct b; [exists ((l, o, true) :: ce'); repeat split; assumption|].
        destruct (ce' ++ _ :: base) as [|e0 r0] eqn:Er; [destruct ce'; discriminate Er|].
        exists ce'. cbn [x_stack x_vi x_oi]. cbn [count_iso snd] in Hv, Hd.
        inversion Hf; subst. split; [symmetry; exact Er|]. repeat split; try assumption; lia.
    + (* PDI *)
      destruct d as [|d0]; [discriminate|]. injection Hn as <-.
      destruct (0 <? x_oi s) eqn:Eoi.
      * apply Nat.ltb_lt in Eoi. cbn [x_stack]. rewrite Etop. cbn [fst snd].
        split; [|exact Htop]. exists ce. cbn [x_stack x_vi x_oi]. repeat split; try assumption; lia.
      * apply Nat.ltb_ge in Eoi.
        assert (Hvi : (x_vi s =? 0) = false) by (apply Nat.eqb_neq; lia). rewrite Hvi.
        assert (Hc0 : 0 < count_iso ce) by lia.
        destruct (pop_isolate_app ce (((nl, ONone, true) : sentry) :: base) Hc0) as (P1 & P2 & P3).
        cbn [x_stack]. rewrite Hs, P1.
        assert (HI' : CInv d0 {| x_stack := pop_isolate ce ++ (nl, ONone, true) :: base;
                                 x_oi := x_oi s; x_oe := 0; x_vi := x_vi s - 1 |}).
        { exists (pop_isolate ce). cbn [x_stack x_vi x_oi]. repeat split; try lia. apply P3. exact Hf. }
        pose proof (CInv_top _ _ pl HI') as Htop'. cbn [x_stack] in Htop'.
        destruct (top_of (pop_isolate ce ++ _) pl) as [[tl2 to2] tb2].
        cbn [fst snd]. split; [exact HI'|exact Htop'].
    + (* RLE *)
      injection Hn as <-.
      destruct (_ && _); cbn [fst snd]; (split; [|exact I]).
      * destruct (Hpush (next_odd tl_) ONone false ltac:(lia)) as (ce' & A1 & A2 & A3).
        exists ce'. cbn [x_stack x_vi x_oi]. repeat split; try assumption; lia.
      * exists ce. cbn [x_stack x_vi x_oi]. repeat split; assumption.
    + (* RLO *)
      injection Hn as <-.
      destruct (_ && _); cbn [fst snd]; (split; [|exact I]).
      * destruct (Hpush (next_odd tl_) OvR false ltac:(lia)) as (ce' & A1 & A2 & A3).
        exists ce'. cbn [x_stack x_vi x_oi]. repeat split; try assumption; lia.
      * exists ce. cbn [x_stack x_vi x_oi]. repeat split; assumption.
Qed.
End Content.

Lemma iso_bal_next d x r : iso_bal d (x :: r) = match bal_next d x with Some d' => iso_bal d' r | None => false end.
Proof.
  cbn [iso_bal]. unfold bal_next. destruct (is_init x); [reflexivity|].
  destruct (x =c PDI); [destruct d; reflexivity|reflexivity].
Qed.

Lemma CInv_run nl vi0 base cls0 pl c : forall d s i,
  CInv nl vi0 base d s -> Forall (fun x => x <> B) c -> iso_bal d c = true ->
  CInv nl vi0 base 0 (x_end cls0 pl s i c) /\ Forall (lv_ok nl) (fst (x_run cls0 pl s i c)).
Proof.
  induction c as [|x r IH]; intros d s i HI HB Hb.
  - cbn [iso_bal] in Hb. apply Nat.eqb_eq in Hb. subst d. cbn [x_end x_run fst]. split; [exact HI|constructor].
  - rewrite iso_bal_next in Hb. destruct (bal_next d x) as [d'|] eqn:En; [|discriminate].
    inversion HB as [|? ? Hx Hr]; subst.
    destruct (CInv_step nl vi0 base cls0 pl d s i x d' HI Hx En) as [H1 H2].
    cbn [x_end x_run]. destruct (x_step cls0 pl s i x) as [[s' lv] k]. cbn [fst snd] in *.
    destruct (IH d' s' (S i) H1 Hr Hb) as [H3 H4]. split; [exact H3|].
    destruct (x_run cls0 pl s' (S i) r). cbn [fst] in *. constructor; assumption.
Qed.

(* the initiator is pushed *)
Lemma x_step_ini cls0 pl s i ini :
  ini = LRI \/ ini = RLI -> x_oi s = 0 -> x_oe s = 0 ->
  let '(tl_, to, _) := top_of (x_stack s) pl in
  let nl := match ini with RLI => next_odd tl_ | _ => next_even tl_ end in
  nl <= max_depth_spec ->
  x_step cls0 pl s i ini =
    ({| x_stack := (nl, ONone, true) :: x_stack s; x_oi := 0; x_oe := 0; x_vi := S (x_vi s) |},
     Some tl_, ovr_class to ini).
Proof.
  intros Hini Hoi Hoe. destruct (top_of (x_stack s) pl) as [[tl_ to] tb] eqn:Et.
  intros nl Hnl. unfold x_step. rewrite Et. subst nl.
  destruct Hini as [-> | ->]; cbn [ceq bclass_beq]; rewrite Hoi, Hoe;
    apply Nat.leb_le in Hnl; rewrite Hnl; reflexivity.
Qed.

(* the closing PDI pops back to the state before the initiator *)
Lemma x_step_close nl vi0 base cls0 pl s i :
  CInv nl vi0 base 0 s ->
  x_step cls0 pl s i PDI =
    let '(tl2, to2, _) := top_of base pl in
    ({| x_stack := base; x_oi := 0; x_oe := 0; x_vi := vi0 |}, Some tl2, ovr_class to2 PDI).
Proof.
  intros (ce & Hs & Hv & Hd & Hf).
  assert (Hc : count_iso ce = 0) by lia. assert (Hoi : x_oi s = 0) by lia.
  unfold x_step. cbn [ceq bclass_beq].
  destruct (top_of (x_stack s) pl) as [[tl_ to] tb].
  rewrite Hoi. cbn [Nat.ltb Nat.leb].
  assert (Hvi : (x_vi s =? 0) = false) by (apply Nat.eqb_neq; lia). rewrite Hvi.
  cbn [x_stack]. rewrite Hs, pop_isolate_noiso by (exact Hc || reflexivity).
  destruct (top_of base pl) as [[tl2 to2] tb2].
  replace (x_vi s - 1) with vi0 by lia. reflexivity.
Qed.

Lemma nth_outside {A} (P : list A) a C b D d j :
  nth (if j <=? length P then j else j + length C) (P ++ [a] ++ C ++ [b] ++ D) d
  = nth j (P ++ [a] ++ [b] ++ D) d.
Proof.
  destruct (j <=? length P) eqn:E.
  - apply Nat.leb_le in E. destruct (Nat.eq_dec j (length P)) as [->|Hne].
    + rewrite (app_nth2 P) by lia. rewrite (app_nth2 P) by lia. rewrite Nat.sub_diag. reflexivity.
    + rewrite !app_nth1 by lia. reflexivity.
  - apply Nat.leb_gt in E.
    assert (Hj : j = length P + 1 + (j - length P - 1)) by lia.
    generalize dependent (j - length P - 1). intros k Hk. subst j. clear E.
    rewrite (app_nth2 P) by lia. rewrite (app_nth2 P) by lia.
    replace (length P + 1 + k + length C - length P) with (S (length C + k)) by lia.
    replace (length P + 1 + k - length P) with (S k) by lia.
    cbn [app nth]. rewrite app_nth2 by lia. replace (length C + k - length C) with k by lia.
    reflexivity.
Qed.

(* ------------------------------------------------------------------ *)
(* 4. the shape of the explicit levels / classes of a text with a valid pair *)

Definition txt (prefix : list bclass) (ini : bclass) (c suffix : list bclass) : list bclass :=
  prefix ++ [ini] ++ c ++ [PDI] ++ suffix.
Definition good_content (c : list bclass) : Prop := iso_bal 0 c = true /\ Forall (fun x => x <> B) c.
Definition above (tl : nat) (lv : option nat) : Prop := match lv with None => True | Some l => tl < l end.

Lemma x_run_cons cls0 pl s i c r :
  x_run cls0 pl s i (c :: r) =
  (snd (fst (x_step cls0 pl s i c)) :: fst (x_run cls0 pl (fst (fst (x_step cls0 pl s i c))) (S i) r),
   snd (x_step cls0 pl s i c) :: snd (x_run cls0 pl (fst (fst (x_step cls0 pl s i c))) (S i) r)).
Proof.
  cbn [x_run]. destruct (x_step cls0 pl s i c) as [[s' lv] k]. cbn [fst snd].
  destruct (x_run cls0 pl s' (S i) r). reflexivity.
Qed.

Lemma para_level_pair prefix ini c1 c2 suffix dir :
  is_init ini = true -> iso_bal 0 c1 = true -> iso_bal 0 c2 = true ->
  para_level (txt prefix ini c1 suffix) dir = para_level (txt prefix ini c2 suffix) dir.
Proof.
  intros Hi H1 H2. unfold para_level. destruct dir; [reflexivity|].
  rewrite !first_strong_fs. unfold txt. cbn [app].
  rewrite (fs_pair ini c1 c2 suffix Hi H1 H2). reflexivity.
Qed.

Lemma skipn_app_lt {A} (l1 l2 : list A) n : n <= length l1 -> skipn n (l1 ++ l2) = skipn n l1 ++ l2.
Proof. intros H. rewrite skipn_app. replace (n - length l1) with 0 by lia. reflexivity. Qed.

Lemma skipn_app_ge {A} (l1 l2 : list A) n : length l1 <= n -> skipn n (l1 ++ l2) = skipn (n - length l1) l2.
Proof. intros H. rewrite skipn_app. rewrite skipn_all2 by lia. reflexivity. Qed.

Lemma fsi_prefix prefix ini c1 c2 suffix k :
  is_init ini = true -> iso_bal 0 c1 = true -> iso_bal 0 c2 = true -> k < length prefix ->
  fsi_strong (txt prefix ini c1 suffix) k = fsi_strong (txt prefix ini c2 suffix) k.
Proof.
  intros Hi H1 H2 Hk. rewrite !fsi_strong_fsu. unfold txt. rewrite !skipn_app_lt by lia. cbn [app].
  apply fsu_pair; assumption.
Qed.

Lemma txt_length prefix ini c suffix :
  length (txt prefix ini c suffix) = length prefix + 2 + length c + length suffix.
Proof. unfold txt. rewrite !app_length. cbn [length]. lia. Qed.

Lemma fsi_suffix prefix ini c suffix k :
  fsi_strong (txt prefix ini c suffix) (length prefix + 2 + length c + k) = fsu 0 (skipn (S k) suffix).
Proof.
  rewrite fsi_strong_fsu. unfold txt.
  replace (prefix ++ [ini] ++ c ++ [PDI] ++ suffix) with ((prefix ++ [ini] ++ c ++ [PDI]) ++ suffix)
    by (rewrite <- !app_assoc; reflexivity).
  rewrite skipn_app_ge by (rewrite !app_length; cbn [length]; lia).
  f_equal. f_equal. rewrite !app_length. cbn [length]. lia.
Qed.

Lemma xstate_eta s : {| x_stack := x_stack s; x_oi := x_oi s; x_oe := x_oe s; x_vi := x_vi s |} = s.
Proof. destruct s; reflexivity. Qed.

Section Shape.
Variables (prefix suffix c1 : list bclass) (ini : bclass) (pl : nat).
Hypothesis Hini : ini = LRI \/ ini = RLI.
Hypothesis Hg1 : good_content c1.
Hypothesis Hvalid : initiator_valid (txt prefix ini c1 suffix) pl (length prefix).

Let np := length prefix.
Let t1 := txt prefix ini c1 suffix.
Let sP := x_end t1 pl (x_init pl) 0 prefix.

Lemma Hini_init : is_init ini = true.
Proof. destruct Hini as [-> | ->]; reflexivity. Qed.

Lemma pair_shape :
  exists LP CP tl to LS CS,
    length LP = np /\ length CP = np /\ length LS = length suffix /\ length CS = length suffix /\
    forall c, good_content c ->
      exists LC CC,
        explicit_levels (txt prefix ini c suffix) pl =
          (LP ++ [Some tl] ++ LC ++ [Some tl] ++ LS,
           CP ++ [ovr_class to ini] ++ CC ++ [ovr_class to PDI] ++ CS) /\
        length LC = length c /\ length CC = length c /\ Forall (above tl) LC.
Proof.
  pose proof Hini_init as Hi.
  pose proof Hvalid as Hv. unfold initiator_valid in Hv.
  change (txt prefix ini c1 suffix) with t1 in Hv.
  assert (Ht1 : t1 = prefix ++ ([ini] ++ c1 ++ [PDI] ++ suffix)) by reflexivity.
  replace (x_state_after t1 pl (x_init pl) 0 t1 (length prefix)) with sP in Hv
    by (symmetry; apply (x_state_after_end t1 pl prefix (x_init pl) 0 ([ini] ++ c1 ++ [PDI] ++ suffix))).
  assert (Hn : nth (length prefix) t1 ON = ini).
  { rewrite Ht1, app_nth2 by lia. rewrite Nat.sub_diag. reflexivity. }
  rewrite Hn in Hv.
  destruct (top_of (x_stack sP) pl) as [[tl to] tb] eqn:Etop.
  destruct Hv as (Hoi & Hoe & Hnl).
  set (nl := match ini with RLI => next_odd tl | _ => next_even tl end) in *.
  assert (Hgt : tl < nl).
  { subst nl. destruct ini; try apply next_even_gt. apply next_odd_gt. }
  exists (fst (x_run t1 pl (x_init pl) 0 prefix)), (snd (x_run t1 pl (x_init pl) 0 prefix)), tl, to,
         (fst (x_run t1 pl sP (np + 2 + length c1) suffix)), (snd (x_run t1 pl sP (np + 2 + length c1) suffix)).
  destruct (x_run_length t1 pl prefix (x_init pl) 0) as [L1 L2].
  destruct (x_run_length t1 pl suffix sP (np + 2 + length c1)) as [L3 L4].
  split; [exact L1|]. split; [exact L2|]. split; [exact L3|]. split; [exact L4|].
  intros c [Hb HB].
  set (t := txt prefix ini c suffix).
  assert (Ht : t = prefix ++ (ini :: (c ++ (PDI :: suffix)))) by reflexivity.
  (* prefix *)
  destruct (x_run_ext t t1 pl prefix (x_init pl) 0 0) as [EP1 EP2].
  { intros k Hk _. cbn [Nat.add]. apply fsi_prefix; try assumption. apply Hg1. }
  fold sP in EP2.
  (* initiator *)
  pose proof (x_step_ini t pl sP np ini Hini Hoi Hoe) as Sini. rewrite Etop in Sini. cbn zeta in Sini.
  specialize (Sini Hnl). fold nl in Sini.
  set (s1 := {| x_stack := (nl, ONone, true) :: x_stack sP; x_oi := 0; x_oe := 0; x_vi := S (x_vi sP) |}) in *.
  assert (HI1 : CInv nl (x_vi sP) (x_stack sP) 0 s1).
  { exists []. unfold s1. cbn [app x_stack x_vi x_oi count_iso]. repeat split; try lia. constructor. }
  (* content *)
  destruct (CInv_run nl (x_vi sP) (x_stack sP) t pl c 0 s1 (S np) HI1 HB Hb) as [HI2 HLC].
  pose proof (x_step_close nl (x_vi sP) (x_stack sP) t pl _ (S np + length c) HI2) as Scl.
  rewrite Etop in Scl. rewrite <- Hoi in Scl at 1. rewrite <- Hoe in Scl at 1. rewrite xstate_eta in Scl.
  (* suffix *)
  destruct (x_run_ext t t1 pl suffix sP (S (S np + length c)) (np + 2 + length c1)) as [ES1 ES2].
  { intros k Hk _. unfold t, t1, np.
    replace (S (S (length prefix) + length c) + k) with (length prefix + 2 + length c + k) by lia.
    rewrite !fsi_suffix. reflexivity. }
  destruct (x_run_length t pl c s1 (S np)) as [L5 L6].
  exists (fst (x_run t pl s1 (S np) c)), (snd (x_run t pl s1 (S np) c)).
  split.
  - unfold explicit_levels. fold (x_init pl). fold t. rewrite Ht at 2.
    rewrite x_run_app, EP1, EP2. cbn [Nat.add]. fold np.
    rewrite x_run_cons, Sini. cbn [fst snd].
    rewrite x_run_app. rewrite x_run_cons, Scl. cbn [fst snd].
    rewrite ES1. cbn [app]. reflexivity.
  - split; [exact L5|]. split; [exact L6|].
    eapply Forall_impl; [|exact HLC]. intros [l|] Hl; cbn in *; [lia|exact I].
Qed.
End Shape.

(* ------------------------------------------------------------------ *)
(* 5. part A *)
Lemma c13_explicit_proof : C13_explicit.
Proof.
  intros prefix suffix c1 c2 ini bp bs b1 b2 dir.
  unfold C13_explicit_spec, c13_hyps.
  intros (Hini & Hb1 & Hb2 & HB1 & HB2 & _ & _ & _ & _ & _ & _ & _ & Hvalid).
  change (prefix ++ [ini] ++ c1 ++ [PDI] ++ suffix) with (txt prefix ini c1 suffix) in *.
  change (prefix ++ [ini] ++ c2 ++ [PDI] ++ suffix) with (txt prefix ini c2 suffix) in *.
  assert (Hi : is_init ini = true) by (destruct Hini as [-> | ->]; reflexivity).
  split; [apply para_level_pair; assumption|].
  cbn zeta.
  destruct (pair_shape prefix suffix c1 ini _ Hini (conj Hb1 HB1) Hvalid)
    as (LP & CP & tl & to & LS & CS & L1 & L2 & L3 & L4 & Hall).
  destruct (Hall c1 (conj Hb1 HB1)) as (LC1 & CC1 & E1 & M1 & M1' & _).
  destruct (Hall c2 (conj Hb2 HB2)) as (LC2 & CC2 & E2 & M2 & M2' & _).
  rewrite E1, E2. intros j _. unfold outside1, outside2.
  rewrite <- L1 at 1 2. rewrite <- M1, <- M2. rewrite !nth_outside.
  rewrite <- L2 at 1 2. rewrite M1, M2, <- M1', <- M2'. rewrite !nth_outside.
  split; reflexivity.
Qed.
