(* Proofs/Tables.v — C14 / C15: structure of the generated tables and of the two table lookups.
   General part: on ANY sorted, disjoint range table the halving search equals the first-match
   linear lookup.  Concrete part: closed boolean checkers evaluated by [vm_compute] on the
   regenerated tables (never reasoning about particular entries). *)
From BidiVerif Require Import Base ConstsGen TablesGen ModelText ModelResolve ModelLine Spec Obs Judge Stmts.
From Coq Require Import Lia PeanoNat NArith List Bool.


Notation entry := (N * N * bclass)%type.

(* ================================================================== *)
(* 1. sorted_disjoint as a pairwise statement on indices *)

Definition above (p : option N) (a : N) : Prop :=
  match p with Some q => (q < a)%N | None => True end.

Definition nonempty_ranges (tab : list entry) : Prop :=
  forall i a b k, nth_error tab i = Some (a, b, k) -> (a <= b)%N.

Definition increasing_ranges (tab : list entry) : Prop :=
  forall i j a b k a' b' k', (i < j)%nat ->
    nth_error tab i = Some (a, b, k) -> nth_error tab j = Some (a', b', k') -> (b < a')%N.

Lemma sdf_cons p lo hi k rest :
  sorted_disjoint_from p ((lo, hi, k) :: rest) = true ->
  (lo <= hi)%N /\ above p lo /\ sorted_disjoint_from (Some hi) rest = true.
Proof.
  intros H. cbn [sorted_disjoint_from] in H.
  apply andb_true_iff in H. destruct H as [H Hrest].
  apply andb_true_iff in H. destruct H as [Hle Hp].
  apply N.leb_le in Hle.
  split; [exact Hle|]. split; [|exact Hrest].
  destruct p as [q|]; cbn [above]; [apply N.ltb_lt; exact Hp | exact I].
Qed.

Lemma sdf_spec : forall (tab : list entry) (p : option N),
  sorted_disjoint_from p tab = true ->
  (forall i a b k, nth_error tab i = Some (a, b, k) -> (a <= b)%N /\ above p a) /\
  increasing_ranges tab.
Proof.
  induction tab as [|[[lo hi] k0] rest IH]; intros p H.
  - split.
    + intros i a b k Hi. destruct i; discriminate Hi.
    + intros i j a b k a' b' k' _ Hi. destruct i; discriminate Hi.
  - apply sdf_cons in H. destruct H as [Hle [Hp Hrest]].
    specialize (IH (Some hi) Hrest). destruct IH as [IHa IHb].
    split.
    + intros i a b k Hi. destruct i as [|i'].
      * cbn [nth_error] in Hi. injection Hi as -> -> ->. split; assumption.
      * cbn [nth_error] in Hi. specialize (IHa i' a b k Hi). destruct IHa as [Hab Hhi].
        cbn [above] in Hhi. split; [exact Hab|].
        destruct p as [q|]; cbn [above] in *; [lia | exact I].
    + intros i j a b k a' b' k' Hij Hi Hj.
      destruct j as [|j']; [lia|]. cbn [nth_error] in Hj.
      destruct i as [|i'].
      * cbn [nth_error] in Hi. injection Hi as -> -> ->.
        specialize (IHa j' a' b' k' Hj). destruct IHa as [_ Hhi]. exact Hhi.
      * cbn [nth_error] in Hi. apply (IHb i' j' a b k a' b' k'); [lia | exact Hi | exact Hj].
Qed.

Lemma sorted_disjoint_pairwise (tab : list entry) :
  sorted_disjoint tab = true -> nonempty_ranges tab /\ increasing_ranges tab.
Proof.
  intros H. unfold sorted_disjoint in H. apply sdf_spec in H. destruct H as [Ha Hb].
  split; [|exact Hb].
  intros i a b k Hi. apply (Ha i a b k Hi).
Qed.

(* ================================================================== *)
(* 2. the halving search *)

Definition inside (c a b : N) : Prop := (a <= c)%N /\ (c <= b)%N.

Lemma inside_b c a b : ((a <=? c)%N && (c <=? b)%N) = true <-> inside c a b.
Proof.
  unfold inside. rewrite andb_true_iff, N.leb_le, N.leb_le. reflexivity.
Qed.

Lemma mid_bounds lo hi : (lo < hi)%nat ->
  (lo <= lo + (hi - lo) / 2)%nat /\ (lo + (hi - lo) / 2 < hi)%nat.
Proof.
  intros H. assert (Hd : ((hi - lo) / 2 < hi - lo)%nat) by (apply Nat.div_lt; lia).
  lia.
Qed.

Lemma bsearch_fuel_unfold f tab c lo hi :
  bsearch_fuel (S f) tab c lo hi =
    if (hi <=? lo)%nat then None else
    match nth_error tab (lo + (hi - lo) / 2)%nat with
    | None => None
    | Some (a, b, k) =>
      if ((a <=? c)%N && (c <=? b)%N) then Some k
      else if (b <? c)%N then bsearch_fuel f tab c (S (lo + (hi - lo) / 2)) hi
      else bsearch_fuel f tab c lo (lo + (hi - lo) / 2)%nat
    end.
Proof. reflexivity. Qed.

(* no range contains c  ==>  None, whatever the fuel and the window *)
Lemma bsearch_none (tab : list entry) (c : N) :
  (forall i a b k, nth_error tab i = Some (a, b, k) -> ~ inside c a b) ->
  forall fuel lo hi, bsearch_fuel fuel tab c lo hi = None.
Proof.
  intros Hno. induction fuel as [|f IH]; intros lo hi; [reflexivity|].
  rewrite bsearch_fuel_unfold.
  destruct (hi <=? lo)%nat; [reflexivity|].
  destruct (nth_error tab (lo + (hi - lo) / 2)) as [[[a b] k]|] eqn:Hm; [|reflexivity].
  destruct ((a <=? c)%N && (c <=? b)%N) eqn:Hin.
  - apply inside_b in Hin. exfalso. exact (Hno _ a b k Hm Hin).
  - destruct (b <? c)%N; apply IH.
Qed.

(* some range (index i) contains c and i is in the window  ==>  the search finds its class *)
Lemma bsearch_found (tab : list entry) (c : N) :
  nonempty_ranges tab -> increasing_ranges tab ->
  forall i a b k, nth_error tab i = Some (a, b, k) -> inside c a b ->
  forall fuel lo hi, (hi - lo < fuel)%nat -> (hi <= length tab)%nat ->
    (lo <= i)%nat -> (i < hi)%nat ->
    bsearch_fuel fuel tab c lo hi = Some k.
Proof.
  intros Hne Hinc i a b k Hi Hin.
  induction fuel as [|f IH]; intros lo hi Hfuel Hlen Hlo Hhi; [lia|].
  rewrite bsearch_fuel_unfold.
  destruct (Nat.leb_spec hi lo) as [Hc|_]; [lia|].
  destruct (mid_bounds lo hi) as [Hm1 Hm2]; [lia|].
  set (mid := (lo + (hi - lo) / 2)%nat) in *.
  destruct (nth_error tab mid) as [[[a' b'] k']|] eqn:Hm.
  2:{ apply nth_error_None in Hm. lia. }
  pose proof (Hne mid a' b' k' Hm) as Hab'.
  destruct Hin as [Hac Hcb].
  assert (Hbelow : (i < mid)%nat -> (b < a')%N)
    by (intros Hlt; exact (Hinc i mid a b k a' b' k' Hlt Hi Hm)).
  assert (Habove : (mid < i)%nat -> (b' < a)%N)
    by (intros Hgt; exact (Hinc mid i a' b' k' a b k Hgt Hm Hi)).
  assert (Hsame : i = mid -> a' = a /\ b' = b /\ k' = k).
  { intros ->. rewrite Hi in Hm. injection Hm as -> -> ->. repeat split. }
  destruct ((a' <=? c)%N && (c <=? b')%N) eqn:Hin'.
  - apply inside_b in Hin'. destruct Hin' as [Hac' Hcb'].
    destruct (Nat.lt_trichotomy i mid) as [Hlt|[Heq|Hgt]].
    + specialize (Hbelow Hlt). lia.
    + destruct (Hsame Heq) as [_ [_ ->]]. reflexivity.
    + specialize (Habove Hgt). lia.
  - apply andb_false_iff in Hin'. rewrite !N.leb_gt in Hin'.
    destruct (N.ltb_spec b' c) as [Hbc|Hbc].
    + (* the probed range, hence every earlier one, is below c *)
      assert (Hi' : (S mid <= i)%nat).
      { destruct (Nat.lt_trichotomy i mid) as [Hlt|[Heq|Hgt]].
        - specialize (Hbelow Hlt). lia.
        - destruct (Hsame Heq) as [_ [-> _]]. lia.
        - lia. }
      apply IH; lia.
    + (* the probed range, hence every later one, is above c *)
      assert (Hi' : (i < mid)%nat).
      { destruct (Nat.lt_trichotomy i mid) as [Hlt|[Heq|Hgt]].
        - lia.
        - destruct (Hsame Heq) as [-> [-> _]]. lia.
        - specialize (Habove Hgt). lia. }
      apply IH; lia.
Qed.

(* the linear lookup, characterised on indices *)
Lemma lookup_linear_some : forall (tab : list entry) c k,
  lookup_linear tab c = Some k ->
  exists i a b, nth_error tab i = Some (a, b, k) /\ inside c a b.
Proof.
  induction tab as [|[[lo hi] k0] rest IH]; intros c k H; [discriminate H|].
  cbn [lookup_linear] in H.
  destruct ((lo <=? c)%N && (c <=? hi)%N) eqn:Hin.
  - injection H as ->. apply inside_b in Hin. exists 0%nat, lo, hi. split; [reflexivity | exact Hin].
  - destruct (IH c k H) as [i [a [b [Hi Hab]]]]. exists (S i), a, b. split; assumption.
Qed.

Lemma lookup_linear_none : forall (tab : list entry) c,
  lookup_linear tab c = None ->
  forall i a b k, nth_error tab i = Some (a, b, k) -> ~ inside c a b.
Proof.
  induction tab as [|[[lo hi] k0] rest IH]; intros c H i a b k Hi Hab.
  - destruct i; discriminate Hi.
  - cbn [lookup_linear] in H.
    destruct ((lo <=? c)%N && (c <=? hi)%N) eqn:Hin; [discriminate H|].
    destruct i as [|i'].
    + cbn [nth_error] in Hi. injection Hi as -> -> ->.
      apply inside_b in Hab. rewrite Hab in Hin. discriminate Hin.
    + cbn [nth_error] in Hi. exact (IH c H i' a b k Hi Hab).
Qed.

(* C14, clause 1 *)
Theorem bsearch_eq_linear : forall tab c, sorted_disjoint tab = true ->
  bsearch_class tab c = match lookup_linear tab c with Some k => k | None => L end.
Proof.
  intros tab c Hs. apply sorted_disjoint_pairwise in Hs. destruct Hs as [Hne Hinc].
  unfold bsearch_class.
  destruct (lookup_linear tab c) as [k|] eqn:Hl.
  - apply lookup_linear_some in Hl. destruct Hl as [i [a [b [Hi Hab]]]].
    assert (Hlt : (i < length tab)%nat) by (apply nth_error_Some; rewrite Hi; discriminate).
    rewrite (bsearch_found tab c Hne Hinc i a b k Hi Hab (S (length tab)) 0%nat (length tab));
      [reflexivity | lia | lia | lia | exact Hlt].
  - rewrite (bsearch_none tab c (lookup_linear_none tab c Hl)). reflexivity.
Qed.

(* ================================================================== *)
(* 3. C14: the regenerated class table (closed booleans, evaluated) *)

Lemma class_table_sorted : sorted_disjoint bidi_class_table = true.
Proof. vm_compute. reflexivity. Qed.

Lemma class_table_scalar :
  forallb (fun x => is_scalar (fst (fst x)) && is_scalar (snd (fst x)) &&
                    negb ((fst (fst x) <? 55296)%N && (57343 <? snd (fst x))%N)) bidi_class_table = true.
Proof. vm_compute. reflexivity. Qed.

Lemma class_LRE : hardcoded_class fc_LRE = LRE. Proof. vm_compute. reflexivity. Qed.
Lemma class_RLE : hardcoded_class fc_RLE = RLE. Proof. vm_compute. reflexivity. Qed.
Lemma class_PDF : hardcoded_class fc_PDF = PDF. Proof. vm_compute. reflexivity. Qed.
Lemma class_LRO : hardcoded_class fc_LRO = LRO. Proof. vm_compute. reflexivity. Qed.
Lemma class_RLO : hardcoded_class fc_RLO = RLO. Proof. vm_compute. reflexivity. Qed.
Lemma class_LRI : hardcoded_class fc_LRI = LRI. Proof. vm_compute. reflexivity. Qed.
Lemma class_RLI : hardcoded_class fc_RLI = RLI. Proof. vm_compute. reflexivity. Qed.
Lemma class_FSI : hardcoded_class fc_FSI = FSI. Proof. vm_compute. reflexivity. Qed.
Lemma class_PDI : hardcoded_class fc_PDI = PDI. Proof. vm_compute. reflexivity. Qed.
Lemma class_ALM : hardcoded_class fc_ALM = AL. Proof. vm_compute. reflexivity. Qed.
Lemma class_LRM : hardcoded_class fc_LRM = L. Proof. vm_compute. reflexivity. Qed.
Lemma class_RLM : hardcoded_class fc_RLM = R. Proof. vm_compute. reflexivity. Qed.

Lemma unicode_version_16 : unicode_version = (16, 0, 0)%N.
Proof. vm_compute. reflexivity. Qed.

Theorem C14_structure : C14_structure_statement.
Proof.
  unfold C14_structure_statement.
  split; [exact bsearch_eq_linear|]. split; [exact class_table_sorted|].
  split; [exact class_table_scalar|].
  split; [exact class_LRE|]. split; [exact class_RLE|]. split; [exact class_PDF|].
  split; [exact class_LRO|]. split; [exact class_RLO|]. split; [exact class_LRI|].
  split; [exact class_RLI|]. split; [exact class_FSI|]. split; [exact class_PDI|].
  split; [exact class_ALM|]. split; [exact class_LRM|]. split; [exact class_RLM|].
  exact unicode_version_16.
Qed.

(* ================================================================== *)
(* 4. C15: the bracket-pair table *)

Notation ptriple := (N * N * option N)%type.

(* boolean NoDup over N *)
Fixpoint memb (x : N) (l : list N) : bool :=
  match l with [] => false | y :: r => (x =? y)%N || memb x r end.
Fixpoint nodupb (l : list N) : bool :=
  match l with [] => true | x :: r => negb (memb x r) && nodupb r end.

Lemma memb_In x l : In x l -> memb x l = true.
Proof.
  induction l as [|y r IH]; intros H; [destruct H|].
  cbn [memb]. destruct H as [->|H].
  - rewrite N.eqb_refl. reflexivity.
  - rewrite (IH H). apply orb_true_r.
Qed.

Lemma nodupb_sound l : nodupb l = true -> NoDup l.
Proof.
  induction l as [|x r IH]; intros H; [constructor|].
  cbn [nodupb] in H. apply andb_true_iff in H. destruct H as [Hm Hr].
  constructor; [|exact (IH Hr)].
  intros Hin. apply memb_In in Hin. rewrite Hin in Hm. discriminate Hm.
Qed.

(* boolean equalities *)
Definition optN_eqb (a b : option N) : bool :=
  match a, b with
  | Some x, Some y => (x =? y)%N
  | None, None => true
  | _, _ => false
  end.

Lemma optN_eqb_sound a b : optN_eqb a b = true -> a = b.
Proof.
  destruct a as [x|], b as [y|]; cbn [optN_eqb]; intros H;
    try discriminate H; [apply N.eqb_eq in H; subst; reflexivity | reflexivity].
Qed.

Definition ptriple_eqb (x y : ptriple) : bool :=
  (fst (fst x) =? fst (fst y))%N && (snd (fst x) =? snd (fst y))%N && optN_eqb (snd x) (snd y).

Lemma ptriple_eqb_sound x y : ptriple_eqb x y = true -> x = y.
Proof.
  destruct x as [[xo xc] xk], y as [[yo yc] yk]. unfold ptriple_eqb. cbn [fst snd].
  intros H. apply andb_true_iff in H. destruct H as [H Hk].
  apply andb_true_iff in H. destruct H as [Ho Hc].
  apply N.eqb_eq in Ho. apply N.eqb_eq in Hc. apply optN_eqb_sound in Hk.
  subst. reflexivity.
Qed.

Definition res_eqb (a b : option (N * bool)) : bool :=
  match a, b with
  | Some (x, p), Some (y, q) => (x =? y)%N && Bool.eqb p q
  | None, None => true
  | _, _ => false
  end.

Lemma res_eqb_sound a b : res_eqb a b = true -> a = b.
Proof.
  destruct a as [[x p]|], b as [[y q]|]; cbn [res_eqb]; intros H; try discriminate H; [|reflexivity].
  apply andb_true_iff in H. destruct H as [Hx Hp].
  apply N.eqb_eq in Hx. apply Bool.eqb_prop in Hp. subst. reflexivity.
Qed.

(* clause 1 *)
Lemma pairs_nodup : NoDup (pair_chars bidi_pairs_table).
Proof. apply nodupb_sound. vm_compute. reflexivity. Qed.

(* clause 2: the lookup is literally a [find] — for every table *)
Lemma matched_is_find : forall (tab : list ptriple) c,
  matched_opening_bracket_in tab c =
    match find (fun x => (fst (fst x) =? c)%N || (snd (fst x) =? c)%N) tab with
    | Some x => Some (pair_key x, (fst (fst x) =? c)%N)
    | None => None
    end.
Proof.
  induction tab as [|[[o cl] k] rest IH]; intros c; [reflexivity|].
  cbn [matched_opening_bracket_in find fst snd].
  destruct ((o =? c)%N || (cl =? c)%N).
  - unfold pair_key. cbn [fst snd]. reflexivity.
  - apply IH.
Qed.

Lemma bracket_is_find : forall c,
  hardcoded_bracket c =
    match find (fun x => (fst (fst x) =? c)%N || (snd (fst x) =? c)%N) bidi_pairs_table with
    | Some x => Some (pair_key x, (fst (fst x) =? c)%N)
    | None => None
    end.
Proof. intros c. unfold hardcoded_bracket. apply matched_is_find. Qed.

(* clause 3 *)
Definition members_check (x : ptriple) : bool :=
  res_eqb (hardcoded_bracket (fst (fst x))) (Some (pair_key x, true)) &&
  res_eqb (hardcoded_bracket (snd (fst x))) (Some (pair_key x, false)).

Lemma members_check_all : forallb members_check bidi_pairs_table = true.
Proof. vm_compute. reflexivity. Qed.

Lemma bracket_members : forall x, In x bidi_pairs_table ->
  hardcoded_bracket (fst (fst x)) = Some (pair_key x, true) /\
  hardcoded_bracket (snd (fst x)) = Some (pair_key x, false).
Proof.
  intros x Hx. pose proof members_check_all as H.
  rewrite forallb_forall in H. specialize (H x Hx).
  unfold members_check in H. apply andb_true_iff in H. destruct H as [Ho Hc].
  split; apply res_eqb_sound; assumption.
Qed.

(* clause 4 *)
Definition keys_check (tab : list ptriple) : bool :=
  forallb (fun x => forallb (fun y =>
    implb (pair_key x =? pair_key y)%N (ptriple_eqb x y || (pair_key x =? 12296)%N)) tab) tab.

Lemma keys_check_all : keys_check bidi_pairs_table = true.
Proof. vm_compute. reflexivity. Qed.

Lemma bracket_keys : forall x y, In x bidi_pairs_table -> In y bidi_pairs_table ->
  pair_key x = pair_key y -> x = y \/ pair_key x = 12296%N.
Proof.
  intros x y Hx Hy Hk. pose proof keys_check_all as H. unfold keys_check in H.
  rewrite forallb_forall in H. specialize (H x Hx).
  rewrite forallb_forall in H. specialize (H y Hy).
  rewrite Hk, N.eqb_refl in H. cbn [implb] in H. rewrite <- Hk in H.
  apply orb_true_iff in H. destruct H as [H|H].
  - left. apply ptriple_eqb_sound. exact H.
  - right. apply N.eqb_eq. exact H.
Qed.

(* clause 5 *)
Lemma brackets_ON_b :
  forallb (fun c => ceq (hardcoded_class c) ON) (pair_chars bidi_pairs_table) = true.
Proof. vm_compute. reflexivity. Qed.

Lemma brackets_ON : Forall (fun c => hardcoded_class c = ON) (pair_chars bidi_pairs_table).
Proof.
  apply Forall_forall. intros c Hc. pose proof brackets_ON_b as H.
  rewrite forallb_forall in H. apply ceq_eq. exact (H c Hc).
Qed.

Theorem C15_structure : C15_structure_statement.
Proof.
  unfold C15_structure_statement.
  split; [exact pairs_nodup|]. split; [exact bracket_is_find|].
  split; [exact bracket_members|]. split; [exact bracket_keys|].
  exact brackets_ON.
Qed.
