(* Proofs/SrcTieCommon.v — shared vocabulary of the lib.rs ties (SrcTieDir, SrcTieBaseDir, SrcTieL1). *)
From BidiVerif Require Import Base ConstsGen TablesGen ModelText RsPrelude ModelResolve ModelLine.

(* the TextSource / BidiDataSource instances the generic functions are applied to *)
Definition ts_of (e : enc) : rs_text_source :=
  {| rs_char_len := char_len e; rs_text_len := t_len e; rs_chars := t_chars e; rs_char_indices := t_char_indices e;
     rs_indices_lengths := t_indices_lengths e |}.
Definition rs_ds_of (ds : datasource) : rs_data_source := {| rs_bidi_class := ds_class ds |}.

(* equal up to the source line recorded in a panic *)
Definition res_sim {A} (r1 r2 : res A) : Prop :=
  match r1, r2 with Ok a, Ok b => a = b | Panic _, Panic _ => True | _, _ => False end.
