(* Proofs/ExplicitSpec.v — the explicit stage of the model (explicit.rs, ModelResolve.explicit_compute,
   code-unit granularity) simulates X1-X8 of the specification (Spec.explicit_levels, character
   granularity).  Simulation relation: the specification state is the abstraction [abs] of the model
   state (stack mapped entry-wise by [conv], counters equal). *)
From BidiVerif Require Import Base ConstsGen TablesGen ModelText ModelResolve ModelLine Spec Obs Judge Stmts Stmts2.
From BidiVerif.Proofs Require Import LevelOps.
From Coq Require Import Lia PeanoNat ZArith ZifyBool ZifyNat.
Ltac Zify.zify_post_hook ::= Z.div_mod_to_equations.

(* ------------------------------------------------------------------ generic helpers *)
Lemma bind_ok {A B} (e : res A) (f : A -> res B) y :
  bind e f = Ok y -> exists x, e = Ok x /\ f x = Ok y.
Proof. destruct e as [a|s]; cbn; intros H; [exists a; auto | discriminate]. Qed.

Lemma get_ok {A} site (l : list A) i x : get site l i = Ok x -> nth_error l i = Some x.
Proof. unfold get. destruct (nth_error l i); intros H; [injection H as ->; reflexivity | discriminate]. Qed.

Lemma upd_opt_spec {A} : forall (l : list A) i x l',
  upd_opt l i x = Some l' ->
  nth_error l' i = Some x /\ forall u, u <> i -> nth_error l' u = nth_error l u.
Proof.
  induction l as [|h t IH]; intros i x l' H; [destruct i; discriminate|].
  destruct i as [|i]; cbn in H.
  - injection H as <-. split; [reflexivity|]. intros [|u] Hu; [congruence | reflexivity].
  - destruct (upd_opt t i x) as [t'|] eqn:E; [|discriminate]. injection H as <-.
    destruct (IH _ _ _ E) as [H1 H2]. split; [exact H1|].
    intros [|u] Hu; [reflexivity | cbn; apply H2; congruence].
Qed.

Lemma upd_ok {A} site (l : list A) i x l' :
  upd site l i x = Ok l' ->
  nth_error l' i = Some x /\ forall u, u <> i -> nth_error l' u = nth_error l u.
Proof.
  unfold upd. destruct (upd_opt l i x) as [l''|] eqn:E; intros H; [|discriminate].
  injection H as <-. eapply upd_opt_spec; eauto.
Qed.

(* ------------------------------------------------------------------ level arithmetic *)
Lemma next_rtl_odd l :
  level_next_rtl l = if next_odd l <=? 125 then Some (next_odd l) else None.
Proof.
  unfold next_odd. rewrite even_mod2. unfold_levels.
  destruct (l mod 2 =? 0) eqn:E0; split_ifs; try reflexivity; try (f_equal; lia); lia.
Qed.
Lemma next_ltr_even l :
  level_next_ltr l = if next_even l <=? 125 then Some (next_even l) else None.
Proof.
  unfold next_even. rewrite even_mod2. unfold_levels.
  destruct (l mod 2 =? 0) eqn:E0; split_ifs; try reflexivity; try (f_equal; lia); lia.
Qed.

(* ------------------------------------------------------------------ FSI resolution *)
Lemma first_strong_fuel_strong : forall fuel cls i hi c,
  first_strong_fuel fuel cls i hi = Some c -> is_strong c = true.
Proof.
  induction fuel as [|f IH]; intros cls i hi c H; cbn [first_strong_fuel] in H; [discriminate|].
  destruct (hi <=? i); [discriminate|].
  destruct (nth_error cls i) as [k|]; [|discriminate].
  destruct (is_strong k) eqn:Ek; [injection H as <-; exact Ek|].
  destruct (is_init k).
  - destruct (matching_pdi cls i) as [j|]; [|discriminate].
    destruct (hi <=? j); [discriminate|]. eapply IH; eauto.
  - eapply IH; eauto.
Qed.
Lemma fsi_strong_strong cls i c : fsi_strong cls i = Some c -> is_strong c = true.
Proof. unfold fsi_strong, first_strong. apply first_strong_fuel_strong. Qed.

(* the class the implementation reports for character [i] of class [c] *)
Definition rep (cls0 : list bclass) (i : nat) (c : bclass) : bclass :=
  if c =c FSI then match fsi_strong cls0 i with Some L => LRI | Some _ => RLI | None => FSI end else c.
Fixpoint rep_from (cls0 : list bclass) (i : nat) (l : list bclass) : list bclass :=
  match l with [] => [] | c :: r => rep cls0 i c :: rep_from cls0 (S i) r end.

Lemma rep_from_map cls0 : forall l i,
  map (fun ic : nat * bclass => let '(i, c) := ic in
         if c =c FSI then match fsi_strong cls0 i with Some L => LRI | Some _ => RLI | None => FSI end
         else c) (combine (seq i (length l)) l) = rep_from cls0 i l.
Proof. induction l as [|c r IH]; intros i; cbn; [reflexivity|]. rewrite IH. reflexivity. Qed.
Lemma reported_rep_from cls0 : reported_classes cls0 = rep_from cls0 0 cls0.
Proof. unfold reported_classes. apply rep_from_map. Qed.
Lemma rep_from_length cls0 : forall l i, length (rep_from cls0 i l) = length l.
Proof. induction l; intros; cbn; auto. Qed.

(* ------------------------------------------------------------------ abstraction *)
Definition conv (en : nat * ostatus) : sentry :=
  (fst en, match snd en with ORTL => OvR | OLTR => OvL | _ => ONone end, ostatus_is_isolate (snd en)).
Definition absx (stack : list (nat * ostatus)) (oi oe vi : nat) : xstate :=
  {| x_stack := map conv stack; x_oi := oi; x_oe := oe; x_vi := vi |}.
Definition abs (st : ex_state) : xstate := absx (ex_stack st) (ex_oi st) (ex_oe st) (ex_vi st).

Lemma pop_conv : forall l, pop_isolate (map conv l) = map conv (pop_through_isolate l).
Proof. induction l as [|[lv []] r IH]; cbn; auto. Qed.

(* ------------------------------------------------------------------ ex_step, decomposed *)
Definition ex_core (st : ex_state) (last_level : nat) (last_status : ostatus) (i : nat) (k : bclass)
  : res (list (nat * ostatus) * nat * nat * nat * list nat * list bclass) :=
      match k with
      | RLE | LRE | RLO | LRO | RLI | LRI | FSI =>
        levels <- upd 70 (ex_levels st) i last_level ;;
        let is_isolate := is_isolate_init k in
        pc <- (if is_isolate then apply_override 78 last_status (ex_pc st) i else Ok (ex_pc st)) ;;
        let new_level := if class_is_rtl k then level_next_rtl last_level
                         else level_next_ltr last_level in
        '(stack, oi, oe, vi, levels) <-
          match new_level with
          | Some nl =>
            if (ex_oi st =? 0) && (ex_oe st =? 0) then
              let status := match k with
                            | RLO => ORTL | LRO => OLTR
                            | RLI | LRI | FSI => OIsolate
                            | _ => ONeutral end in
              let stack := (nl, status) :: ex_stack st in
              if is_isolate then Ok (stack, ex_oi st, ex_oe st, S (ex_vi st), levels)
              else levels' <- upd 109 levels i nl ;;
                   Ok (stack, ex_oi st, ex_oe st, ex_vi st, levels')
            else if is_isolate then Ok (ex_stack st, S (ex_oi st), ex_oe st, ex_vi st, levels)
            else if ex_oi st =? 0 then Ok (ex_stack st, ex_oi st, S (ex_oe st), ex_vi st, levels)
            else Ok (ex_stack st, ex_oi st, ex_oe st, ex_vi st, levels)
          | None =>
            if is_isolate then Ok (ex_stack st, S (ex_oi st), ex_oe st, ex_vi st, levels)
            else if ex_oi st =? 0 then Ok (ex_stack st, ex_oi st, S (ex_oe st), ex_vi st, levels)
            else Ok (ex_stack st, ex_oi st, ex_oe st, ex_vi st, levels)
          end ;;
        pc <- (if is_isolate then Ok pc else upd 121 pc i BN) ;;
        Ok (stack, oi, oe, vi, levels, pc)
      | PDI =>
        let '(stack, oi, oe, vi) :=
          if 0 <? ex_oi st then (ex_stack st, ex_oi st - 1, ex_oe st, ex_vi st)
          else if 0 <? ex_vi st then (pop_through_isolate (ex_stack st), ex_oi st, 0, ex_vi st - 1)
          else (ex_stack st, ex_oi st, ex_oe st, ex_vi st) in
        match stack with
        | [] => Panic 143
        | (ll, ls) :: _ =>
          levels <- upd 144 (ex_levels st) i ll ;;
          pc <- apply_override 147 ls (ex_pc st) i ;;
          Ok (stack, oi, oe, vi, levels, pc)
        end
      | PDF =>
        let '(stack, oe) :=
          if 0 <? ex_oi st then (ex_stack st, ex_oe st)
          else if 0 <? ex_oe st then (ex_stack st, ex_oe st - 1)
          else if negb (ostatus_is_isolate last_status) && (2 <=? length (ex_stack st))
               then (tl (ex_stack st), ex_oe st)
          else (ex_stack st, ex_oe st) in
        match stack with
        | [] => Panic 164
        | (ll, _) :: _ =>
          levels <- upd 164 (ex_levels st) i ll ;;
          pc <- upd 166 (ex_pc st) i BN ;;
          Ok (stack, ex_oi st, oe, ex_vi st, levels, pc)
        end
      | B => Ok (ex_stack st, ex_oi st, ex_oe st, ex_vi st, ex_levels st, ex_pc st)
      | _ =>
        levels <- upd 175 (ex_levels st) i last_level ;;
        pc <- (if k =c BN then Ok (ex_pc st) else apply_override 181 last_status (ex_pc st) i) ;;
        Ok (ex_stack st, ex_oi st, ex_oe st, ex_vi st, levels, pc)
      end.

Definition ex_finish (st : ex_state) (i len : nat) (k : bclass)
  (r : list (nat * ostatus) * nat * nat * nat * list nat * list bclass) : res ex_state :=
  let '(stack, oi, oe, vi, levels, pc) := r in
    '(levels, pc) <- copy_units levels pc i (range 1 len) ;;
    li <- get 198 levels i ;;
    let '(run_level, run_start, runs) :=
      if i =? 0 then (li, ex_run_start st, ex_runs st)
      else if negb (removed_by_x9 k) && negb (li =? ex_run_level st)
           then (li, i, ex_runs st ++ [(ex_run_start st, i)])
      else (ex_run_level st, ex_run_start st, ex_runs st) in
    Ok {| ex_stack := stack; ex_oi := oi; ex_oe := oe; ex_vi := vi; ex_levels := levels; ex_pc := pc;
          ex_run_level := run_level; ex_run_start := run_start; ex_runs := runs |}.

Lemma ex_step_eq oc st i len :
  ex_step oc st (i, len) =
  match ex_stack st with
  | [] => Panic 64
  | (ll, ls) :: _ => k <- get 66 oc i ;; r <- ex_core st ll ls i k ;; ex_finish st i len k r
  end.
Proof. reflexivity. Qed.

(* ------------------------------------------------------------------ the per-character core *)
Lemma apply_override_ok site s pc i pc' :
  apply_override site s pc i = Ok pc' ->
  nth_error pc' i = match s with ORTL => Some R | OLTR => Some L | _ => nth_error pc i end /\
  forall u, u <> i -> nth_error pc' u = nth_error pc u.
Proof.
  destruct s; cbn; intros H; try (injection H as <-; split; auto);
    apply upd_ok in H; exact H.
Qed.

Ltac inv1 :=
  match goal with
  | H : bind _ _ = Ok _ |- _ => apply bind_ok in H; destruct H as (? & ? & H)
  | H : Panic _ = Ok _ |- _ => discriminate H
  | H : Ok _ = Ok _ |- _ => injection H as H; subst
  | H : upd _ _ _ _ = Ok _ |- _ => apply upd_ok in H; destruct H as [? ?]
  | H : apply_override _ _ _ _ = Ok _ |- _ => apply apply_override_ok in H; destruct H as [? ?]
  | H : (let '(_, _) := ?x in _) = Ok _ |- _ => destruct x eqn:?
  | H : (if ?b then _ else _) = Ok _ |- _ => destruct b eqn:?
  | H : match ?x with _ => _ end = Ok _ |- _ => destruct x eqn:?
  end.

Lemma core_frame st ll ls i k stack oi oe vi levels pc :
  ex_core st ll ls i k = Ok (stack, oi, oe, vi, levels, pc) ->
  forall u, u <> i ->
    nth_error levels u = nth_error (ex_levels st) u /\ nth_error pc u = nth_error (ex_pc st) u.
Proof.
  intros H u Hu.
  destruct k; cbn [ex_core is_isolate_init class_is_rtl ceq bclass_beq] in H.
  all: repeat inv1.
  all: try (split; repeat match goal with Hf : forall u, u <> _ -> nth_error _ u = _ |- _ => rewrite (Hf _ Hu) end; reflexivity).
Qed.


Ltac fin ls Hx :=
  injection Hx as <- <- <-;
  split; [reflexivity|];
  split; intros Hr; try discriminate Hr; try split;
  destruct ls; cbn [ovr_class] in *; congruence.

Lemma core_sim cls0 pl st ll ls rest i p c0 stack oi oe vi levels pc s' lv xc :
  ex_stack st = (ll, ls) :: rest ->
  ex_core st ll ls p (rep cls0 i c0) = Ok (stack, oi, oe, vi, levels, pc) ->
  nth_error (ex_levels st) p = Some pl ->
  nth_error (ex_pc st) p = Some (rep cls0 i c0) ->
  x_step cls0 pl (abs st) i c0 = (s', lv, xc) ->
  s' = absx stack oi oe vi /\
  (is_removed c0 = false ->
     nth_error levels p = lv /\
     nth_error pc p = Some (match xc, rep cls0 i c0 with FSI, k => k | k, _ => k end)) /\
  (is_removed c0 = true -> nth_error pc p = Some BN).
Proof.
  intros Hst Hc Hl Hp Hx.
  unfold x_step, abs, absx in Hx. cbn [x_stack x_oi x_oe x_vi] in Hx.
  assert (Htop : top_of (map conv (ex_stack st)) pl =
                 (ll, match ls with ORTL => OvR | OLTR => OvL | _ => ONone end, ostatus_is_isolate ls))
    by (rewrite Hst; reflexivity).
  rewrite Htop in Hx. clear Htop.
  unfold max_depth_spec in Hx.
  destruct c0; unfold rep in *; cbn [ceq bclass_beq] in *.
  9: destruct (fsi_strong cls0 i) as [[]|] eqn:Ef; try (apply fsi_strong_strong in Ef; discriminate Ef).
  all: cbn [ex_core is_isolate_init class_is_rtl ceq bclass_beq] in Hc.
  all: rewrite ?next_rtl_odd, ?next_ltr_even in Hc.
  all: try (repeat inv1; fin ls Hx).
  all: try (match type of Hc with context [next_odd _ <=? 125] =>
       destruct (next_odd ll <=? 125) eqn:En;
       destruct (ex_oi st =? 0) eqn:Eoi; destruct (ex_oe st =? 0) eqn:Eoe; cbn [andb] in Hc, Hx;
       repeat inv1; fin ls Hx end).
  all: try (match type of Hc with context [next_even _ <=? 125] =>
       destruct (next_even ll <=? 125) eqn:En;
       destruct (ex_oi st =? 0) eqn:Eoi; destruct (ex_oe st =? 0) eqn:Eoe; cbn [andb] in Hc, Hx;
       repeat inv1; fin ls Hx end).
  - (* PDF *)
    rewrite Hst in Hc, Hx.
    destruct (0 <? ex_oi st); [|destruct (0 <? ex_oe st); [|destruct ls; destruct rest as [|[l2 s2] r2]]];
      cbn in Hc, Hx; repeat inv1; injection Hx as <- <- <-;
      (split; [reflexivity|]; split; intros Hr; [discriminate Hr | assumption]).
  - (* PDI *)
    destruct (0 <? ex_oi st) eqn:Eoi; [|destruct (ex_vi st) as [|v] eqn:Evi];
      cbn [Nat.ltb Nat.leb Nat.eqb x_stack] in Hc, Hx.
    + rewrite Hst in Hc, Hx. cbn [map top_of conv fst snd] in Hx. repeat inv1. fin ls Hx.
    + rewrite Hst in Hc, Hx. cbn [map top_of conv fst snd] in Hx. repeat inv1. fin ls Hx.
    + rewrite pop_conv in Hx.
      destruct (pop_through_isolate (ex_stack st)) as [|[l2 s2] r2] eqn:Ep; [discriminate Hc|].
      cbn [map top_of conv fst snd] in Hx. repeat inv1. fin s2 Hx.
Qed.

(* ------------------------------------------------------------------ copying to the other units *)
Lemma copy_units_ok : forall js levels pc i len levels' pc',
  copy_units levels pc i js = Ok (levels', pc') ->
  (forall j, In j js -> 1 <= j /\ j < len) ->
  forall u, u <= i \/ i + len <= u ->
    nth_error levels' u = nth_error levels u /\ nth_error pc' u = nth_error pc u.
Proof.
  induction js as [|j js IH]; intros levels pc i len levels' pc' H Hjs u Hu; cbn [copy_units] in H.
  - injection H as <- <-. split; reflexivity.
  - repeat inv1.
    assert (Hj : 1 <= j /\ j < len) by (apply Hjs; left; reflexivity).
    assert (Hne : u <> i + j) by lia.
    destruct (IH _ _ _ len _ _ H) with (u := u) as [A1 A2]; [intros; apply Hjs; right; assumption | exact Hu |].
    rewrite A1, A2. split; auto.
Qed.

Lemma finish_ok st i len k stack oi oe vi levels pc st' :
  ex_finish st i len k (stack, oi, oe, vi, levels, pc) = Ok st' ->
  ex_stack st' = stack /\ ex_oi st' = oi /\ ex_oe st' = oe /\ ex_vi st' = vi /\
  forall u, u <= i \/ i + len <= u ->
    nth_error (ex_levels st') u = nth_error levels u /\ nth_error (ex_pc st') u = nth_error pc u.
Proof.
  unfold ex_finish. intros H.
  apply bind_ok in H. destruct H as ([levels' pc'] & Hcu & H).
  apply bind_ok in H. destruct H as (li & _ & H).
  assert (Hfr : forall u, u <= i \/ i + len <= u ->
            nth_error levels' u = nth_error levels u /\ nth_error pc' u = nth_error pc u).
  { eapply copy_units_ok; [exact Hcu|]. unfold range. intros j Hj. apply in_seq in Hj. lia. }
  destruct (i =? 0); [|destruct (negb (removed_by_x9 k) && negb (li =? ex_run_level st))];
    injection H as <-; cbn; auto.
Qed.

(* ------------------------------------------------------------------ one step *)
Lemma step_inv oc st p len st' :
  ex_step oc st (p, len) = Ok st' ->
  exists ll ls rest k stack oi oe vi levels pc,
    ex_stack st = (ll, ls) :: rest /\ nth_error oc p = Some k /\
    ex_core st ll ls p k = Ok (stack, oi, oe, vi, levels, pc) /\
    ex_finish st p len k (stack, oi, oe, vi, levels, pc) = Ok st'.
Proof.
  rewrite ex_step_eq. intros H.
  destruct (ex_stack st) as [|[ll ls] rest] eqn:Hst; [discriminate H|].
  apply bind_ok in H. destruct H as (k & Hk & H). apply get_ok in Hk.
  apply bind_ok in H. destruct H as ([[[[[stack oi] oe] vi] levels] pc] & Hc & H).
  exists ll, ls, rest, k, stack, oi, oe, vi, levels, pc. auto.
Qed.

Lemma step_frame oc st p len st' :
  ex_step oc st (p, len) = Ok st' ->
  forall u, u < p \/ (p < u /\ p + len <= u) ->
    nth_error (ex_levels st') u = nth_error (ex_levels st) u /\
    nth_error (ex_pc st') u = nth_error (ex_pc st) u.
Proof.
  intros H u Hu. apply step_inv in H.
  destruct H as (ll & ls & rest & k & stack & oi & oe & vi & levels & pc & Hst & Hk & Hc & Hf).
  apply finish_ok in Hf. destruct Hf as (_ & _ & _ & _ & Hf).
  destruct (Hf u ltac:(lia)) as [A1 A2].
  destruct (core_frame _ _ _ _ _ _ _ _ _ _ _ Hc u ltac:(lia)) as [B1 B2].
  rewrite A1, A2. auto.
Qed.

Lemma step_sim oc cls0 pl st p len i c0 st' s' lv xc :
  ex_step oc st (p, len) = Ok st' ->
  nth_error oc p = Some (rep cls0 i c0) ->
  nth_error (ex_levels st) p = Some pl ->
  nth_error (ex_pc st) p = Some (rep cls0 i c0) ->
  x_step cls0 pl (abs st) i c0 = (s', lv, xc) ->
  s' = abs st' /\
  (is_removed c0 = false ->
     nth_error (ex_levels st') p = lv /\
     nth_error (ex_pc st') p = Some (match xc, rep cls0 i c0 with FSI, k => k | k, _ => k end)) /\
  (is_removed c0 = true -> nth_error (ex_pc st') p = Some BN).
Proof.
  intros H Hoc Hl Hp Hx. apply step_inv in H.
  destruct H as (ll & ls & rest & k & stack & oi & oe & vi & levels & pc & Hst & Hk & Hc & Hf).
  assert (k = rep cls0 i c0) by congruence. subst k.
  apply finish_ok in Hf. destruct Hf as (F1 & F2 & F3 & F4 & Hf).
  destruct (Hf p ltac:(lia)) as [A1 A2].
  destruct (core_sim _ _ _ _ _ _ _ _ _ _ _ _ _ _ _ _ _ _ Hst Hc Hl Hp Hx) as (C1 & C2 & C3).
  rewrite A1, A2. split; [|split; assumption].
  rewrite C1. unfold abs. rewrite F1, F2, F3, F4. reflexivity.
Qed.

(* ------------------------------------------------------------------ the fold *)
Fixpoint ils_from (pos : nat) (lens : list nat) : list (nat * nat) :=
  match lens with [] => [] | l :: r => (pos, l) :: ils_from (pos + l) r end.

Lemma fold_frame oc : forall lens pos st stf,
  ex_fold oc st (ils_from pos lens) = Ok stf ->
  forall u, u < pos ->
    nth_error (ex_levels stf) u = nth_error (ex_levels st) u /\
    nth_error (ex_pc stf) u = nth_error (ex_pc st) u.
Proof.
  induction lens as [|l lens IH]; intros pos st stf H u Hu; cbn [ils_from ex_fold] in H.
  - injection H as <-. auto.
  - apply bind_ok in H. destruct H as (st1 & H1 & H).
    destruct (IH _ _ _ H u ltac:(lia)) as [A1 A2].
    destruct (step_frame _ _ _ _ _ H1 u ltac:(lia)) as [B1 B2].
    rewrite A1, A2. auto.
Qed.

(* the original classes seen at the first unit of every character *)
Fixpoint ocs_ok (oc : list bclass) (pos : nat) (lens : list nat) (ks : list bclass) : Prop :=
  match lens, ks with
  | [], [] => True
  | l :: lr, k :: kr => nth_error oc pos = Some k /\ ocs_ok oc (pos + l) lr kr
  | _, _ => False
  end.

Definition pcls (xc k : bclass) : bclass := match xc with FSI => k | _ => xc end.

Lemma fold_sim oc cls0 pl : forall lens cls pos i st stf xlev xcls,
  length cls = length lens ->
  Forall (fun l => 0 < l) lens ->
  ocs_ok oc pos lens (rep_from cls0 i cls) ->
  (forall u, pos <= u -> u < length oc ->
     nth_error (ex_levels st) u = Some pl /\ nth_error (ex_pc st) u = nth_error oc u) ->
  ex_fold oc st (ils_from pos lens) = Ok stf ->
  x_run cls0 pl (abs st) i cls = (xlev, xcls) ->
  forall j, j < length cls ->
    (is_removed (nth j cls L) = false ->
       nth_error (ex_levels stf) (nth j (starts_from pos lens) 0) = nth j xlev None /\
       nth_error (ex_pc stf) (nth j (starts_from pos lens) 0) = Some (pcls (nth j xcls L) (nth j (rep_from cls0 i cls) L))) /\
    (is_removed (nth j cls L) = true -> nth_error (ex_pc stf) (nth j (starts_from pos lens) 0) = Some BN).
Proof.
  induction lens as [|l lens IH]; intros cls pos i st stf xlev xcls Hlen Hpos Hoc Hun Hf Hx j Hj.
  - destruct cls; [cbn in Hj; lia | discriminate Hlen].
  - destruct cls as [|c0 cls]; [discriminate Hlen|].
    cbn [rep_from ocs_ok] in Hoc. destruct Hoc as [Hk Hoc].
    cbn [ils_from ex_fold] in Hf. apply bind_ok in Hf. destruct Hf as (st1 & H1 & Hf).
    cbn [x_run] in Hx.
    destruct (x_step cls0 pl (abs st) i c0) as [[s1 lv] xc] eqn:Ex.
    destruct (x_run cls0 pl s1 (S i) cls) as [lvs cs] eqn:Er.
    injection Hx as <- <-.
    assert (Hp : pos < length oc) by (apply nth_error_Some; congruence).
    destruct (Hun pos ltac:(lia) Hp) as [U1 U2]. rewrite Hk in U2.
    inversion Hpos as [|? ? Hl Hpos']; subst.
    destruct (step_sim _ _ _ _ _ _ _ _ _ _ _ _ H1 Hk U1 U2 Ex) as (S1 & S2 & S3).
    destruct j as [|j].
    + cbn [nth starts_from rep_from].
      destruct (fold_frame _ _ _ _ _ Hf pos ltac:(lia)) as [A1 A2].
      rewrite A1, A2. split; [|exact S3].
      intros Hr. destruct (S2 Hr) as [Q1 Q2]. split; [exact Q1|].
      rewrite Q2. destruct xc; reflexivity.
    + cbn [nth starts_from rep_from]. subst s1.
      eapply IH; try eassumption.
      * cbn in Hlen. lia.
      * intros u Hu1 Hu2.
        destruct (step_frame _ _ _ _ _ H1 u ltac:(lia)) as [B1 B2].
        rewrite B1, B2. apply Hun; lia.
      * cbn in Hj. lia.
Qed.

(* ------------------------------------------------------------------ the text view *)
Lemma ils_positions : forall chars pos,
  map (fun x : nat * N * nat => (fst (fst x), snd x)) (positions pos chars) = ils_from pos (map snd chars).
Proof. induction chars as [|[c l] r IH]; intros pos; cbn; [reflexivity | rewrite IH; reflexivity]. Qed.

Lemma expand_cons' {A} l lr (k : A) kr : expand (l :: lr) (k :: kr) = repeat k l ++ expand lr kr.
Proof. reflexivity. Qed.

Lemma ocs_expand : forall lens ks pre,
  length ks = length lens -> Forall (fun l => 0 < l) lens ->
  ocs_ok (pre ++ expand lens ks) (length pre) lens ks.
Proof.
  induction lens as [|l lens IH]; intros ks pre Hlen Hpos.
  - destruct ks; [exact I | discriminate Hlen].
  - destruct ks as [|k ks]; [discriminate Hlen|].
    inversion Hpos as [|? ? Hl Hpos']; subst.
    rewrite expand_cons'. cbn [ocs_ok]. split.
    + rewrite nth_error_app2 by lia. rewrite Nat.sub_diag.
      destruct l; [lia | reflexivity].
    + rewrite app_assoc.
      replace (length pre + l) with (length (pre ++ repeat k l)) by (rewrite app_length, repeat_length; reflexivity).
      apply IH; [cbn in Hlen; lia | exact Hpos'].
Qed.

Lemma nth_error_repeat' {A} (a : A) : forall n u, u < n -> nth_error (repeat a n) u = Some a.
Proof. induction n; intros [|u] H; cbn; try lia; [reflexivity | apply IHn; lia]. Qed.

Lemma explicit_agrees_main : explicit_agrees_statement.
Proof.
  intros e text chars cls0 pl Hview Hlen Hpl HB lens n oc levels pc runs Hex.
  destruct Hview as (_ & Hil & _ & Htl & Hch).
  assert (Hpos : Forall (fun l => 0 < l) lens).
  { unfold lens. clear -Hch. induction Hch as [|ch r [_ H] _ IH]; cbn; constructor; assumption. }
  rewrite ils_positions in Hil. fold lens in Hil, Htl. fold n in Htl.
  unfold explicit_compute in Hex. rewrite Htl, Hil in Hex.
  destruct (n =? length oc) eqn:En; cbn [negb] in Hex; [|discriminate Hex].
  apply Nat.eqb_eq in En.
  apply bind_ok in Hex. destruct Hex as (stf & Hf & Hex). injection Hex as <- <- _.
  destruct (explicit_levels cls0 pl) as [xlev xcls] eqn:Ex.
  intros i Hi st.
  assert (Hoc : ocs_ok oc 0 lens (rep_from cls0 0 cls0)).
  { unfold oc. rewrite reported_rep_from.
    apply (ocs_expand lens (rep_from cls0 0 cls0) []); [|exact Hpos].
    rewrite rep_from_length. unfold lens. rewrite map_length. exact Hlen. }
  rewrite reported_rep_from.
  match type of Hf with ex_fold _ ?s0 _ = _ => set (st0 := s0) in * end.
  assert (Hun : forall u, 0 <= u -> u < length oc ->
            nth_error (ex_levels st0) u = Some pl /\ nth_error (ex_pc st0) u = nth_error oc u).
  { intros u _ Hu. cbn. split; [apply nth_error_repeat'; lia | reflexivity]. }
  assert (Hlen' : length cls0 = length lens) by (unfold lens; rewrite map_length; exact Hlen).
  destruct (fold_sim oc cls0 pl lens cls0 0 0 st0 stf xlev xcls Hlen' Hpos Hoc Hun Hf Ex i Hi) as [R1 R2].
  split; [|exact R2].
  intros Hr. destruct (R1 Hr) as [Q1 Q2]. split; [exact Q1|].
  unfold st. rewrite Q2. unfold pcls. destruct (nth i xcls L); reflexivity.
Qed.
