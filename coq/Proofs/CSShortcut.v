(* Proofs/CSShortcut.v — CS_shortcut: a paragraph at level 0 whose classes contain no R, AL, AN, no
   embedding/override initiator and no isolate initiator resolves (Spec.v) to level 0 everywhere.
   The proof is about Spec.v only.  Invariants:
     P0 = pure_ltr_class                      (classes on input, through X1-X8 and W1-W6)
     P1 = P0 without EN                       (after W7 with sos = L; preserved by N0, N1, N2)
   and P1 c -> implicit_level 0 c = 0.  All explicit levels are [Some 0] or [None], hence
   lev_at = 0 everywhere and sos = eos = embedding direction = L for EVERY list of positions, whatever
   isolating_sequences returns. *)
From BidiVerif Require Import Base ConstsGen TablesGen ModelText ModelResolve ModelLine Spec Obs Judge StageRel
     Stmts Stmts2 Stmts3 Stmts4 Stmts5 Stmts6.
From Coq Require Import List Lia Arith Bool.
Import ListNotations.

Definition P0 (c : bclass) : Prop := pure_ltr_class c = true.
Definition s1 (c : bclass) : bool := pure_ltr_class c && negb (c =c EN).
Definition P1 (c : bclass) : Prop := s1 c = true.
Definition lv0 (o : option nat) : Prop := o = None \/ o = Some 0.

Lemma P1_P0 c : P1 c -> P0 c.
Proof. unfold P1, P0, s1. intros H. apply andb_true_iff in H. tauto. Qed.

Lemma P1_implicit c : P1 c -> implicit_level 0 c = 0.
Proof. destruct c; intros H; try discriminate H; reflexivity. Qed.

Lemma P1_strong_dir c d : P1 c -> strong_dir c = Some d -> d = L.
Proof. destruct c; intros H E; try discriminate H; try discriminate E; cbn in E; congruence. Qed.

(* ------------------------------------------------------------------ list helpers *)
Lemma Forall_firstn {A} (P : A -> Prop) n (l : list A) : Forall P l -> Forall P (firstn n l).
Proof.
  revert l; induction n as [|n IH]; intros l H; cbn [firstn]; [constructor|].
  destruct l as [|a l]; [constructor|]. inversion H; subst. constructor; auto.
Qed.

Lemma Forall_skipn {A} (P : A -> Prop) n (l : list A) : Forall P l -> Forall P (skipn n l).
Proof.
  revert l; induction n as [|n IH]; intros l H; cbn [skipn]; [assumption|].
  destruct l as [|a l]; [constructor|]. inversion H; subst. auto.
Qed.

Lemma Forall_setnth {A} (P : A -> Prop) (l : list A) i x : Forall P l -> P x -> Forall P (setnth l i x).
Proof.
  revert i; induction l as [|a l IH]; intros i H Hx; cbn [setnth]; [destruct i; constructor|].
  inversion H; subst. destruct i as [|j]; constructor; auto.
Qed.

Lemma Forall_snth {A} (P : A -> Prop) (l : list A) d (sq : list nat) :
  Forall P l -> P d -> Forall P (map (fun i => snth l i d) sq).
Proof.
  intros H Hd. apply Forall_forall. intros x Hx. apply in_map_iff in Hx. destruct Hx as [i [<- _]].
  unfold snth. destruct (nth_in_or_default i l d) as [Hin|He].
  - rewrite Forall_forall in H. apply H, Hin.
  - rewrite He. exact Hd.
Qed.

(* ------------------------------------------------------------------ X1-X8 *)
Definition st0 : xstate := {| x_stack := [(0, ONone, false)]; x_oi := 0; x_oe := 0; x_vi := 0 |}.

Lemma x_step_pure cls0 i c :
  P0 c -> x_step cls0 0 st0 i c = (st0, if is_removed c then None else Some 0, c).
Proof. destruct c; intros H; try discriminate H; reflexivity. Qed.

Lemma x_run_pure cls0 l : forall i,
  Forall P0 l ->
  x_run cls0 0 st0 i l = (map (fun c => if is_removed c then None else Some 0) l, l).
Proof.
  induction l as [|c l IH]; intros i H; cbn [x_run map]; [reflexivity|].
  inversion H; subst. rewrite x_step_pure by assumption. rewrite IH by assumption. reflexivity.
Qed.

Lemma xlev_lv0 (l : list bclass) :
  Forall lv0 (map (fun c => if is_removed c then None else Some 0) l).
Proof.
  apply Forall_forall. intros o Ho. apply in_map_iff in Ho. destruct Ho as [c [<- _]].
  destruct (is_removed c); [left|right]; reflexivity.
Qed.

Lemma x_classes_pure (l r : list bclass) :
  Forall P0 l ->
  Forall P0 (map (fun p : bclass * bclass => match fst p, snd p with FSI, k => k | k, _ => k end) (combine l r)).
Proof.
  revert r; induction l as [|a l IH]; intros r H; cbn [combine map]; [constructor|].
  destruct r as [|b r]; [constructor|]. inversion H; subst. cbn [combine map]. constructor; [|apply IH; assumption].
  cbn [fst snd]. destruct a; try discriminate; assumption.
Qed.

(* ------------------------------------------------------------------ X10 *)
Lemma lev_at0 xlev i : Forall lv0 xlev -> lev_at xlev 0 i = 0.
Proof.
  intros H. unfold lev_at, snth. destruct (nth_in_or_default i xlev None) as [Hin|He].
  - rewrite Forall_forall in H. destruct (H _ Hin) as [E|E]; rewrite E; reflexivity.
  - rewrite He. reflexivity.
Qed.

Lemma seq_sos0 xlev idx sq : Forall lv0 xlev -> seq_sos xlev 0 idx sq = L.
Proof.
  intros H. unfold seq_sos. rewrite lev_at0 by assumption.
  destruct (rev _) as [|j r]; [reflexivity|]. rewrite lev_at0 by assumption. reflexivity.
Qed.

Lemma seq_eos0 cls0 xlev idx sq : Forall lv0 xlev -> seq_eos cls0 xlev 0 idx sq = L.
Proof.
  intros H. unfold seq_eos. rewrite lev_at0 by assumption.
  destruct (_ && _); [reflexivity|].
  destruct (filter _ idx) as [|j r]; [reflexivity|]. rewrite lev_at0 by assumption. reflexivity.
Qed.

(* ------------------------------------------------------------------ W1-W7 *)
Lemma w1_P0 t : forall prev, P0 prev -> Forall P0 t -> Forall P0 (w1 prev t).
Proof.
  induction t as [|c t IH]; intros prev Hp H; cbn [w1]; [constructor|].
  inversion H; subst.
  assert (Hc : P0 (if c =c NSM then if is_iso_ctl prev then ON else prev else c)).
  { destruct (c =c NSM); [|assumption]. destruct (is_iso_ctl prev); [reflexivity|assumption]. }
  constructor; [exact Hc|]. apply IH; assumption.
Qed.

Lemma w2_P0 t : forall strong, P0 strong -> Forall P0 t -> Forall P0 (w2 strong t).
Proof.
  induction t as [|c t IH]; intros strong Hs H; cbn [w2]; [constructor|].
  inversion H; subst. constructor.
  - destruct (c =c EN); cbn [andb]; [|assumption].
    destruct (strong =c AL) eqn:E; [|assumption].
    apply ceq_eq in E. subst strong. discriminate Hs.
  - apply IH; [|assumption]. destruct (is_strong c); assumption.
Qed.

Lemma w3_P0 t : Forall P0 t -> Forall P0 (w3 t).
Proof.
  intros H. unfold w3. apply Forall_forall. intros x Hx. apply in_map_iff in Hx.
  destruct Hx as [c [<- Hc]]. rewrite Forall_forall in H. specialize (H _ Hc).
  destruct c; try discriminate H; exact H.
Qed.

Definition oP0 (o : option bclass) : Prop := match o with Some p => P0 p | None => True end.

Lemma w4_P0 t : forall prev, oP0 prev -> Forall P0 t -> Forall P0 (w4 prev t).
Proof.
  induction t as [|c t IH]; intros prev Hp H; cbn [w4]; [constructor|].
  inversion H as [|c' t' Hc Ht]; subst. constructor; [|apply IH; [exact Hc|exact Ht]].
  destruct prev as [p|]; [|exact Hc].
  cbn [oP0] in Hp.
  destruct p; try discriminate Hp; try exact Hc;
    destruct c; try exact Hc;
    destruct t as [|x t]; try exact Hc; destruct x; try exact Hc; reflexivity.
Qed.

Lemma w5_fwd_P0 t : forall prev, Forall P0 t -> Forall P0 (w5_fwd prev t).
Proof.
  induction t as [|c t IH]; intros prev H; cbn [w5_fwd]; [constructor|].
  inversion H; subst. constructor; [|apply IH; assumption].
  destruct (_ && _); [reflexivity|assumption].
Qed.

Lemma w5_P0 t : Forall P0 t -> Forall P0 (w5 t).
Proof. intros H. unfold w5. apply Forall_rev, w5_fwd_P0, Forall_rev, w5_fwd_P0, H. Qed.

Lemma w6_P0 t : Forall P0 t -> Forall P0 (w6 t).
Proof.
  intros H. unfold w6. apply Forall_forall. intros x Hx. apply in_map_iff in Hx.
  destruct Hx as [c [<- Hc]]. rewrite Forall_forall in H. specialize (H _ Hc).
  destruct c; try discriminate H; reflexivity.
Qed.

Lemma w7_P1 t : Forall P0 t -> Forall P1 (w7 L t).
Proof.
  induction t as [|c t IH]; intros H; cbn [w7]; [constructor|].
  inversion H as [|c' t' Hc Ht]; subst.
  assert (E : match c with L | R => c | _ => L end = L) by (destruct c; try discriminate Hc; reflexivity).
  rewrite E. constructor; [|apply IH; exact Ht].
  destruct c; try discriminate Hc; reflexivity.
Qed.

Lemma weak_P1 t : Forall P0 t -> Forall P1 (weak L t).
Proof.
  intros H. unfold weak.
  apply w7_P1, w6_P0, w5_P0, w4_P0; [exact I|]. apply w3_P0, w2_P0; [reflexivity|].
  apply w1_P0; [reflexivity|exact H].
Qed.

(* ------------------------------------------------------------------ N0 *)
Lemma nsm_follow_P1 nsm fuel : forall k t, Forall P1 t -> Forall P1 (nsm_follow nsm L k fuel t).
Proof.
  induction fuel as [|f IH]; intros k t H; cbn [nsm_follow]; [exact H|].
  destruct (snth nsm k false); [|exact H]. apply IH, Forall_setnth; [exact H|reflexivity].
Qed.

Lemma n0_one_P1 nsm t p : Forall P1 t -> Forall P1 (n0_one L L nsm t p).
Proof.
  intros H. unfold n0_one. destruct p as [a b].
  set (inside := firstn (b - a - 1) (skipn (S a) t)).
  set (ctx := match find _ (rev (firstn a t)) with Some c => _ | None => L end).
  assert (Hctx : ctx = L).
  { subst ctx. destruct (find _ (rev (firstn a t))) as [c|] eqn:Ef; [|reflexivity].
    apply find_some in Ef. destruct Ef as [Hin _].
    destruct (strong_dir c) as [d|] eqn:Ed; [|reflexivity].
    apply P1_strong_dir with (c := c); [|exact Ed].
    apply in_rev in Hin.
    assert (HF : Forall P1 (firstn a t)) by (apply Forall_firstn, H).
    rewrite Forall_forall in HF. apply HF, Hin. }
  rewrite Hctx.
  assert (Hset : Forall P1
            (nsm_follow nsm L (S b) (length (setnth (setnth t a L) b L))
               (nsm_follow nsm L (S a) (length (setnth (setnth t a L) b L)) (setnth (setnth t a L) b L)))).
  { apply nsm_follow_P1, nsm_follow_P1, Forall_setnth; [|reflexivity].
    apply Forall_setnth; [exact H|reflexivity]. }
  destruct (existsb _ inside); [exact Hset|].
  destruct (existsb _ inside); [exact Hset|exact H].
Qed.

Lemma n0_fold_P1 nsm pairs : forall t, Forall P1 t -> Forall P1 (fold_left (n0_one L L nsm) pairs t).
Proof.
  induction pairs as [|p ps IH]; intros t H; cbn [fold_left]; [exact H|].
  apply IH, n0_one_P1, H.
Qed.

(* ------------------------------------------------------------------ N1/N2 *)
Lemma n12_P1 t : forall lead nexts, P1 lead -> Forall P1 t -> Forall P1 (n12 lead L t nexts).
Proof.
  induction t as [|c t IH]; intros lead nexts Hl H; cbn [n12]; [constructor|].
  destruct nexts as [|nx nr]; [constructor|].
  inversion H as [|c' t' Hc Ht]; subst.
  destruct (is_ni c).
  - constructor; [|apply IH; assumption]. destruct (lead =c nx); [exact Hl|reflexivity].
  - constructor; [exact Hc|]. apply IH; [|exact Ht].
    destruct (strong_dir c) as [d|] eqn:Ed; [|exact Hc].
    rewrite (P1_strong_dir c d Hc Ed). reflexivity.
Qed.

Lemma resolve_classes_P1 brks nsm t0 : Forall P0 t0 -> Forall P1 (resolve_classes L L L brks nsm t0).
Proof.
  intros H. unfold resolve_classes, neutral.
  apply n12_P1; [reflexivity|]. apply n0_fold_P1, weak_P1, H.
Qed.

(* ------------------------------------------------------------------ one sequence, all sequences *)
Definition snd0 (p : nat * nat) : Prop := snd p = 0.

Lemma resolve_sequence_0 cls0 cls brk xlev idx sq :
  Forall lv0 xlev -> Forall P0 cls ->
  Forall snd0 (resolve_sequence cls0 cls brk xlev 0 idx sq).
Proof.
  intros Hx Hc. unfold resolve_sequence.
  rewrite seq_sos0, seq_eos0 by assumption. rewrite lev_at0 by assumption.
  change (dir_of_level 0) with L.
  set (t3 := resolve_classes L L L _ _ _).
  assert (H3 : Forall P1 t3).
  { subst t3. apply resolve_classes_P1. apply Forall_snth; [exact Hc|reflexivity]. }
  apply Forall_forall. intros p Hp. apply in_map_iff in Hp. destruct Hp as [[i c] [<- Hin]].
  unfold snd0. cbn [fst snd]. rewrite lev_at0 by assumption.
  apply P1_implicit. apply in_combine_r in Hin. rewrite Forall_forall in H3. apply H3, Hin.
Qed.

Lemma flat_map_Forall {A B} (P : B -> Prop) (f : A -> list B) (l : list A) :
  (forall a, Forall P (f a)) -> Forall P (flat_map f l).
Proof.
  intros H. induction l as [|a l IH]; cbn [flat_map]; [constructor|].
  apply Forall_app. split; [apply H|exact IH].
Qed.

Lemma assoc_nat_0 k l v : Forall snd0 l -> assoc_nat k l = Some v -> v = 0.
Proof.
  induction l as [|[a b] l IH]; intros H E; cbn [assoc_nat] in E; [discriminate E|].
  inversion H as [|p l' Hp Hl]; subst.
  destruct (a =? k).
  - injection E as <-. exact Hp.
  - apply IH; assumption.
Qed.

Lemma fill_removed_0 l : Forall lv0 l -> fill_removed 0 l = repeat 0 (length l).
Proof.
  induction l as [|o l IH]; intros H; cbn [fill_removed length repeat]; [reflexivity|].
  inversion H as [|o' l' Ho Hl]; subst.
  destruct Ho as [-> | ->]; rewrite IH by assumption; reflexivity.
Qed.

(* ------------------------------------------------------------------ the theorem *)
Theorem cs_shortcut_proof : CS_shortcut.
Proof.
  unfold CS_shortcut. intros cls0 brk dir _ _ Hpure Hpl.
  assert (H0 : Forall P0 cls0).
  { apply Forall_forall. intros c Hc. rewrite forallb_forall in Hpure. apply Hpure, Hc. }
  unfold resolve_paragraph. rewrite Hpl.
  unfold explicit_levels. fold st0. rewrite x_run_pure by exact H0.
  set (xlev := map (fun c => if is_removed c then None else Some 0) cls0).
  assert (Hx : Forall lv0 xlev) by apply xlev_lv0.
  set (cls := x_classes cls0 cls0).
  assert (Hc : Forall P0 cls) by (subst cls; unfold x_classes; apply x_classes_pure, H0).
  set (assigned := flat_map _ _).
  assert (Ha : Forall snd0 assigned).
  { subst assigned. apply flat_map_Forall. intros sq. apply resolve_sequence_0; assumption. }
  cbn [snd].
  set (out := map _ (seq 0 (length cls0))).
  assert (Hlen : length out = length cls0) by (subst out; rewrite map_length, seq_length; reflexivity).
  rewrite <- Hlen. apply fill_removed_0.
  subst out. apply Forall_forall. intros o Ho. apply in_map_iff in Ho. destruct Ho as [i [<- _]].
  destruct (is_removed _); [left; reflexivity|].
  destruct (assoc_nat i assigned) as [v|] eqn:Ea.
  - right. f_equal. eapply assoc_nat_0; eassumption.
  - unfold snth. destruct (nth_in_or_default i xlev None) as [Hin|He].
    + rewrite Forall_forall in Hx. apply Hx, Hin.
    + left. exact He.
Qed.
