(* Proofs/C09Gen.v — generic facts for C09_final: reading an expansion back at the character starts,
   inverting [ustart], queries on expanded level vectors, paragraph lookup through [upara]. *)
From BidiVerif Require Import Base ConstsGen TablesGen ModelText ModelResolve ModelLine Spec Obs Judge
     Stmts Stmts2 Stmts3 Stmts4 Stmts5.
From BidiVerif.Proofs Require Import LIAssemble.
From Coq Require Import Lia.

Definition lpos9 (lens : list nat) : Prop := Forall (fun n => 0 < n) lens.

(* ------------------------------------------------------------------ reflexivity of the boolean equalities *)
Lemma list_eqb_refl9 {A} (eqb : A -> A -> bool) (H : forall x, eqb x x = true) l : list_eqb eqb l l = true.
Proof. induction l as [|x l IH]; [reflexivity|]. cbn [list_eqb]. rewrite H, IH. reflexivity. Qed.

Lemma opt_eqb_refl9 {A} (eqb : A -> A -> bool) (H : forall x, eqb x x = true) o : opt_eqb eqb o o = true.
Proof. destruct o; cbn [opt_eqb]; auto. Qed.

Lemma run_eqb_refl9 r : run_eqb r r = true.
Proof. unfold run_eqb. rewrite !Nat.eqb_refl. reflexivity. Qed.

Lemma opt_run_eqb_refl9 o : opt_run_eqb o o = true.
Proof. apply opt_eqb_refl9. exact run_eqb_refl9. Qed.

Lemma dir_eqb_refl9 d : dir_eqb d d = true.
Proof. destruct d; reflexivity. Qed.

Lemma bool_eqb_refl9 b : Bool.eqb b b = true.
Proof. destruct b; reflexivity. Qed.

Lemma N_list_eqb_refl9 l : N_list_eqb l l = true.
Proof. apply list_eqb_refl9. exact N.eqb_refl. Qed.

Lemma nat_list_eqb_refl9 l : nat_list_eqb l l = true.
Proof. apply list_eqb_refl9. exact Nat.eqb_refl. Qed.

Lemma list_eqb2_map9 {A B C} (R : B -> C -> bool) (f : A -> B) (g : A -> C) l :
  (forall x, In x l -> R (f x) (g x) = true) -> list_eqb2 R (map f l) (map g l) = true.
Proof.
  induction l as [|x l IH]; intros H; [reflexivity|]. cbn [map list_eqb2].
  rewrite (H x (or_introl eq_refl)), IH; [reflexivity|]. intros y Hy. apply H. right. exact Hy.
Qed.

(* ------------------------------------------------------------------ at_starts of an expansion *)
Lemma at_starts_expand_from9 {A} lens : lpos9 lens -> forall (v : list A) pre,
  length v = length lens ->
  map (nth_error (pre ++ expand lens v)) (starts_from (length pre) lens) = map Some v.
Proof.
  induction 1 as [|l lens Hl Hp IH]; intros [|x v] pre Hlen; cbn [length] in Hlen; try discriminate;
    [reflexivity|].
  rewrite la_expand_cons. cbn [starts_from map]. f_equal.
  - rewrite nth_error_app2 by lia. rewrite Nat.sub_diag. destruct l; [lia|]. reflexivity.
  - specialize (IH v (pre ++ repeat x l) ltac:(lia)).
    rewrite app_length, repeat_length, <- app_assoc in IH. exact IH.
Qed.

Lemma at_starts_expand9 {A} lens (v : list A) : lpos9 lens -> length v = length lens ->
  at_starts lens (expand lens v) = map Some v.
Proof. intros Hp Hl. exact (at_starts_expand_from9 lens Hp v [] Hl). Qed.

(* ------------------------------------------------------------------ unit_to_char inverts ustart *)
Lemma unit_to_char_from_ustart9 lens : lpos9 lens -> forall i k pos, i <= length lens ->
  unit_to_char_from k pos lens (pos + ustart lens i) = Some (k + i).
Proof.
  induction 1 as [|l lens Hl Hp IH]; intros i k pos Hi; cbn [length] in Hi.
  - assert (i = 0) by lia. subst i. unfold ustart. cbn [firstn]. rewrite la_total_nil.
    cbn [unit_to_char_from]. rewrite !Nat.add_0_r, Nat.eqb_refl. reflexivity.
  - destruct i as [|i].
    + rewrite la_ustart_0. cbn [unit_to_char_from]. rewrite !Nat.add_0_r, Nat.eqb_refl. reflexivity.
    + rewrite la_ustart_S. cbn [unit_to_char_from].
      destruct (Nat.eqb_spec pos (pos + (l + ustart lens i))) as [E|_]; [lia|].
      replace (pos + (l + ustart lens i)) with ((pos + l) + ustart lens i) by lia.
      rewrite IH by lia. f_equal. lia.
Qed.

Lemma unit_to_char_ustart9 lens i : lpos9 lens -> i <= length lens ->
  unit_to_char lens (ustart lens i) = Some i.
Proof.
  intros Hp Hi. unfold unit_to_char.
  exact (unit_to_char_from_ustart9 lens Hp i 0 0 Hi).
Qed.

Lemma char_range_urun9 lens i j : lpos9 lens -> i <= length lens -> j <= length lens ->
  char_range lens (ustart lens i, ustart lens j) = Some (i, j).
Proof.
  intros Hp Hi Hj. unfold char_range. cbn [fst snd].
  rewrite !unit_to_char_ustart9 by assumption. reflexivity.
Qed.

(* ------------------------------------------------------------------ strict monotonicity *)
Lemma ustart_lt9 lens : lpos9 lens -> forall i j, i < j -> i < length lens -> ustart lens i < ustart lens j.
Proof.
  induction 1 as [|l lens Hl Hp IH]; intros i j Hij Hi; cbn [length] in Hi; [lia|].
  destruct j as [|j]; [lia|]. destruct i as [|i].
  - rewrite la_ustart_0, la_ustart_S. lia.
  - rewrite !la_ustart_S. specialize (IH i j ltac:(lia) ltac:(lia)). lia.
Qed.

Lemma ustart_leb9 lens a i : lpos9 lens -> i < length lens ->
  (ustart lens a <=? ustart lens i) = (a <=? i).
Proof.
  intros Hp Hi. destruct (Nat.leb_spec a i) as [H|H].
  - apply Nat.leb_le. apply la_ustart_le. exact H.
  - apply Nat.leb_gt. apply ustart_lt9; assumption.
Qed.

Lemma ustart_ltb9 lens i b : lpos9 lens -> i < length lens ->
  (ustart lens i <? ustart lens b) = (i <? b).
Proof.
  intros Hp Hi. destruct (Nat.ltb_spec i b) as [H|H].
  - apply Nat.ltb_lt. apply ustart_lt9; assumption.
  - apply Nat.ltb_ge. apply la_ustart_le. exact H.
Qed.

(* ------------------------------------------------------------------ paragraph lookup *)
Lemma para_of_line_upara9 lens paras i j : lpos9 lens -> i < length lens ->
  (p <- para_of_line (map (upara lens) paras) (ustart lens i, ustart lens j) ;; Ok (p_level p))
  = (p <- para_of_line paras (i, j) ;; Ok (p_level p)).
Proof.
  intros Hp Hi. unfold para_of_line. cbn [fst].
  induction paras as [|p ps IH]; [reflexivity|].
  cbn [map find upara p_start p_end].
  rewrite ustart_leb9, ustart_ltb9 by assumption.
  destruct ((p_start p <=? i) && (i <? p_end p)); [reflexivity | exact IH].
Qed.

Lemma para_of_line_In9 paras line p : para_of_line paras line = Ok p ->
  In p paras /\ p_start p <= fst line < p_end p.
Proof.
  unfold para_of_line. destruct (find _ paras) as [q|] eqn:E; [|discriminate].
  intros H. injection H as <-. apply find_some in E as [Hin Hb].
  apply andb_true_iff in Hb as [H1 H2]. apply Nat.leb_le in H1. apply Nat.ltb_lt in H2. auto.
Qed.

(* ------------------------------------------------------------------ queries on expansions *)
Lemma existsb_repeat9 {A} (f : A -> bool) x n : 0 < n -> existsb f (repeat x n) = f x.
Proof.
  induction n as [|n IH]; [lia|]. intros _. cbn [repeat existsb].
  destruct n as [|n]; [cbn [repeat existsb]; apply orb_false_r|].
  rewrite IH by lia. apply orb_diag.
Qed.

Lemma existsb_expand9 {A} (f : A -> bool) lens : lpos9 lens -> forall v, length v = length lens ->
  existsb f (expand lens v) = existsb f v.
Proof.
  induction 1 as [|l lens Hl Hp IH]; intros [|x v] Hlen; cbn [length] in Hlen; try discriminate;
    [reflexivity|].
  rewrite la_expand_cons, existsb_app, existsb_repeat9 by exact Hl. cbn [existsb].
  rewrite IH by lia. reflexivity.
Qed.

Lemma has_rtl_expand9 lens v : lpos9 lens -> length v = length lens ->
  levels_has_rtl (expand lens v) = levels_has_rtl v.
Proof. intros. unfold levels_has_rtl. apply existsb_expand9; assumption. Qed.

Lemma pdf_twice9 x rest ltr rtl :
  para_direction_from ltr rtl (x :: x :: rest) = para_direction_from ltr rtl (x :: rest).
Proof.
  cbn [para_direction_from].
  destruct (is_ltr x) eqn:E1, (is_rtl x) eqn:E2, ltr, rtl; cbn [para_direction_from];
    rewrite ?E1, ?E2; reflexivity.
Qed.

Lemma pdf_repeat9 x n rest : forall ltr rtl, 0 < n ->
  para_direction_from ltr rtl (repeat x n ++ rest) = para_direction_from ltr rtl (x :: rest).
Proof.
  induction n as [|n IH]; intros ltr rtl Hn; [lia|].
  destruct n as [|n]; [reflexivity|].
  change (repeat x (S (S n)) ++ rest) with (x :: (repeat x (S n) ++ rest)).
  rewrite <- pdf_twice9.
  cbn [para_direction_from].
  destruct (is_ltr x) eqn:E1.
  - destruct rtl; [reflexivity|]. rewrite IH by lia. cbn [para_direction_from]. rewrite E1. reflexivity.
  - destruct (is_rtl x) eqn:E2.
    + destruct ltr; [reflexivity|]. rewrite IH by lia. cbn [para_direction_from]. rewrite E1, E2. reflexivity.
    + rewrite IH by lia. cbn [para_direction_from]. rewrite E1, E2. reflexivity.
Qed.

Lemma pdf_expand9 lens : lpos9 lens -> forall v ltr rtl, length v = length lens ->
  para_direction_from ltr rtl (expand lens v) = para_direction_from ltr rtl v.
Proof.
  induction 1 as [|l lens Hl Hp IH]; intros [|x v] ltr rtl Hlen; cbn [length] in Hlen; try discriminate;
    [reflexivity|].
  rewrite la_expand_cons, pdf_repeat9 by exact Hl. cbn [para_direction_from].
  rewrite !IH by lia. reflexivity.
Qed.

Lemma para_direction_expand9 lens v : lpos9 lens -> length v = length lens ->
  para_direction (expand lens v) = para_direction v.
Proof. intros. unfold para_direction. apply pdf_expand9; assumption. Qed.

Lemma lpos_firstn9 lens : forall n, lpos9 lens -> lpos9 (firstn n lens).
Proof.
  induction lens as [|l lens IH]; intros [|n] H; cbn [firstn]; try constructor.
  - inversion H; assumption.
  - apply IH. inversion H; assumption.
Qed.
Lemma lpos_skipn9 lens : forall n, lpos9 lens -> lpos9 (skipn n lens).
Proof.
  induction lens as [|l lens IH]; intros [|n] H; cbn [skipn]; try assumption.
  apply IH. inversion H; assumption.
Qed.
Lemma lpos_sub9 lens a n : lpos9 lens -> lpos9 (firstn n (skipn a lens)).
Proof. intros H. apply lpos_firstn9, lpos_skipn9, H. Qed.

Lemma paragraph_direction_expand9 lens v p : lpos9 lens -> length v = length lens ->
  p_start p <= p_end p -> p_end p <= length lens ->
  paragraph_direction (expand lens v) (upara lens p) = paragraph_direction v p.
Proof.
  intros Hp Hl H1 H2. unfold paragraph_direction. cbn [upara p_start p_end].
  rewrite la_slice_expand by lia. cbn [bind].
  unfold slice. destruct (Nat.leb_spec (p_start p) (p_end p)) as [_|X]; [|lia].
  destruct (Nat.leb_spec (p_end p) (length v)) as [_|X]; [|lia]. cbn [andb bind]. f_equal.
  apply para_direction_expand9; [apply lpos_sub9; exact Hp|].
  rewrite !firstn_length, !skipn_length. lia.
Qed.

Lemma map_res_ext9 {A B} (f g : A -> res B) l : (forall x, In x l -> f x = g x) -> map_res f l = map_res g l.
Proof.
  induction l as [|x l IH]; intros H; [reflexivity|]. cbn [map_res].
  rewrite (H x (or_introl eq_refl)), IH; [reflexivity|]. intros y Hy. apply H. right. exact Hy.
Qed.

Lemma map_res_map9 {A B C} (f : B -> res C) (g : A -> B) l : map_res f (map g l) = map_res (fun x => f (g x)) l.
Proof.
  induction l as [|x l IH]; [reflexivity|]. cbn [map map_res]. rewrite IH. reflexivity.
Qed.

(* ------------------------------------------------------------------ unpaired_free gives well_formed *)
Lemma no_surrogates_decode9 t : is_u16 t ->
  forallb (fun u => negb (is_hi u || is_lo u)) t = true ->
  flat_map encode_utf16 (map fst (decode16 t)) = t.
Proof.
  induction 1 as [|u r Hu Hr IH]; intros H; [reflexivity|].
  cbn [forallb] in H. apply andb_true_iff in H as [H1 H2].
  apply negb_true_iff, orb_false_iff in H1 as [Eh El].
  cbn [decode16]. rewrite Eh, El. cbn [map fst flat_map].
  rewrite (IH H2). unfold encode_utf16.
  destruct (N.ltb_spec u 65536) as [_|X]; [reflexivity | lia].
Qed.

Lemma unpaired_free_wf9 c : tc_enc c = U16 -> is_u16 (tc_text c) -> unpaired_free c = true ->
  well_formed U16 (tc_text c).
Proof.
  intros He Hu H. unfold unpaired_free in H. rewrite He in H.
  unfold well_formed. cbn [encode_chars view_of].
  apply orb_true_iff in H as [H|H].
  - apply no_surrogates_decode9; assumption.
  - apply (list_eqb_eq N.eqb N.eqb_eq) in H. rewrite flat_map_concat_map, map_map, <- flat_map_concat_map.
    exact H.
Qed.
