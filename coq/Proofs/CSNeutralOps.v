(* Proofs/CSNeutralOps.v — the loops of N0 (model) and the list operations of Spec.n0_one,
   characterised pointwise. *)
From BidiVerif Require Import Base ConstsGen TablesGen ModelText ModelResolve ModelLine Spec Obs Judge StageRel
     Stmts Stmts2 Stmts3 Stmts4.
From BidiVerif.Proofs Require Import TotalNeutral CSNeutralBase.

(* ------------------------------------------------------------------ *)
(* model side *)

Definition walkable (oc : list bclass) (y : nat) : bool :=
  (nth y oc BN =c NSM) || removed_by_x9 (nth y oc BN).

Lemma takewhile_ext_in {A} (f g : A -> bool) l : (forall x, In x l -> f x = g x) -> takewhile f l = takewhile g l.
Proof.
  induction l as [|a l IH]; intros H; [reflexivity|]. cbn [takewhile].
  rewrite <- (H a (or_introl eq_refl)). destruct (f a); [|reflexivity]. f_equal. apply IH.
  intros x Hx. apply H. right; exact Hx.
Qed.

Lemma mem_cons j a l : mem j (a :: l) = (j =? a) || mem j l.
Proof. reflexivity. Qed.

Lemma n0_nsm_inv oc : forall l pc x pc', n0_nsm false oc pc l x = Ok pc' ->
  length pc' = length pc /\
  forall j d, nth j pc' d = if mem j (takewhile (walkable oc) l) then x else nth j pc d.
Proof.
  induction l as [|i l IH]; intros pc x pc' H; cbn [n0_nsm] in H.
  - injection H as <-. split; [reflexivity|]. intros; reflexivity.
  - apply bind_ok in H as (o & Eo & H). apply get_inv in Eo as [_ Eo]. specialize (Eo BN).
    apply bind_ok in H as (p & _ & H). cbn [takewhile]. unfold walkable at 1. rewrite Eo.
    destruct ((o =c NSM) || removed_by_x9 o).
    + apply bind_ok in H as (pc1 & E1 & H). apply upd_inv in E1 as (_ & L1 & N1).
      apply IH in H as [L2 N2]. split; [congruence|]. intros j d. rewrite N2, N1, mem_cons.
      destruct (j =? i), (mem j (takewhile (walkable oc) l)); reflexivity.
    + injection H as <-. split; [reflexivity|]. intros; reflexivity.
Qed.

Lemma set_while_bn_inv s : forall l pc x pc', set_while_bn s pc l x = Ok pc' -> NoDup l ->
  length pc' = length pc /\
  forall j d, nth j pc' d = if mem j (takewhile (fun y => nth y pc BN =c BN) l) then x else nth j pc d.
Proof.
  induction l as [|i l IH]; intros pc x pc' H Hnd; cbn [set_while_bn] in H.
  - injection H as <-. split; [reflexivity|]. intros; reflexivity.
  - apply bind_ok in H as (c & Ec & H). apply get_inv in Ec as [_ Ec]. specialize (Ec BN).
    cbn [takewhile]. rewrite Ec. apply NoDup_cons_iff in Hnd as [Hni Hnd'].
    destruct (c =c BN).
    + apply bind_ok in H as (pc1 & E1 & H). apply upd_inv in E1 as (_ & L1 & N1).
      apply IH in H as [L2 N2]; [|exact Hnd']. split; [congruence|]. intros j d. rewrite N2, N1, mem_cons.
      rewrite (takewhile_ext_in (fun y => nth y pc1 BN =c BN) (fun y => nth y pc BN =c BN)).
      * destruct (j =? i), (mem j (takewhile (fun y => nth y pc BN =c BN) l)); reflexivity.
      * intros y Hy. rewrite N1. destruct (y =? i) eqn:E; [|reflexivity].
        apply Nat.eqb_eq in E. subst. contradiction.
    + injection H as <-. split; [reflexivity|]. intros; reflexivity.
Qed.

Lemma find_value_by_inv {A} s (p : A -> bool) (v : list A) d : forall l r,
  find_value_by s p v l = Ok r -> r = find p (at_ d v l).
Proof.
  induction l as [|i l IH]; intros r H; cbn [find_value_by] in H.
  - injection H as <-. reflexivity.
  - apply bind_ok in H as (x & Ex & H). apply get_inv in Ex as [_ Ex]. specialize (Ex d).
    cbn [at_ map find]. rewrite Ex. destruct (p x); [injection H as <-; reflexivity | apply IH; exact H].
Qed.

(* the predicates of N0 on an enclosed class *)
Definition sfe (e c : bclass) : bool := opt_ceq (strong_dir c) e.
Definition sfo (e c : bclass) : bool := match strong_dir c with Some d => negb (d =c e) | None => false end.
Definition hasdir (c : bclass) : bool := match strong_dir c with Some _ => true | None => false end.

Lemma scan_step e c (fe0 fn0 : bool) : e = L \/ e = R ->
  (if c =c e then (true, fn0)
   else if c =c (if e =c L then R else L) then (fe0, true)
   else if (c =c EN) || (c =c AN) then (if e =c L then (fe0, true) else (true, fn0))
   else (fe0, fn0))
  = (fe0 || sfe e c, if sfe e c then fn0 else fn0 || sfo e c).
Proof. intros [-> | ->]; destruct c, fe0, fn0; reflexivity. Qed.

Lemma n0_scan_inv oc pc e pe l2 : e = L \/ e = R ->
  match l2 with [] => True | z :: _ => pe <= z end ->
  forall l1 fn0 fe fn,
  n0_scan false oc pc e (if e =c L then R else L) pe (l1 ++ l2) false fn0 = Ok (fe, fn) ->
  (forall y, In y l1 -> y < pe) ->
  let cl := at_ BN pc (filter (live oc) l1) in
  fe = existsb (sfe e) cl /\ (fe = false -> fn = fn0 || existsb (sfo e) cl).
Proof.
  intros He Hl2. induction l1 as [|y l1 IH]; intros fn0 fe fn H Hlt cl.
  - subst cl. cbn [app] in H. cbn [filter at_ map existsb].
    assert (E : (fe, fn) = (false, fn0)).
    { destruct l2 as [|z l2]; cbn [n0_scan] in H; [congruence|].
      assert (Ez : (pe <=? z) = true) by (apply Nat.leb_le; exact Hl2). rewrite Ez in H. congruence. }
    injection E as -> ->. split; [reflexivity|]. intros _. rewrite orb_false_r. reflexivity.
  - cbn [app n0_scan] in H.
    assert (Ey : (pe <=? y) = false) by (apply Nat.leb_gt; apply Hlt; left; reflexivity). rewrite Ey in H.
    apply bind_ok in H as (o & Eo & H). apply get_inv in Eo as [_ Eo]. specialize (Eo BN).
    subst cl. cbn [filter].
    assert (Elive : live oc y = negb (removed_by_x9 o)) by (unfold live, not_removed_by_x9; rewrite Eo; reflexivity).
    rewrite Elive.
    destruct (removed_by_x9 o); cbn [andb negb] in H |- *.
    + apply IH; [exact H|]. intros z Hz. apply Hlt. right; exact Hz.
    + apply bind_ok in H as (c & Ec & H). apply get_inv in Ec as [_ Ec]. specialize (Ec BN).
      rewrite (scan_step e c false fn0 He) in H. cbn [orb] in H.
      cbn [at_ map existsb]. rewrite Ec. fold (at_ BN pc (filter (live oc) l1)).
      destruct (sfe e c) eqn:Efe.
      * injection H as <- <-. split; [reflexivity | discriminate].
      * apply IH in H; [|intros z Hz; apply Hlt; right; exact Hz]. destruct H as [H1 H2].
        cbn [orb]. split; [exact H1|]. intros Hf. rewrite (H2 Hf), orb_assoc. reflexivity.
Qed.

(* ------------------------------------------------------------------ *)
(* specification side *)

Lemma setnth_length {A} : forall (t : list A) i x, length (setnth t i x) = length t.
Proof. induction t as [|h t IH]; intros [|i] x; cbn [setnth length]; auto. Qed.

Lemma setnth_nth {A} : forall (t : list A) i x m d, i < length t ->
  nth m (setnth t i x) d = if m =? i then x else nth m t d.
Proof.
  induction t as [|h t IH]; intros [|i] x [|m] d H; cbn [length] in H; try lia; cbn [setnth nth]; try reflexivity.
  rewrite IH by lia. reflexivity.
Qed.

Lemma setnth_nth_ge {A} : forall (t : list A) i x, length t <= i -> setnth t i x = t.
Proof.
  induction t as [|h t IH]; intros [|i] x H; cbn [length] in H; try lia; cbn [setnth]; try reflexivity.
  rewrite IH by lia. reflexivity.
Qed.

Lemma nsm_follow_length onsm d : forall fuel k t, length (nsm_follow onsm d k fuel t) = length t.
Proof.
  induction fuel as [|f IH]; intros k t; cbn [nsm_follow]; [reflexivity|].
  destruct (snth onsm k false); [|reflexivity]. rewrite IH, setnth_length. reflexivity.
Qed.

Definition onsm_run (onsm : list bool) (k m : nat) : Prop :=
  forall m', k <= m' <= m -> snth onsm m' false = true.

Lemma nsm_follow_hit onsm d d0 : forall fuel k t m,
  length t <= k + fuel -> k <= m < length t -> onsm_run onsm k m ->
  nth m (nsm_follow onsm d k fuel t) d0 = d.
Proof.
  induction fuel as [|f IH]; intros k t m Hf Hm Hrun; [lia|]. cbn [nsm_follow].
  rewrite (Hrun k ltac:(lia)).
  destruct (Nat.eq_dec m k) as [->|Hne].
  - (* position k is set now and not touched again *)
    clear IH Hrun. assert (G : forall f k' t', k < k' -> k < length t' -> nth k t' d0 = d ->
                                nth k (nsm_follow onsm d k' f t') d0 = d).
    { clear. induction f as [|f IH]; intros k' t' Hk Hl Hn; cbn [nsm_follow]; [exact Hn|].
      destruct (snth onsm k' false); [|exact Hn]. apply IH; [lia | rewrite setnth_length; exact Hl|].
      destruct (Nat.lt_ge_cases k' (length t')) as [H|H].
      - rewrite setnth_nth by exact H. destruct (k =? k') eqn:E; [apply Nat.eqb_eq in E; lia | exact Hn].
      - rewrite setnth_nth_ge by exact H. exact Hn. }
    apply G; [lia | rewrite setnth_length; lia|]. rewrite setnth_nth by lia. rewrite Nat.eqb_refl. reflexivity.
  - apply IH; [rewrite setnth_length; lia | rewrite setnth_length; lia|].
    intros m' Hm'. apply Hrun. lia.
Qed.

Lemma nsm_follow_miss onsm d d0 : forall fuel k t m,
  ~ (k <= m /\ onsm_run onsm k m) ->
  nth m (nsm_follow onsm d k fuel t) d0 = nth m t d0.
Proof.
  induction fuel as [|f IH]; intros k t m Hno; cbn [nsm_follow]; [reflexivity|].
  destruct (snth onsm k false) eqn:Ek; [|reflexivity].
  rewrite IH.
  - destruct (Nat.lt_ge_cases k (length t)) as [H|H]; [|rewrite setnth_nth_ge by exact H; reflexivity].
    rewrite setnth_nth by exact H. destruct (m =? k) eqn:E; [|reflexivity]. apply Nat.eqb_eq in E. subst m.
    exfalso. apply Hno. split; [lia|]. intros m' Hm'. replace m' with k by lia. exact Ek.
  - intros [Hle Hrun]. apply Hno. split; [lia|]. intros m' Hm'.
    destruct (Nat.eq_dec m' k) as [->|Hne]; [exact Ek | apply Hrun; lia].
Qed.

(* slices of a list cut at two elements *)
Lemma skipn_app_len {A} (l1 l2 : list A) n : n = length l1 -> skipn n (l1 ++ l2) = l2.
Proof. intros ->. rewrite skipn_app, skipn_all, Nat.sub_diag. reflexivity. Qed.

Lemma firstn_app_len {A} (l1 l2 : list A) n : n = length l1 -> firstn n (l1 ++ l2) = l1.
Proof. intros ->. rewrite firstn_app, firstn_all, Nat.sub_diag. cbn [firstn]. apply app_nil_r. Qed.

Lemma is_NI_ni c : is_NI c = is_ni c.
Proof. destruct c; reflexivity. Qed.
