(* Proofs/CSNeutralBD16.v — BD16: identify_bracket_pairs (model, text positions, level runs) against
   Spec.bracket_pairs (indices into the list of live characters of the sequence). *)
From BidiVerif Require Import Base ConstsGen TablesGen ModelText ModelResolve ModelLine Spec Obs Judge StageRel
     Stmts Stmts2 Stmts3 Stmts4.
From BidiVerif.Proofs Require Import TotalNeutral CSNeutralBase.
From Coq Require Import Permutation.

(* model stack entry / pair  |->  specification stack entry / pair *)
Definition fst_ (li : list nat) (en : N * nat * nat) : N * nat := (fst (fst en), lidx li (snd (fst en))).
Definition gp (li : list nat) (p : bracket_pair) : nat * nat := (lidx li (bp_start p), lidx li (bp_end p)).
Definition ends (p : bracket_pair) : list nat := [bp_start p; bp_end p].
Definition bpos (stack : list (N * nat * nat)) (pairs : list bracket_pair) : list nat :=
  map (fun en => snd (fst en)) stack ++ flat_map ends pairs.

Lemma NoDup_app_r {A} (l1 l2 : list A) : NoDup (l1 ++ l2) -> NoDup l2.
Proof. induction l1 as [|a l1 IH]; cbn [app]; [auto|]. intros H. inversion H; auto. Qed.

Lemma lidx_gap li u v : u <= v -> (forall x, In x li -> ~ (u <= x < v)) -> lidx li u = lidx li v.
Proof.
  intros Huv H. unfold lidx. f_equal. apply filter_ext_in. intros x Hx. specialize (H x Hx).
  destruct (x <? u) eqn:E1, (x <? v) eqn:E2; try reflexivity.
  - apply Nat.ltb_lt in E1. apply Nat.ltb_ge in E2. lia.
  - apply Nat.ltb_ge in E1. apply Nat.ltb_lt in E2. lia.
Qed.

Lemma lidx_0 li : lidx li 0 = 0.
Proof. unfold lidx. rewrite filter_none; [reflexivity|]. intros x _. reflexivity. Qed.

Lemma bracket_match_split key : forall stack pos ri below,
  bracket_match key stack = Some (pos, ri, below) ->
  exists above k, stack = above ++ (k, pos, ri) :: below.
Proof.
  induction stack as [|[[k0 p0] r0] rest IH]; intros pos ri below H; cbn [bracket_match] in H; [discriminate|].
  destruct (k0 =? key)%N.
  - injection H as -> -> ->. exists [], k0. reflexivity.
  - destruct (IH _ _ _ H) as (above & k & ->). exists ((k0, p0, r0) :: above), k. reflexivity.
Qed.

Lemma bd16_match_map li key : forall stack,
  bd16_match key (map (fst_ li) stack) =
  match bracket_match key stack with
  | Some (pos, ri, below) => Some (lidx li pos, map (fst_ li) below)
  | None => None
  end.
Proof.
  induction stack as [|[[k0 p0] r0] rest IH]; [reflexivity|].
  cbn [map fst_ fst snd bd16_match bracket_match]. destruct (k0 =? key)%N; [reflexivity | exact IH].
Qed.

Section BD16.
Variable ds : datasource.
Variable cps : list N.
Variable oc pc : list bclass.
Variable runs : list run.
Let Sq := flat_map run_range runs.
Let li := filter (live oc) Sq.
Hypothesis Hasc : asc Sq.
Let brk (i : nat) := ds_bracket ds (nth i cps 0%N).

Lemma li_asc : asc li.
Proof. apply asc_filter. exact Hasc. Qed.

Lemma mem_li x : In x Sq -> mem x li = live oc x.
Proof.
  intros Hx. destruct (live oc x) eqn:E.
  - apply mem_In. apply filter_In. auto.
  - apply mem_nIn. intros H. apply filter_In in H as [_ H]. congruence.
Qed.

Definition bd_inv (bound : nat) (stack : list (N * nat * nat)) (pairs : list bracket_pair) : Prop :=
  NoDup (bpos stack pairs) /\
  forall x, In x (bpos stack pairs) -> x < bound /\ live oc x = true /\ nth x pc BN = ON.

Lemma bd_inv_mono b b' stack pairs : b <= b' -> bd_inv b stack pairs -> bd_inv b' stack pairs.
Proof.
  intros Hb [H1 H2]. split; [exact H1|]. intros x Hx. destruct (H2 x Hx) as (A & B & C). repeat split; auto; lia.
Qed.

Lemma skipn_cons_nth {A} (d : A) : forall n (l : list A), n < length l -> skipn n l = nth n l d :: skipn (S n) l.
Proof.
  induction n as [|n IH]; intros [|h t] H; cbn [length] in H; try lia; [reflexivity|].
  cbn [skipn nth]. apply IH. lia.
Qed.

Section Run.
Variable ri s en : nat.
Hypothesis Hrun : forall x, s <= x < en -> In x Sq.
Hypothesis Hen : en <= length cps.

Lemma bd16_run_sim : forall m a stack pairs stack' pairs' stopped T B,
  s + a + m <= en ->
  bd16_run ds false oc pc ri s (combine (seq a m) (firstn m (skipn (s + a) cps))) stack pairs
    = Ok (stack', pairs', stopped) ->
  let lp := filter (live oc) (seq (s + a) m) in
  bd16 (at_ BN pc lp ++ T) (map brk lp ++ B) (lidx li (s + a)) (map (fst_ li) stack) (map (gp li) pairs)
  = if stopped then map (gp li) pairs'
    else bd16 T B (lidx li (s + a + m)) (map (fst_ li) stack') (map (gp li) pairs').
Proof.
  induction m as [|m IH]; intros a stack pairs stack' pairs' stopped T B Hle H lp.
  - cbn [seq combine bd16_run] in H. injection H as <- <- <-. subst lp. cbn [seq filter at_ map app].
    rewrite Nat.add_0_r. reflexivity.
  - rewrite (skipn_cons_nth 0%N) in H by lia. cbn [firstn seq combine] in H.
    replace (S (s + a)) with (s + S a) in H by lia.
    cbn [bd16_run] in H.
    apply bind_ok in H as (c & Ec & H). apply get_inv in Ec as [Hlt Ec]. specialize (Ec BN).
    assert (HS : In (s + a) Sq) by (apply Hrun; lia).
    assert (Ek : lidx li (s + S a) = lidx li (s + a) + (if live oc (s + a) then 1 else 0)).
    { replace (s + S a) with (S (s + a)) by lia. rewrite (lidx_S _ _ li_asc), (mem_li _ HS). reflexivity. }
    assert (Hnext : forall stack1 pairs1,
      bd16_run ds false oc pc ri s (combine (seq (S a) m) (firstn m (skipn (s + S a) cps))) stack1 pairs1
        = Ok (stack', pairs', stopped) ->
      let lp' := filter (live oc) (seq (s + S a) m) in
      bd16 (at_ BN pc lp' ++ T) (map brk lp' ++ B) (lidx li (s + S a)) (map (fst_ li) stack1) (map (gp li) pairs1)
      = if stopped then map (gp li) pairs'
        else bd16 T B (lidx li (s + a + S m)) (map (fst_ li) stack') (map (gp li) pairs')).
    { intros stack1 pairs1 H1. replace (s + a + S m) with (s + S a + m) by lia. apply IH; [lia | exact H1]. }
    subst lp. cbn [seq filter]. replace (S (s + a)) with (s + S a) by lia.
    destruct (live oc (s + a)) eqn:Elive.
    + (* a live position: the specification makes the same step *)
      cbn [at_ map app]. fold (at_ BN pc (filter (live oc) (seq (s + S a) m))).
      rewrite Ec. unfold brk at 1. cbn [bd16].
      replace (S (lidx li (s + a))) with (lidx li (s + S a)) by lia.
      destruct (c =c ON) eqn:EON; cbn [negb] in H.
      2:{ destruct (ds_bracket ds (nth (s + a) cps 0%N)) as [[key is_open]|]; apply Hnext; exact H. }
      apply bind_ok in H as (o & Eo & H). apply get_inv in Eo as [_ Eo]. specialize (Eo BN).
      unfold live, not_removed_by_x9 in Elive. rewrite Eo in Elive.
      destruct (removed_by_x9 o); [discriminate|]. cbn [andb negb] in H.
      destruct (ds_bracket ds (nth (s + a) cps 0%N)) as [[key is_open]|]; [|apply Hnext; exact H].
      destruct is_open.
      * rewrite map_length. change bracket_limit with 63 in H.
        destruct (63 <=? length stack).
        -- injection H as <- <- <-. reflexivity.
        -- apply Hnext in H. exact H.
      * rewrite bd16_match_map.
        destruct (bracket_match key stack) as [[[pos ri'] below]|].
        -- apply Hnext in H. rewrite map_app in H. exact H.
        -- apply Hnext; exact H.
    + (* a removed position takes no part *)
      rewrite Nat.add_0_r in Ek. rewrite <- Ek.
      destruct (c =c ON); cbn [negb] in H; [|apply Hnext; exact H].
      apply bind_ok in H as (o & Eo & H). apply get_inv in Eo as [_ Eo]. specialize (Eo BN).
      unfold live, not_removed_by_x9 in Elive. rewrite Eo in Elive.
      destruct (removed_by_x9 o); [|discriminate]. cbn [andb negb] in H. apply Hnext; exact H.
Qed.

Lemma bd16_run_inv : forall m a stack pairs stack' pairs' stopped,
  s + a + m <= en -> en <= length pc ->
  bd16_run ds false oc pc ri s (combine (seq a m) (firstn m (skipn (s + a) cps))) stack pairs
    = Ok (stack', pairs', stopped) ->
  bd_inv (s + a) stack pairs -> bd_inv (s + a + m) stack' pairs'.
Proof.
  induction m as [|m IH]; intros a stack pairs stack' pairs' stopped Hle Hpc H Hinv.
  - cbn [seq combine bd16_run] in H. injection H as <- <- <-. rewrite Nat.add_0_r. exact Hinv.
  - rewrite (skipn_cons_nth 0%N) in H by lia. cbn [firstn seq combine] in H.
    replace (S (s + a)) with (s + S a) in H by lia.
    cbn [bd16_run] in H.
    apply bind_ok in H as (c & Ec & H). apply get_inv in Ec as [Hlt Ec]. specialize (Ec BN).
    assert (Hnext : forall stack1 pairs1,
      bd16_run ds false oc pc ri s (combine (seq (S a) m) (firstn m (skipn (s + S a) cps))) stack1 pairs1
        = Ok (stack', pairs', stopped) ->
      bd_inv (s + S a) stack1 pairs1 -> bd_inv (s + a + S m) stack' pairs').
    { intros stack1 pairs1 H1 H2. replace (s + a + S m) with (s + S a + m) by lia. eapply IH; eauto. lia. }
    assert (Hsame : bd_inv (s + S a) stack pairs) by (eapply bd_inv_mono; [|exact Hinv]; lia).
    destruct (c =c ON) eqn:EON; cbn [negb] in H; [|eapply Hnext; eauto].
    apply ceq_eq in EON. subst c.
    apply bind_ok in H as (o & Eo & H). apply get_inv in Eo as [_ Eo]. specialize (Eo BN).
    destruct (removed_by_x9 o) eqn:Erem; cbn [andb negb] in H; [eapply Hnext; eauto|].
    assert (Hlive : live oc (s + a) = true).
    { unfold live, not_removed_by_x9. rewrite Eo, Erem. reflexivity. }
    destruct (ds_bracket ds (nth (s + a) cps 0%N)) as [[key is_open]|]; [|eapply Hnext; eauto].
    destruct is_open.
    + destruct (bracket_limit <=? length stack).
      * injection H as <- <- <-. eapply bd_inv_mono; [|exact Hinv]. lia.
      * eapply Hnext; [exact H|]. destruct Hinv as [N1 N2]. unfold bd_inv, bpos in *. cbn [map fst snd app]. cbn [fst snd]. split.
        -- constructor; [|exact N1]. intros Hin. apply N2 in Hin. cbn [fst snd] in Hin. lia.
        -- intros x [<-|Hx]; [repeat split; auto; lia|]. destruct (N2 x Hx) as (A & B & C). repeat split; auto; lia.
    + destruct (bracket_match key stack) as [[[pos ri'] below]|] eqn:Em; [|eapply Hnext; eauto].
      eapply Hnext; [exact H|]. destruct (bracket_match_split _ _ _ _ _ Em) as (above & k0 & ->).
      destruct Hinv as [N1 N2]. unfold bd_inv, bpos in *. rewrite map_app in N1, N2. cbn [map fst snd] in N1, N2.
      rewrite <- app_assoc in N1. apply NoDup_app_r in N1. cbn [app] in N1.
      assert (N2' : forall x, In x (pos :: map (fun en0 => snd (fst en0)) below ++ flat_map ends pairs) ->
                              x < s + a /\ live oc x = true /\ nth x pc BN = ON).
      { intros x Hx. apply N2. rewrite <- app_assoc. apply in_or_app. right. exact Hx. }
      rewrite flat_map_app. cbn [flat_map ends bp_start bp_end app].
      set (Bl := map (fun en0 => snd (fst en0)) below) in *. set (P := flat_map ends pairs) in *.
      assert (Hperm : Permutation (pos :: (s + a) :: Bl ++ P) (Bl ++ P ++ [pos; s + a])).
      { rewrite app_assoc. change (pos :: (s + a) :: Bl ++ P) with ([pos; s + a] ++ (Bl ++ P)).
        apply Permutation_app_comm. }
      split.
      * eapply Permutation_NoDup; [exact Hperm|]. inversion N1 as [|x l Hnin Hnd]; subst.
        constructor.
        -- intros [E|Hin]; [|contradiction]. specialize (N2' pos (or_introl eq_refl)). lia.
        -- constructor; [|exact Hnd]. intros Hin. specialize (N2' (s + a) (or_intror Hin)). lia.
      * intros x Hx. apply (Permutation_in _ (Permutation_sym Hperm)) in Hx.
        destruct Hx as [<-|[<-|Hx]].
        -- destruct (N2' pos (or_introl eq_refl)) as (A & B & C). repeat split; auto; lia.
        -- repeat split; auto; lia.
        -- destruct (N2' x (or_intror Hx)) as (A & B & C). repeat split; auto; lia.
Qed.

End Run.

Lemma bd16_runs_sim : forall rest pre ri prev stack pairs mps,
  runs = pre ++ rest -> ri = length pre -> runs_ascending prev rest ->
  Forall (run_in (length cps)) rest -> length pc = length cps ->
  (forall x, In x Sq -> prev <= x -> In x (flat_map run_range rest)) ->
  bd16_runs U32 ds false cps oc pc ri rest stack pairs = Ok mps ->
  bd_inv prev stack pairs ->
  let lr := filter (live oc) (flat_map run_range rest) in
  bd16 (at_ BN pc lr) (map brk lr) (lidx li prev) (map (fst_ li) stack) (map (gp li) pairs) = map (gp li) mps /\
  exists b st, bd_inv b st mps.
Proof.
  induction rest as [|[s en] rest IH]; intros pre ri prev stack pairs mps Hruns Hri Hasc' Hin Hpc Hrest H Hinv lr.
  - cbn [bd16_runs] in H. injection H as <-. subst lr. cbn [flat_map filter at_ map bd16]. split; [reflexivity|].
    eauto.
  - cbn [bd16_runs t_subrange t_char_indices] in H.
    cbn [runs_ascending] in Hasc'. destruct Hasc' as (Hprev & Hlt & Hasc').
    inversion Hin as [|x l [_ Hen] Hin']; subst x l. cbn [fst snd] in Hen.
    apply bind_ok in H as (sub & Esub & H). unfold slice in Esub.
    assert (Eb : ((s <=? en) && (en <=? length cps)) = true).
    { apply andb_true_iff; split; apply Nat.leb_le; lia. }
    rewrite Eb in Esub. injection Esub as <-.
    apply bind_ok in H as ([[stack' pairs'] stopped] & Erun & H).
    assert (Lsub : length (firstn (en - s) (skipn s cps)) = en - s).
    { rewrite firstn_length, skipn_length. lia. }
    rewrite Lsub in Erun.
    assert (HrunS : forall x, s <= x < en -> In x Sq).
    { intros x Hx. unfold Sq. rewrite Hruns, flat_map_app. apply in_or_app. right. cbn [flat_map].
      apply in_or_app. left. apply in_run_range. cbn [fst snd]. exact Hx. }
    assert (Hgap : lidx li prev = lidx li s).
    { apply lidx_gap; [exact Hprev|]. intros x Hx Hr. apply filter_In in Hx as [Hx _].
      apply Hrest in Hx; [|lia]. cbn [flat_map] in Hx. apply in_app_or in Hx as [Hx|Hx].
      - apply in_run_range in Hx. cbn [fst snd] in Hx. lia.
      - destruct (asc_runs _ _ Hasc') as [_ Hge]. apply Hge in Hx. lia. }
    assert (Hinv0 : bd_inv (s + 0) stack pairs) by (eapply bd_inv_mono; [|exact Hinv]; lia).
    pose proof (bd16_run_inv ri s en Hen (en - s) 0 stack pairs stack' pairs' stopped
                  ltac:(lia) ltac:(lia)) as Hinv'.
    rewrite Nat.add_0_r in Hinv'. specialize (Hinv' Erun). rewrite Nat.add_0_r in Hinv0. specialize (Hinv' Hinv0).
    replace (s + (en - s)) with en in Hinv' by lia.
    subst lr. cbn [flat_map]. rewrite filter_app, at_app, map_app.
    pose proof (bd16_run_sim ri s en HrunS Hen (en - s) 0 stack pairs stack' pairs' stopped
                  (at_ BN pc (filter (live oc) (flat_map run_range rest)))
                  (map brk (filter (live oc) (flat_map run_range rest))) ltac:(lia)) as Hsim.
    rewrite Nat.add_0_r in Hsim. specialize (Hsim Erun). cbn zeta in Hsim.
    replace (s + (en - s)) with en in Hsim by lia.
    unfold run_range at 1 3, range. cbn [fst snd]. rewrite Hgap. rewrite Hsim.
    destruct stopped; cbn [andb negb] in H.
    + injection H as <-. split; [reflexivity | eauto].
    + eapply (IH (pre ++ [(s, en)]) (S ri) en); eauto.
      * rewrite <- app_assoc. exact Hruns.
      * rewrite app_length. cbn [length]. lia.
      * intros x Hx Hge. specialize (Hrest x Hx ltac:(lia)). cbn [flat_map] in Hrest.
        apply in_app_or in Hrest as [Hr|Hr]; [|exact Hr]. apply in_run_range in Hr. cbn [fst snd] in Hr. lia.
Qed.

(* the stable insertion sort by start position *)
Lemma insert_pair_gp p : In (bp_start p) li -> forall l,
  map (gp li) (insert_pair p l) = insert_by_fst (gp li p) (map (gp li) l).
Proof.
  intros Hp. induction l as [|q l IH]; [reflexivity|]. cbn [insert_pair map insert_by_fst].
  assert (E : (bp_start p <? bp_start q) = (fst (gp li p) <? fst (gp li q))).
  { unfold gp. cbn [fst]. destruct (bp_start p <? bp_start q) eqn:E1.
    - apply Nat.ltb_lt in E1. symmetry. apply Nat.ltb_lt. apply lidx_lt; [apply li_asc | exact Hp | exact E1].
    - apply Nat.ltb_ge in E1. symmetry. apply Nat.ltb_ge. apply lidx_mono. exact E1. }
  rewrite <- E. destruct (bp_start p <? bp_start q); [reflexivity|]. cbn [map]. rewrite IH. reflexivity.
Qed.

Lemma sort_pairs_gp l : Forall (fun p => In (bp_start p) li) l ->
  map (gp li) (sort_pairs l) = fold_left (fun acc p => insert_by_fst p acc) (map (gp li) l) [].
Proof.
  unfold sort_pairs. change (@nil (nat * nat)) with (map (gp li) []). generalize (@nil bracket_pair).
  induction l as [|p l IH]; intros acc H; [reflexivity|]. inversion H; subst. cbn [fold_left map].
  rewrite IH by assumption. rewrite insert_pair_gp by assumption. reflexivity.
Qed.

Lemma insert_pair_perm p : forall l, Permutation (insert_pair p l) (p :: l).
Proof.
  induction l as [|q l IH]; cbn [insert_pair]; [reflexivity|].
  destruct (bp_start p <? bp_start q); [reflexivity|].
  rewrite IH. apply perm_swap.
Qed.

Lemma sort_pairs_perm l : Permutation (sort_pairs l) l.
Proof.
  unfold sort_pairs. rewrite <- (app_nil_r l) at 2. generalize (@nil bracket_pair).
  induction l as [|p l IH]; intros acc; cbn [fold_left app]; [reflexivity|].
  rewrite IH. rewrite insert_pair_perm. symmetry. apply Permutation_middle.
Qed.

End BD16.

(* what N0 needs to know about one bracket of a pair: live, and still ON in the input of N0 *)
Definition bracket_pos_ok (oc pc : list bclass) (x : nat) : Prop := live oc x = true /\ nth x pc BN = ON.

Lemma bd16_sim ds cps oc pc sq mps :
  length pc = length cps -> length oc = length cps -> seq_wf (length cps) sq ->
  identify_bracket_pairs U32 ds cps sq oc pc = Ok mps ->
  let li := live_idx oc sq in
  map (gp li) mps = bracket_pairs (at_ BN pc li) (map (fun i => ds_bracket ds (nth i cps 0%N)) li) /\
  Forall (pair_ok (irs_runs sq)) mps /\
  Forall (fun p => bracket_pos_ok oc pc (bp_start p) /\ bracket_pos_ok oc pc (bp_end p)) mps /\
  NoDup (flat_map ends mps).
Proof.
  intros Hpc Hoc (Hne & Hin & Hasc & _ & _) H li.
  unfold identify_bracket_pairs, identify_bracket_pairs_gen in H.
  apply bind_ok in H as (pairs & Ep & H). injection H as <-.
  destruct (asc_runs _ _ Hasc) as [HascS _].
  assert (Hinv0 : bd_inv oc pc 0 [] []) by (split; [constructor | intros x []]).
  destruct (bd16_runs_sim ds cps oc pc (irs_runs sq) HascS (irs_runs sq) [] 0 0 [] [] pairs
              eq_refl eq_refl Hasc Hin Hpc ltac:(auto) Ep Hinv0) as [Hsim (b & st & Hinv)].
  destruct (bd16_runs_ok ds cps oc pc (irs_runs sq) (length cps) eq_refl Hpc Hoc (irs_runs sq) [] 0 0 [] []
              eq_refl eq_refl Hasc Hin (Forall_nil _) (Forall_nil _))
    as (pairs0 & Ep0 & Hpairs).
  rewrite Ep in Ep0. injection Ep0 as <-.
  destruct Hinv as [N1 N2]. unfold bpos in N1, N2. apply NoDup_app_r in N1.
  assert (Hok : Forall (fun p => bracket_pos_ok oc pc (bp_start p) /\ bracket_pos_ok oc pc (bp_end p)) pairs).
  { apply Forall_forall. intros p Hp.
    assert (Hs : In (bp_start p) (flat_map ends pairs)) by (apply in_flat_map; exists p; split; [exact Hp | left; reflexivity]).
    assert (He : In (bp_end p) (flat_map ends pairs)) by (apply in_flat_map; exists p; split; [exact Hp | right; left; reflexivity]).
    split; unfold bracket_pos_ok.
    - destruct (N2 (bp_start p)) as (_ & A & B); [apply in_or_app; right; exact Hs | auto].
    - destruct (N2 (bp_end p)) as (_ & A & B); [apply in_or_app; right; exact He | auto]. }
  refine (conj _ (conj _ (conj _ _))).
  2:{ apply sort_pairs_Forall; exact Hpairs. }
  2:{ apply sort_pairs_Forall; exact Hok. }
  - unfold bracket_pairs. fold (seq_idx sq) in Hsim. fold (live_idx oc sq) in Hsim. rewrite lidx_0 in Hsim.
    cbn [map] in Hsim. fold li in Hsim. rewrite Hsim.
    apply sort_pairs_gp; [exact HascS|]. apply Forall_forall. intros p Hp.
    rewrite Forall_forall in Hok, Hpairs. destruct (Hok p Hp) as [[A _] _]. destruct (Hpairs p Hp) as [B _].
    apply filter_In. split; [eapply pos_ok_S; eauto | exact A].
  - eapply Permutation_NoDup; [|exact N1]. apply Permutation_flat_map. symmetry. apply sort_pairs_perm.
Qed.
