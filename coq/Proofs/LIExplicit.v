(* Proofs/LIExplicit.v — LENGTH INDEPENDENCE of the explicit stage (explicit::compute):
   running [explicit_compute] on a text in any encoding (code-unit granularity) gives the per-unit
   expansion of running it on the character list in the ghost encoding U32.
   Simulation: the unit-level state is [Ust lens st] for the character-level state [st]:
   same stack / counters / run level, vectors expanded, run starts mapped by [ustart]. *)
From BidiVerif Require Import Base ConstsGen TablesGen ModelText ModelResolve ModelLine Spec Obs Judge
     Stmts Stmts2 Stmts3.
From BidiVerif.Proofs Require Import TextView ExplicitSpec ExplicitInv.
From Coq Require Import Lia PeanoNat.

(* ================================================================== *)
(* 1. library: total / ustart / expand at character boundaries *)

Definition lpos (lens : list nat) : Prop := Forall (fun l => 0 < l) lens.

Lemma ustart_0 lens : ustart lens 0 = 0.
Proof. reflexivity. Qed.

Lemma ustart_cons l lens i : ustart (l :: lens) (S i) = l + ustart lens i.
Proof. unfold ustart. cbn [firstn]. apply total_cons. Qed.

Lemma ustart_nil i : ustart [] i = 0.
Proof. unfold ustart. rewrite firstn_nil. reflexivity. Qed.

Lemma ustart_all lens i : length lens <= i -> ustart lens i = total lens.
Proof. intros H. unfold ustart. rewrite firstn_all2 by exact H. reflexivity. Qed.

Lemma ustart_S lens : forall i, i < length lens -> ustart lens (S i) = ustart lens i + nth i lens 0.
Proof.
  induction lens as [|l lens IH]; intros i H; cbn [length] in H; [lia|].
  destruct i as [|i].
  - rewrite ustart_cons, !ustart_0. cbn [nth]. lia.
  - rewrite !ustart_cons. cbn [nth]. rewrite IH by lia. lia.
Qed.

Lemma ustart_le_total lens : forall i, ustart lens i <= total lens.
Proof.
  induction lens as [|l lens IH]; intros i.
  - rewrite ustart_nil. lia.
  - destruct i as [|i]; [rewrite ustart_0; lia|]. rewrite ustart_cons, total_cons. specialize (IH i). lia.
Qed.

Lemma ustart_lt_total lens : lpos lens -> forall i, i < length lens -> ustart lens i < total lens.
Proof.
  intros Hp. induction Hp as [|l lens Hl Hp IH]; intros i H; cbn [length] in H; [lia|].
  rewrite total_cons. destruct i as [|i]; [rewrite ustart_0; lia|].
  rewrite ustart_cons. specialize (IH i ltac:(lia)). lia.
Qed.

Lemma ustart_block_le lens i : i < length lens -> ustart lens i + nth i lens 0 <= total lens.
Proof. intros H. rewrite <- ustart_S by exact H. apply ustart_le_total. Qed.

Lemma ustart_eq0 lens : lpos lens -> forall i, i < length lens -> (ustart lens i =? 0) = (i =? 0).
Proof.
  intros Hp i H. destruct i as [|i]; [reflexivity|].
  destruct Hp as [|l lens Hl Hp]; cbn [length] in H; [lia|].
  rewrite ustart_cons. cbn [Nat.eqb]. apply Nat.eqb_neq. lia.
Qed.

(* ustart rs < n  iff  rs < k *)
Lemma ustart_ltb_total lens : lpos lens -> forall i,
  (ustart lens i <? total lens) = (i <? length lens).
Proof.
  intros Hp i. destruct (Nat.ltb_spec i (length lens)) as [H|H].
  - apply Nat.ltb_lt. apply ustart_lt_total; assumption.
  - apply Nat.ltb_ge. rewrite ustart_all by exact H. lia.
Qed.

Lemma expand_nil_l {A} (v : list A) : expand [] v = [].
Proof. reflexivity. Qed.

Lemma expand_repeat {A} (x : A) lens : expand lens (repeat x (length lens)) = repeat x (total lens).
Proof.
  induction lens as [|l lens IH]; [reflexivity|].
  cbn [length repeat]. rewrite ExplicitInv.expand_cons', IH, total_cons, repeat_app. reflexivity.
Qed.

(* the first unit of character i carries the value of character i *)
Lemma nth_error_expand_start {A} lens : lpos lens -> forall (v : list A) i,
  length v = length lens -> i < length lens ->
  nth_error (expand lens v) (ustart lens i) = nth_error v i.
Proof.
  intros Hp. induction Hp as [|l lens Hl Hp IH]; intros v i Hv Hi; cbn [length] in *; [lia|].
  destruct v as [|a v]; [discriminate Hv|]. cbn [length] in Hv.
  rewrite ExplicitInv.expand_cons'.
  destruct i as [|i].
  - rewrite ustart_0. destruct l as [|l]; [lia|]. reflexivity.
  - rewrite ustart_cons. rewrite nth_error_app2 by (rewrite repeat_length; lia).
    rewrite repeat_length. replace (l + ustart lens i - l) with (ustart lens i) by lia.
    cbn [nth_error]. apply IH; lia.
Qed.

Lemma write_block_app {A} (p q : list A) u len x :
  write_block (p ++ q) (length p + u) len x = p ++ write_block q u len x.
Proof.
  induction p as [|a p IH]; [reflexivity|].
  cbn [length app Nat.add]. rewrite write_block_S, IH. reflexivity.
Qed.

(* overwriting all units of character i = expansion of the overwritten character vector *)
Lemma write_block_expand {A} lens : forall (v : list A) i x,
  length v = length lens -> i < length lens ->
  write_block (expand lens v) (ustart lens i) (nth i lens 0) x = expand lens (set_at v i x).
Proof.
  induction lens as [|l lens IH]; intros v i x Hv Hi; cbn [length] in *; [lia|].
  destruct v as [|a v]; [discriminate Hv|]. cbn [length] in Hv.
  rewrite ExplicitInv.expand_cons'.
  destruct i as [|i].
  - rewrite ustart_0, set_at_0. cbn [nth]. rewrite write_block_0, skipn_repeat_app.
    rewrite ExplicitInv.expand_cons'. reflexivity.
  - rewrite ustart_cons, set_at_S. cbn [nth]. rewrite ExplicitInv.expand_cons'.
    rewrite <- (repeat_length a l) at 2. rewrite write_block_app. f_equal. apply IH; lia.
Qed.

(* unit positions/lengths of the characters, by character index *)
Lemma ils_from_ustart lens : forall pos,
  ils_from pos lens = map (fun i => (pos + ustart lens i, nth i lens 0)) (seq 0 (length lens)).
Proof.
  induction lens as [|l lens IH]; intros pos; [reflexivity|].
  cbn [ils_from length seq map]. rewrite ustart_0, Nat.add_0_r. cbn [nth]. f_equal.
  rewrite IH. rewrite <- seq_shift, map_map. apply map_ext. intros i.
  rewrite ustart_cons. cbn [nth]. f_equal. lia.
Qed.

(* ================================================================== *)
(* 2. the class-dependent core of a step only looks at / writes cell i *)

Definition ovr (s : ostatus) (c : bclass) : bclass :=
  match s with ORTL => R | OLTR => L | _ => c end.

Lemma apply_override_set site s (pc : list bclass) i :
  i < length pc -> apply_override site s pc i = Ok (set_at pc i (ovr s (nth i pc L))).
Proof.
  intros H. destruct s; cbn [apply_override ovr];
    try (apply upd_set_at; exact H); rewrite set_at_nth by exact H; reflexivity.
Qed.

Lemma nth_of_nth_error {A} (v w : list A) i u d :
  nth_error w u = nth_error v i -> nth u w d = nth i v d.
Proof.
  intros H.
  destruct (nth_error v i) as [a|] eqn:E.
  - rewrite (nth_error_nth _ _ d H), (nth_error_nth _ _ d E). reflexivity.
  - apply nth_error_None in E. apply nth_error_None in H.
    rewrite !nth_overflow by assumption. reflexivity.
Qed.

Ltac core_hyp H :=
  repeat first
    [ progress cbn [bind] in H
    | rewrite upd_set_at in H by (rewrite ?set_at_length by assumption; assumption)
    | rewrite apply_override_set in H by (rewrite ?set_at_length by assumption; assumption)
    | match type of H with context [if ?b then _ else _] => destruct b eqn:? end
    | match type of H with context [match ?x with _ => _ end] => destruct x eqn:? end
    | discriminate H ].

Ltac core_goal :=
  repeat first
    [ progress cbn [bind]
    | rewrite upd_set_at by (rewrite ?set_at_length by assumption; assumption)
    | rewrite apply_override_set by (rewrite ?set_at_length by assumption; assumption) ].

Lemma core_sim_li stk oi0 oe0 vi0 lv pc rl rs runs lvu pcu rlu rsu runsu ll ls i u k
      stack oi oe vi lv' pc' :
  let st := {| ex_stack := stk; ex_oi := oi0; ex_oe := oe0; ex_vi := vi0; ex_levels := lv; ex_pc := pc;
               ex_run_level := rl; ex_run_start := rs; ex_runs := runs |} in
  let stu := {| ex_stack := stk; ex_oi := oi0; ex_oe := oe0; ex_vi := vi0; ex_levels := lvu; ex_pc := pcu;
                ex_run_level := rlu; ex_run_start := rsu; ex_runs := runsu |} in
  i < length lv -> i < length pc -> u < length lvu -> u < length pcu ->
  nth_error lvu u = nth_error lv i -> nth_error pcu u = nth_error pc i ->
  ex_core st ll ls i k = Ok (stack, oi, oe, vi, lv', pc') ->
  exists x c, lv' = set_at lv i x /\ pc' = set_at pc i c /\
    ex_core stu ll ls u k = Ok (stack, oi, oe, vi, set_at lvu u x, set_at pcu u c).
Proof.
  intros st stu Hi Hpi Hu Hpu El Ep H. subst st stu.
  assert (Enl : nth u lvu 0 = nth i lv 0) by (apply nth_of_nth_error; exact El).
  assert (Enp : nth u pcu L = nth i pc L) by (apply nth_of_nth_error; exact Ep).
  assert (Sl : set_at lvu u (nth i lv 0) = lvu) by (rewrite <- Enl; apply set_at_nth; exact Hu).
  assert (Sp : set_at pcu u (nth i pc L) = pcu) by (rewrite <- Enp; apply set_at_nth; exact Hpu).
  assert (Sl' : lv = set_at lv i (nth i lv 0)) by (symmetry; apply set_at_nth; exact Hi).
  assert (Sp' : pc = set_at pc i (nth i pc L)) by (symmetry; apply set_at_nth; exact Hpi).
  destruct k;
    cbn [ex_core is_isolate_init class_is_rtl ceq bclass_beq
         ex_levels ex_pc ex_stack ex_oi ex_oe ex_vi] in H |- *.
  all: core_hyp H.
  all: injection H as <- <- <- <- <- <-.
  all: rewrite ?set_at_set_at by assumption.
  all: eexists; eexists; split; [first [reflexivity | exact Sl']|];
         split; [first [reflexivity | exact Sp']|].
  all: core_goal.
  all: rewrite ?set_at_set_at, ?Enl, ?Enp, ?Sl, ?Sp by assumption; reflexivity.
Qed.

(* ================================================================== *)
(* 3. one step *)

Definition Ust (lens : list nat) (st : ex_state) : ex_state :=
  {| ex_stack := ex_stack st; ex_oi := ex_oi st; ex_oe := ex_oe st; ex_vi := ex_vi st;
     ex_levels := expand lens (ex_levels st); ex_pc := expand lens (ex_pc st);
     ex_run_level := ex_run_level st; ex_run_start := ustart lens (ex_run_start st);
     ex_runs := map (urun lens) (ex_runs st) |}.

Lemma copy_units_block (lv : list nat) (pc : list bclass) u len x c :
  u + len <= length lv -> u + len <= length pc -> 0 < len ->
  copy_units (set_at lv u x) (set_at pc u c) u (range 1 len)
  = Ok (write_block lv u len x, write_block pc u len c).
Proof.
  intros Hl Hp Hpos.
  apply copy_units_copy1.
  - rewrite <- (write_block_set_at lv u len x x) by lia.
    apply copy1_block; [rewrite set_at_length; lia | exact Hpos | apply nth_error_set_at; lia].
  - rewrite <- (write_block_set_at pc u len c c) by lia.
    apply copy1_block; [rewrite set_at_length; lia | exact Hpos | apply nth_error_set_at; lia].
Qed.

Lemma step_li lens oc st i st' :
  lpos lens -> i < length lens ->
  length oc = length lens -> length (ex_levels st) = length lens -> length (ex_pc st) = length lens ->
  ex_step oc st (i, 1) = Ok st' ->
  ex_step (expand lens oc) (Ust lens st) (ustart lens i, nth i lens 0) = Ok (Ust lens st') /\
  length (ex_levels st') = length lens /\ length (ex_pc st') = length lens.
Proof.
  intros Hp Hi Hoc Hlv Hpc H.
  apply step_inv in H.
  destruct H as (ll & ls & rest & k & stack & oi & oe & vi & levels & pc & Hst & Hk & Hc & Hf).
  destruct st as [stk oi0 oe0 vi0 lv pcv rl rs runs].
  cbn [ex_stack ex_levels ex_pc] in Hst, Hlv, Hpc. subst stk.
  assert (Hlen : 0 < nth i lens 0).
  { unfold lpos in Hp. rewrite Forall_forall in Hp. apply Hp. apply nth_In. exact Hi. }
  pose proof (ustart_block_le lens i Hi) as Hblk.
  assert (HEl : length (expand lens lv) = total lens) by (apply expand_length; exact Hlv).
  assert (HEp : length (expand lens pcv) = total lens) by (apply expand_length; exact Hpc).
  destruct (core_sim_li ((ll, ls) :: rest) oi0 oe0 vi0 lv pcv rl rs runs
              (expand lens lv) (expand lens pcv) rl (ustart lens rs) (map (urun lens) runs)
              ll ls i (ustart lens i) k stack oi oe vi levels pc)
    as (x & c & -> & -> & Hcu); try lia.
  { apply nth_error_expand_start; assumption. }
  { apply nth_error_expand_start; assumption. }
  { exact Hc. }
  (* the character-level finish *)
  unfold ex_finish in Hf. change (range 1 1) with (@nil nat) in Hf. cbn [copy_units bind] in Hf.
  unfold get in Hf. rewrite nth_error_set_at in Hf by lia. cbn [bind] in Hf.
  cbn [ex_run_level ex_run_start ex_runs] in Hf.
  (* the unit-level step *)
  rewrite ExplicitSpec.ex_step_eq. unfold Ust.
  cbn [ex_stack ex_oi ex_oe ex_vi ex_levels ex_pc ex_run_level ex_run_start ex_runs].
  unfold get at 1. rewrite nth_error_expand_start, Hk by assumption. cbn [bind].
  rewrite Hcu. cbn [bind]. unfold ex_finish.
  rewrite copy_units_block by lia. cbn [bind].
  rewrite !write_block_expand by assumption.
  unfold get. rewrite nth_error_expand_start by (rewrite ?set_at_length by lia; first [assumption | lia]).
  rewrite nth_error_set_at by lia. cbn [bind].
  cbn [ex_run_level ex_run_start ex_runs].
  rewrite ustart_eq0 by assumption.
  destruct (i =? 0); [|destruct (negb (removed_by_x9 k) && negb (x =? rl))];
    injection Hf as <-;
    cbn [ex_stack ex_oi ex_oe ex_vi ex_levels ex_pc ex_run_level ex_run_start ex_runs];
    rewrite !set_at_length by lia; rewrite ?map_app;
    (split; [reflexivity|]; split; assumption).
Qed.

(* ================================================================== *)
(* 4. the fold *)

Lemma fold_li lens oc : lpos lens -> length oc = length lens ->
  forall js st st',
  Forall (fun j => j < length lens) js ->
  length (ex_levels st) = length lens -> length (ex_pc st) = length lens ->
  ex_fold oc st (map (fun i => (i, 1)) js) = Ok st' ->
  ex_fold (expand lens oc) (Ust lens st) (map (fun i => (ustart lens i, nth i lens 0)) js)
    = Ok (Ust lens st') /\
  length (ex_levels st') = length lens /\ length (ex_pc st') = length lens.
Proof.
  intros Hp Hoc. induction js as [|j js IH]; intros st st' Hjs Hlv Hpc H; cbn [map ex_fold] in *.
  - injection H as <-. auto.
  - apply bind_ok in H. destruct H as (st1 & H1 & H).
    inversion Hjs as [|? ? Hj Hjs']; subst.
    destruct (step_li lens oc st j st1 Hp Hj Hoc Hlv Hpc H1) as (S1 & L1 & P1).
    rewrite S1. cbn [bind]. apply IH; assumption.
Qed.

(* ================================================================== *)
(* 5. the pinned statement *)

Lemma lens_pos_of_view e (chars : list (N * nat)) :
  Forall (fun ch => snd ch = char_len e (fst ch) /\ 0 < snd ch) chars -> lpos (map snd chars).
Proof.
  intros H. unfold lpos. induction H as [|ch r [_ H] _ IH]; cbn [map]; constructor; assumption.
Qed.

Lemma li_explicit_main : LI_explicit.
Proof.
  intros e text Hvalid. unfold li_explicit_statement. cbv zeta.
  intros pl cls lv' pc' runs' Hlen H.
  destruct (view_of_proved e text Hvalid) as (_ & Hil & _ & Htl & Hall).
  set (chars := view_of e text) in *.
  set (lens := map snd chars) in *.
  assert (Hk : length lens = length chars) by (unfold lens; apply map_length).
  assert (Hp : lpos lens) by (eapply lens_pos_of_view; exact Hall).
  rewrite ils_positions in Hil. fold lens in Hil. rewrite ils_from_ustart in Hil. cbn [Nat.add] in Hil.
  (* the character-level run *)
  unfold explicit_compute in H. cbn [t_len t_indices_lengths] in H.
  rewrite map_length, Hlen, Nat.eqb_refl in H. cbn [negb] in H.
  apply bind_ok in H. destruct H as (stf & Hf & H).
  match type of Hf with ex_fold _ ?s0 _ = _ => set (st0 := s0) in * end.
  rewrite <- Hk in Hf.
  destruct (fold_li lens cls Hp ltac:(lia) (seq 0 (length lens)) st0 stf) as (Hfu & Lf & Pf).
  { apply Forall_forall. intros j Hj. apply in_seq in Hj. lia. }
  { cbn [st0 ex_levels]. rewrite repeat_length. lia. }
  { cbn [st0 ex_pc]. lia. }
  { exact Hf. }
  (* the unit-level run *)
  unfold explicit_compute. rewrite Htl. fold lens.
  rewrite expand_length by lia. rewrite Nat.eqb_refl. cbn [negb].
  rewrite Hil.
  assert (E0 : {| ex_stack := [(pl, ONeutral)]; ex_oi := 0; ex_oe := 0; ex_vi := 0;
                  ex_levels := repeat pl (total lens); ex_pc := expand lens cls;
                  ex_run_level := 0; ex_run_start := 0; ex_runs := [] |} = Ust lens st0).
  { unfold Ust, st0. cbn [ex_stack ex_oi ex_oe ex_vi ex_levels ex_pc ex_run_level ex_run_start ex_runs map].
    rewrite <- Hk, expand_repeat, ustart_0. reflexivity. }
  rewrite E0, Hfu. cbn [bind].
  unfold Ust. cbn [ex_levels ex_pc ex_run_start ex_runs].
  rewrite expand_length by exact Lf.
  rewrite ustart_ltb_total by exact Hp.
  rewrite Lf in H.
  destruct (ex_run_start stf <? length lens).
  - injection H as <- <- <-. rewrite map_app. unfold urun. cbn [map fst snd].
    rewrite (ustart_all lens (length lens)) by lia. reflexivity.
  - injection H as <- <- <-. reflexivity.
Qed.

Print Assumptions li_explicit_main.
