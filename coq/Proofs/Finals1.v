(* Proofs/Finals1.v — FINAL-FORM theorems, first group: C04 (reorder_visual on every line's L1
   levels is rule L2) and C05 (visual runs), for every valid case. *)
From BidiVerif Require Import Base ConstsGen TablesGen ModelText ModelResolve ModelLine Spec Obs Judge
     Stmts Stmts2 Stmts3 Stmts4 Stmts5 Stmts6.
From BidiVerif.Proofs Require Import L1 TextView LIAssemble TotalAssemble LLLevels FinalsBase.
From Coq Require Import Lia.

(* ================================================================== *)
(* "for every line of the case": the per-line principle for both line lists *)

Section Lines.
Variable c : tcase.
Hypothesis Hvc : valid_case c.
Let e := tc_enc c.
Let text := tc_text c.
Let chars := view_of e text.
Let lens := map snd chars.
Let cps := map fst chars.
Let k := length chars.
Variables (b' : bidi_info) (p' : para_bidi_info).
Hypothesis CA : char_analysis (tc_ds c) cps (tc_dir c) b' p'.
Hypothesis Ebi : bidi_info_new e (tc_ds c) text (tc_dir c) = Ok (xbi lens b').
Hypothesis Epi : para_bidi_info_new e (tc_ds c) text (tc_dir c) = Ok (xpi lens p').

Lemma fl_valid : valid_text e text.
Proof. destruct Hvc as (_ & Hv & _). exact Hv. Qed.

Lemma fl_lines : Forall (fun line => exists i j, i < j /\ j <= k /\ line = the_line e text i j) (tc_lines c).
Proof.
  destruct Hvc as (_ & _ & _ & _ & HL). rewrite case_chars_view in HL.
  eapply Forall_impl; [|exact HL]. intros [a b] (i & j & Hij & Hj & Ha & Hb).
  cbn [fst snd] in Ha, Hb. exists i, j. split; [exact Hij|]. split.
  - rewrite map_length in Hj. exact Hj.
  - unfold the_line. subst a b. reflexivity.
Qed.

Lemma fl_k_cps : length cps = k.
Proof. unfold cps. apply map_length. Qed.

Lemma bi_lines_forall (P : line_obs -> bool) :
  (forall i j pl, i < j -> j <= k -> pl <= 1 ->
     level_of_line (bi_paras (xbi lens b')) (the_line e text i j) = pl ->
     P (the_lo e text (bi_classes b') (bi_levels b') pl i j) = true) ->
  forallb P (to_bi_lines (model_obs false c)) = true.
Proof.
  intros H. rewrite (obs_bi_lines c _ Ebi). apply forallb_forall. intros lo Hin.
  apply in_map_iff in Hin as (line & <- & Hin).
  pose proof fl_lines as HL. rewrite Forall_forall in HL.
  destruct (HL line Hin) as (i & j & Hij & Hj & ->).
  destruct CA as (_ & _ & _ & _ & Ht & Hlv1 & _).
  rewrite fl_k_cps in Ht.
  assert (Hlk : length lens = k) by (unfold lens; apply map_length).
  destruct (find_line_para lens (bi_paras b') i (ustart lens j)
              (TotalAssemble.view_lens_pos e text fl_valid)
              ltac:(rewrite Hlk; exact Ht) ltac:(lia)) as (p & Hp & Hf).
  assert (Hpl : p_level p <= 1) by (rewrite Forall_forall in Hlv1; exact (Hlv1 p Hp)).
  specialize (H i j (p_level p) Hij Hj Hpl).
  assert (Hlev : level_of_line (bi_paras (xbi lens b')) (the_line e text i j) = p_level p).
  { unfold level_of_line, the_line. cbn [xbi bi_paras]. fold chars lens. rewrite Hf. reflexivity. }
  specialize (H Hlev).
  unfold the_lo in H. fold chars lens in H.
  replace (p0 <- para_of_line (bi_paras (xbi lens b')) (the_line e text i j) ;; Ok (p_level p0))
    with (@Ok nat (p_level p)).
  - exact H.
  - unfold para_of_line, the_line. cbn [xbi bi_paras]. fold chars lens. rewrite Hf. reflexivity.
Qed.

Lemma pi_lines_forall (P : line_obs -> bool) :
  (forall i j, i < j -> j <= k ->
     P (the_lo e text (pb_classes p') (pb_levels p') (pb_level p') i j) = true) ->
  forallb P (to_pi_lines (model_obs false c)) = true.
Proof.
  intros H. rewrite (obs_pi_lines c _ Epi). apply forallb_forall. intros lo Hin.
  apply in_map_iff in Hin as (line & <- & Hin).
  pose proof fl_lines as HL. rewrite Forall_forall in HL.
  destruct (HL line Hin) as (i & j & Hij & Hj & ->).
  exact (H i j Hij Hj).
Qed.

(* the hypotheses of Section Line of FinalsBase, for both analyses *)
Lemma ca_bi_cls : length (bi_classes b') = k.
Proof. destruct CA as (_ & H & _). rewrite H. exact fl_k_cps. Qed.
Lemma ca_bi_lv : length (bi_levels b') = k.
Proof. destruct CA as (_ & _ & H & _). rewrite H. exact fl_k_cps. Qed.
Lemma ca_bi_bounded : Forall (fun l => l <= 126) (bi_levels b').
Proof. destruct CA as (_ & _ & _ & H & _). exact H. Qed.
Lemma ca_pi_cls : length (pb_classes p') = k.
Proof. destruct CA as (_ & _ & _ & _ & _ & _ & _ & _ & _ & H & _). rewrite H. exact fl_k_cps. Qed.
Lemma ca_pi_lv : length (pb_levels p') = k.
Proof. destruct CA as (_ & _ & _ & _ & _ & _ & _ & _ & _ & _ & H & _). rewrite H. exact fl_k_cps. Qed.
Lemma ca_pi_bounded : Forall (fun l => l <= 126) (pb_levels p').
Proof.
  destruct CA as (_ & _ & _ & _ & _ & _ & _ & _ & _ & _ & _ & H & _).
  eapply Forall_impl; [|exact H]. intros l [_ Hl]. exact Hl.
Qed.
Lemma ca_pi_level : pb_level p' <= 126.
Proof. destruct CA as (_ & _ & _ & _ & _ & _ & _ & _ & _ & _ & _ & _ & H & _). lia. Qed.
End Lines.

(* ================================================================== *)
(* C04, C05 on one line *)

Lemma nat_list_eqb_refl l : nat_list_eqb l l = true.
Proof. apply (list_eqb_eq Nat.eqb Nat.eqb_eq). reflexivity. Qed.

Lemma run_list_eqb_refl (l : list run) : list_eqb run_eqb l l = true.
Proof.
  induction l as [|r t IH]; [reflexivity|]. cbn [list_eqb]. unfold run_eqb at 1.
  rewrite !Nat.eqb_refl, IH. reflexivity.
Qed.

Section PerLine.
Variable e : enc.
Variable text : list N.
Hypothesis Hvalid : valid_text e text.
Variables (cls : list bclass) (lv : list nat) (pl i j : nat).
Hypothesis Hc : length cls = length (view_of e text).
Hypothesis Hl : length lv = length (view_of e text).
Hypothesis Hij : i < j.
Hypothesis Hj : j <= length (view_of e text).
Hypothesis Hlv : Forall (fun l => l <= 126) lv.
Hypothesis Hpl : pl <= 126.

Lemma c04_line : line_rv_ok (the_lo e text cls lv pl i j) = true.
Proof.
  unfold line_rv_ok. rewrite (fl_rl e text Hvalid cls lv pl i j Hc Hl Hij Hj Hpl), fl_line.
  unfold the_line.
  destruct (fl_rv e text Hvalid cls lv pl i j Hc Hl Hij Hj Hlv Hpl) as [R Hlen]. rewrite R.
  unfold C04_judge_levels, okb. rewrite nat_list_eqb_refl, Hlen, Nat.eqb_refl. reflexivity.
Qed.

Lemma c05_line : line_runs_ok (the_lo e text cls lv pl i j) = true.
Proof.
  unfold line_runs_ok. rewrite fl_line. unfold the_line.
  rewrite (fl_rl e text Hvalid cls lv pl i j Hc Hl Hij Hj Hpl).
  destruct (fl_vr e text Hvalid cls lv pl i j Hc Hl Hij Hj Hlv Hpl) as (runs & V & D & H1 & H2 & H3).
  rewrite V, D, H1, H2, H3. unfold okb.
  rewrite !nat_list_eqb_refl, run_list_eqb_refl. reflexivity.
Qed.
End PerLine.

(* ================================================================== *)
(* the theorems *)

Lemma c04_final_proof : C04_final.
Proof.
  intros c Hvc. destruct (case_analysis c Hvc) as (b' & p' & CA & Ebi & Epi).
  pose proof (fl_valid c Hvc) as Hv.
  unfold C04_judge. apply andb_true_iff. split.
  - apply (bi_lines_forall c Hvc b' p' CA Ebi). intros i j pl Hij Hj Hpl _.
    apply c04_line; try assumption.
    + exact (ca_bi_cls c b' p' CA).
    + exact (ca_bi_lv c b' p' CA).
    + exact (ca_bi_bounded c b' p' CA).
    + lia.
  - apply (pi_lines_forall c Hvc p' Epi). intros i j Hij Hj.
    apply c04_line; try assumption.
    + exact (ca_pi_cls c b' p' CA).
    + exact (ca_pi_lv c b' p' CA).
    + exact (ca_pi_bounded c b' p' CA).
    + exact (ca_pi_level c b' p' CA).
Qed.

Lemma c05_final_proof : C05_final.
Proof.
  intros c Hvc. destruct (case_analysis c Hvc) as (b' & p' & CA & Ebi & Epi).
  pose proof (fl_valid c Hvc) as Hv.
  unfold C05_judge. apply andb_true_iff. split.
  - apply (bi_lines_forall c Hvc b' p' CA Ebi). intros i j pl Hij Hj Hpl _.
    apply c05_line; try assumption.
    + exact (ca_bi_cls c b' p' CA).
    + exact (ca_bi_lv c b' p' CA).
    + exact (ca_bi_bounded c b' p' CA).
    + lia.
  - apply (pi_lines_forall c Hvc p' Epi). intros i j Hij Hj.
    apply c05_line; try assumption.
    + exact (ca_pi_cls c b' p' CA).
    + exact (ca_pi_lv c b' p' CA).
    + exact (ca_pi_bounded c b' p' CA).
    + exact (ca_pi_level c b' p' CA).
Qed.
