(* Proofs/C09Char.v — the character-level (U32) analysis behind C09_final: it exists, and its line
   functions are total on every line of whole characters. *)
From BidiVerif Require Import Base ConstsGen TablesGen ModelText ModelResolve ModelLine Spec Obs Judge
     Stmts Stmts2 Stmts3 Stmts4 Stmts5.
From BidiVerif.Proofs Require Import LIAssemble TotalAssemble C09Gen.
From BidiVerif.Proofs Require CLReorderLine.
From BidiVerif.Props Require Import Totality C05 CLLevels CLReorderLine.
From Coq Require Import Lia.

(* ------------------------------------------------------------------ paragraphs tile the text *)
Lemma ptile_bounds9 ps : forall a b, ptile a b ps ->
  Forall (fun p => a <= p_start p /\ p_start p <= p_end p /\ p_end p <= b) ps.
Proof.
  induction ps as [|p r IH]; intros a b H; [constructor|].
  cbn [ptile] in H. destruct H as (H1 & H2 & H3).
  pose proof (ptile_le _ _ _ H3) as Hle.
  constructor; [lia|]. eapply Forall_impl; [|exact (IH _ _ H3)].
  intros q (Q1 & Q2 & Q3). cbn beta. lia.
Qed.

Lemma ptile_cover9 ps : forall a b i, ptile a b ps -> a <= i < b ->
  exists p, In p ps /\ p_start p <= i < p_end p.
Proof.
  induction ps as [|p r IH]; intros a b i H Hi; cbn [ptile] in H; [lia|].
  destruct H as (H1 & H2 & H3).
  destruct (Nat.lt_ge_cases i (p_end p)) as [Hlt|Hge].
  - exists p. split; [left; reflexivity | lia].
  - destruct (IH _ _ i H3 ltac:(lia)) as (q & Hq & Hr). exists q. split; [right; exact Hq | exact Hr].
Qed.

Lemma tile_bounded_all9 ps lv : ptile 0 (length lv) ps -> bounded_prop ps lv ->
  Forall (fun l => l <= 126) lv.
Proof.
  intros Ht Hb. apply Forall_forall. intros l Hl.
  apply In_nth_error in Hl as (i & Hi).
  assert (Hlt : i < length lv) by (apply nth_error_Some; congruence).
  destruct (ptile_cover9 ps 0 (length lv) i Ht ltac:(lia)) as (p & Hp & Hr).
  unfold bounded_prop in Hb. rewrite Forall_forall in Hb.
  destruct (Hb p Hp i Hr) as (l' & E & _ & H126). congruence.
Qed.

(* ------------------------------------------------------------------ the constructors at character level *)
Lemma char_bi9 ds cps d : dir3 d ->
  exists ii' b',
    compute_initial_info U32 ds cps d true = Ok ii' /\
    bidi_info_new U32 ds cps d = Ok b' /\
    bi_classes b' = in_classes ii' /\ bi_paras b' = in_paras ii' /\
    length (bi_classes b') = length cps /\ length (bi_levels b') = length cps /\
    ptile 0 (length cps) (bi_paras b') /\
    bounded_prop (bi_paras b') (bi_levels b') /\
    Forall (fun l => l <= 126) (bi_levels b').
Proof.
  intros Hd.
  destruct (initial_info_32 ds true d Hd cps) as (ii & Ei & Lc & _ & Ht & Hlv & Hfl).
  destruct (constructors_total_char ds cps d Hd) as [(b & Eb & Ll & Lcl & Bb) _].
  exists ii, b. split; [exact Ei|]. split; [exact Eb|].
  pose proof Eb as Eb'. unfold bidi_info_new, bidi_info_new_gen in Eb'. rewrite Ei in Eb'. cbn [bind] in Eb'.
  destruct (bidi_paras U32 ds false cps (in_classes ii) (in_paras ii) (in_flags ii) []) as [lv|s]; [|discriminate].
  cbn [bind] in Eb'. injection Eb' as <-. cbn [bi_classes bi_paras bi_levels] in *.
  split; [reflexivity|]. split; [reflexivity|]. split; [exact Lcl|]. split; [exact Ll|].
  split; [exact (Ht eq_refl)|].
  apply levels_bounded_iff in Bb. split; [exact Bb|].
  apply tile_bounded_all9 with (ps := in_paras ii); [rewrite Ll; exact (Ht eq_refl) | exact Bb].
Qed.

Lemma char_pi9 ds cps d : dir3 d ->
  exists p',
    para_bidi_info_new U32 ds cps d = Ok p' /\
    length (pb_classes p') = length cps /\ length (pb_levels p') = length cps /\
    Forall (fun l => l <= 126) (pb_levels p') /\ (0 < length cps -> pb_level p' <= 126).
Proof.
  intros Hd.
  destruct (constructors_total_char ds cps d Hd) as [_ (p & Ep & Pl & Pc & Pb)].
  exists p. split; [exact Ep|]. split; [exact Pc|]. split; [exact Pl|]. split.
  - eapply Forall_impl; [|exact Pb]. intros l [_ H]. exact H.
  - intros Hk. destruct (pb_levels p) as [|l r]; [cbn [length] in Pl; lia|].
    inversion Pb as [|? ? [H1 H2] _]; subst. lia.
Qed.

(* ------------------------------------------------------------------ the line functions at character level *)
Lemma run_maximal_bounds9 a b lv r : run_uniform_maximal a b lv r = true ->
  fst r <= length lv /\ snd r <= length lv.
Proof.
  unfold run_uniform_maximal. destruct (nth_error lv (fst r)) as [l|] eqn:E; [|discriminate].
  intros H. apply andb_true_iff in H as [H _]. apply andb_true_iff in H as [H _].
  assert (Hf : fst r < length lv) by (apply nth_error_Some; congruence).
  split; [lia|].
  destruct (Nat.le_gt_cases (snd r) (fst r)) as [Hle|Hgt]; [lia|].
  rewrite forallb_forall in H.
  assert (Hin : In (snd r - 1) (range (fst r) (snd r))) by (unfold range; apply in_seq; lia).
  specialize (H _ Hin). destruct (nth_error lv (snd r - 1)) as [x|] eqn:E2; [|discriminate].
  assert (snd r - 1 < length lv) by (apply nth_error_Some; congruence). lia.
Qed.

Lemma char_line9 cps cls lv pl i j :
  length cls = length cps -> length lv = length cps -> i < j -> j <= length cps ->
  Forall (fun l => l <= 126) lv -> pl <= 126 ->
  exists out' runs' ro',
    reordered_levels U32 false cps cls lv pl (i, j) = Ok out' /\
    reordered_levels_per_char U32 false cps cls lv pl (i, j) = Ok out' /\
    length out' = length cps /\
    visual_runs_for_line false out' (i, j) = Ok (out', runs') /\
    Forall (fun r => fst r <= length cps /\ snd r <= length cps) runs' /\
    reorder_line U32 false cps cls lv pl (i, j) = Ok ro'.
Proof.
  intros Hc Hl Hij Hj H126 Hpl.
  destruct (cl_reordered_levels cps cls lv pl i j Hc Hl ltac:(lia) Hj) as [E1 E2].
  set (out' := firstn i lv ++ l1 pl (sub cls i j) (sub lv i j) ++ skipn j lv) in *.
  assert (Lsub : length (sub lv i j) = length (sub cls i j)).
  { unfold sub. rewrite !firstn_length, !skipn_length. lia. }
  assert (Lo : length out' = length cps).
  { unfold out'. rewrite !app_length, CLReorderLine.l1_length by exact Lsub.
    unfold sub. rewrite !firstn_length, !skipn_length. lia. }
  assert (Fo : Forall (fun l => l <= 126) out').
  { unfold out'. apply Forall_app. split; [|apply Forall_app; split].
    - apply Forall_forall. intros x Hx. rewrite Forall_forall in H126. apply H126.
      rewrite <- (firstn_skipn i lv). apply in_or_app. left. exact Hx.
    - apply CLReorderLine.l1_Forall; [exact Hpl|]. unfold sub.
      apply Forall_forall. intros x Hx. rewrite Forall_forall in H126. apply H126.
      rewrite <- (firstn_skipn i lv). apply in_or_app. right.
      rewrite <- (firstn_skipn (j - i) (skipn i lv)). apply in_or_app. left. exact Hx.
    - apply Forall_forall. intros x Hx. rewrite Forall_forall in H126. apply H126.
      rewrite <- (firstn_skipn j lv). apply in_or_app. right. exact Hx. }
  destruct (C05_visual_runs out' i j Hij ltac:(lia) Fo) as (runs & Ev & _ & Hmax & _).
  destruct (cl_reorder_line cps cls lv pl i j Hc Hl Hij Hj H126 Hpl) as [E3 _].
  eexists out', runs, _. split; [exact E1|]. split; [exact E2|]. split; [exact Lo|].
  split; [exact Ev|]. split; [|exact E3].
  apply Forall_forall. intros r Hr. rewrite forallb_forall in Hmax.
  rewrite <- Lo. exact (run_maximal_bounds9 _ _ _ _ (Hmax r Hr)).
Qed.
