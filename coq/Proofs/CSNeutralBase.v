(* Proofs/CSNeutralBase.v — toolkit for CS_neutral: pointwise inversion of the vector operations,
   strictly ascending position lists, the position <-> live-index correspondence, prefix walks. *)
From BidiVerif Require Import Base ConstsGen TablesGen ModelText ModelResolve ModelLine Spec Obs Judge StageRel
     Stmts Stmts2 Stmts3 Stmts4.
From BidiVerif.Proofs Require Import TotalNeutral.

(* ------------------------------------------------------------------ *)
(* monad and vector operations, by inversion of [= Ok _] *)

Lemma bind_ok {A B} (r : res A) (f : A -> res B) y :
  bind r f = Ok y -> exists a, r = Ok a /\ f a = Ok y.
Proof. destruct r; cbn [bind]; [eauto | discriminate]. Qed.

Lemma get_inv {A} s (l : list A) i x : get s l i = Ok x -> i < length l /\ forall d, nth i l d = x.
Proof.
  unfold get. destruct (nth_error l i) eqn:E; [|discriminate]. intros [= ->]. split.
  - apply nth_error_Some; congruence.
  - intros d. apply nth_error_nth. exact E.
Qed.

Lemma get_nthd {A} s (l : list A) i d : i < length l -> get s l i = Ok (nth i l d).
Proof.
  intros H. unfold get. destruct (nth_error l i) eqn:E.
  - rewrite (nth_error_nth _ _ d E). reflexivity.
  - apply nth_error_None in E. lia.
Qed.

Lemma upd_opt_inv {A} : forall (l : list A) i x l', upd_opt l i x = Some l' ->
  i < length l /\ length l' = length l /\ forall j d, nth j l' d = if j =? i then x else nth j l d.
Proof.
  induction l as [|h t IH]; intros [|i] x l' H; cbn [upd_opt] in H; try discriminate.
  - injection H as <-. cbn [length]. split; [lia|]. split; [reflexivity|].
    intros [|j] d; reflexivity.
  - destruct (upd_opt t i x) as [t'|] eqn:E; [|discriminate]. injection H as <-.
    destruct (IH _ _ _ E) as (H1 & H2 & H3). cbn [length]. split; [lia|]. split; [lia|].
    intros [|j] d; [reflexivity|]. cbn [nth]. rewrite H3. reflexivity.
Qed.

Lemma upd_inv {A} s (l : list A) i x l' : upd s l i x = Ok l' ->
  i < length l /\ length l' = length l /\ forall j d, nth j l' d = if j =? i then x else nth j l d.
Proof.
  unfold upd. destruct (upd_opt l i x) eqn:E; [|discriminate]. intros [= <-]. eapply upd_opt_inv; eauto.
Qed.

Lemma set1_nth {A} (x : A) : forall a (l : list A), a < length l ->
  length (firstn a l ++ x :: skipn (S a) l) = length l /\
  forall j d, nth j (firstn a l ++ x :: skipn (S a) l) d = if j =? a then x else nth j l d.
Proof.
  induction a as [|a IH]; intros [|h t] Ha; cbn [length] in Ha; try lia.
  - cbn [firstn skipn app length]. split; [reflexivity|]. intros [|j] d; reflexivity.
  - destruct (IH t ltac:(lia)) as [H1 H2]. cbn [firstn skipn app length]. split; [cbn [skipn] in H1; lia|].
    intros [|j] d; [reflexivity|]. cbn [nth]. apply H2.
Qed.

Lemma set_range1_inv {A} s (l : list A) a x l' : set_range s l a (a + 1) x = Ok l' ->
  a < length l /\ length l' = length l /\ forall j d, nth j l' d = if j =? a then x else nth j l d.
Proof.
  unfold set_range. destruct ((a <=? a + 1) && (a + 1 <=? length l)) eqn:E; [|discriminate].
  apply andb_true_iff in E as [_ E]. apply Nat.leb_le in E. intros [= <-].
  replace (a + 1 - a) with 1 by lia. replace (a + 1) with (S a) by lia. cbn [repeat app].
  split; [lia|]. apply set1_nth. lia.
Qed.

Definition mem (j : nat) (l : list nat) : bool := existsb (Nat.eqb j) l.

Lemma mem_In j l : mem j l = true <-> In j l.
Proof.
  unfold mem. rewrite existsb_exists. split.
  - intros (x & Hx & E). apply Nat.eqb_eq in E. subst. exact Hx.
  - intros H. exists j. split; [exact H | apply Nat.eqb_refl].
Qed.

Lemma mem_nIn j l : mem j l = false <-> ~ In j l.
Proof. rewrite <- mem_In. destruct (mem j l); split; congruence. Qed.

Lemma mem_app j l1 l2 : mem j (l1 ++ l2) = mem j l1 || mem j l2.
Proof. unfold mem. apply existsb_app. Qed.

Lemma set_all_inv {A} s : forall idxs (l : list A) x l', set_all s l idxs x = Ok l' ->
  (forall j, In j idxs -> j < length l) /\ length l' = length l /\
  forall j d, nth j l' d = if mem j idxs then x else nth j l d.
Proof.
  induction idxs as [|i rest IH]; intros l x l' H; cbn [set_all] in H.
  - injection H as <-. split; [intros j []|]. split; [reflexivity|]. intros; reflexivity.
  - apply bind_ok in H as (l1 & E1 & H). apply upd_inv in E1 as (Hi & L1 & N1).
    apply IH in H as (Hr & L2 & N2). split.
    + intros j [<-|Hj]; [exact Hi|]. rewrite <- L1. auto.
    + split; [congruence|]. intros j d. rewrite N2, N1. cbn [mem existsb].
      fold (mem j rest). destruct (mem j rest); [rewrite orb_true_r; reflexivity|].
      rewrite orb_false_r. reflexivity.
Qed.

(* ------------------------------------------------------------------ *)
(* strictly ascending lists *)

Fixpoint asc (l : list nat) : Prop :=
  match l with [] => True | x :: r => (forall y, In y r -> x < y) /\ asc r end.

Lemma asc_app l1 l2 : asc (l1 ++ l2) <-> asc l1 /\ asc l2 /\ forall x y, In x l1 -> In y l2 -> x < y.
Proof.
  induction l1 as [|a l1 IH]; cbn [app asc].
  - split; [intros H; split; [exact I|]; split; [exact H | intros x y []] | intros (_ & H & _); exact H].
  - rewrite IH. split.
    + intros (H1 & H2 & H3 & H4). split; [split; [|exact H2]|].
      * intros y Hy. apply H1. apply in_or_app. left; exact Hy.
      * split; [exact H3|]. intros x y [<-|Hx] Hy; [apply H1; apply in_or_app; right; exact Hy | auto].
    + intros ((H1 & H2) & H3 & H4). split; [|split; [exact H2|]; split; [exact H3|]].
      * intros y Hy. apply in_app_or in Hy as [Hy|Hy]; [auto | apply H4; [left; reflexivity | exact Hy]].
      * intros x y Hx Hy. apply H4; [right; exact Hx | exact Hy].
Qed.

Lemma asc_NoDup l : asc l -> NoDup l.
Proof.
  induction l as [|a l IH]; intros H; [constructor|]. destruct H as [H1 H2]. constructor; [|auto].
  intros Hin. apply H1 in Hin. lia.
Qed.

Lemma asc_filter f l : asc l -> asc (filter f l).
Proof.
  induction l as [|a l IH]; intros H; [exact I|]. destruct H as [H1 H2]. cbn [filter].
  destruct (f a); [|auto]. split; [|auto]. intros y Hy. apply filter_In in Hy as [Hy _]. auto.
Qed.

Lemma asc_seq n : forall a, asc (seq a n).
Proof.
  induction n as [|n IH]; intros a; cbn [seq asc]; [exact I|]. split; [|apply IH].
  intros y Hy. apply in_seq in Hy. lia.
Qed.

Lemma asc_runs : forall runs p, runs_ascending p runs ->
  asc (flat_map run_range runs) /\ forall y, In y (flat_map run_range runs) -> p <= y.
Proof.
  induction runs as [|[s en] runs IH]; intros p H; cbn [flat_map].
  - split; [exact I | intros y []].
  - cbn [runs_ascending] in H. destruct H as (H1 & H2 & H3). destruct (IH _ H3) as [A B]. split.
    + apply asc_app. split; [apply asc_seq|]. split; [exact A|].
      intros x y Hx Hy. apply in_run_range in Hx. cbn [fst snd] in Hx. apply B in Hy. lia.
    + intros y Hy. apply in_app_or in Hy as [Hy|Hy].
      * apply in_run_range in Hy. cbn [fst snd] in Hy. lia.
      * apply B in Hy. lia.
Qed.

Lemma asc_split pre a post : asc (pre ++ a :: post) ->
  asc pre /\ asc post /\ (forall x, In x pre -> x < a) /\ (forall y, In y post -> a < y) /\
  (forall x y, In x pre -> In y post -> x < y).
Proof.
  intros H. apply asc_app in H as (H1 & H2 & H3). destruct H2 as [H4 H5].
  split; [exact H1|]. split; [exact H5|]. split; [intros x Hx; apply H3; [exact Hx | left; reflexivity]|].
  split; [exact H4|]. intros x y Hx Hy. apply H3; [exact Hx | right; exact Hy].
Qed.

Lemma asc_split_unique : forall p1 p2 a q1 q2,
  asc (p1 ++ a :: q1) -> p1 ++ a :: q1 = p2 ++ a :: q2 -> p1 = p2 /\ q1 = q2.
Proof.
  induction p1 as [|x p1 IH]; intros [|y p2] a q1 q2 Ha E; cbn [app] in *.
  - injection E as <-. auto.
  - injection E as <- E. exfalso. destruct Ha as [Ha _]. specialize (Ha a).
    assert (In a q1) by (rewrite E; apply in_or_app; right; left; reflexivity). apply Ha in H. lia.
  - injection E as -> E. exfalso. destruct Ha as [Ha _]. specialize (Ha a).
    assert (In a (p1 ++ a :: q1)) by (apply in_or_app; right; left; reflexivity). apply Ha in H. lia.
  - injection E as -> E. destruct Ha as [_ Ha]. destruct (IH _ _ _ _ Ha E) as [-> ->]. auto.
Qed.

Lemma range_split lo a hi : lo <= a < hi -> range lo hi = range lo a ++ a :: range (a + 1) hi.
Proof.
  intros H. unfold range. replace (hi - lo) with ((a - lo) + S (hi - (a + 1))) by lia.
  rewrite seq_app. cbn [seq]. replace (lo + (a - lo)) with a by lia. replace (S a) with (a + 1) by lia.
  reflexivity.
Qed.

Lemma rev_flat_map {A B} (f : A -> list B) : forall l, rev (flat_map f l) = flat_map (fun x => rev (f x)) (rev l).
Proof.
  induction l as [|x l IH]; [reflexivity|]. cbn [flat_map rev]. rewrite rev_app_distr, IH, flat_map_app.
  cbn [flat_map]. rewrite app_nil_r. reflexivity.
Qed.

(* the two iterators of a sequence, through the split of its position list at [a] *)
Lemma iter_split (runs : list run) a ri pre post :
  pos_ok runs a ri -> asc (flat_map run_range runs) -> flat_map run_range runs = pre ++ a :: post ->
  iter_forwards_from runs (a + 1) ri = Ok post /\ iter_backwards_from runs a ri = Ok (rev pre).
Proof.
  intros (r & Hn & Hr) Hasc HS.
  assert (Hlt : ri < length runs) by (apply nth_error_Some; congruence).
  assert (El : (length runs <? ri) = false) by (apply Nat.ltb_ge; lia).
  assert (E : flat_map run_range runs =
              (flat_map run_range (firstn ri runs) ++ range (fst r) a) ++ a :: (range (a + 1) (snd r) ++ flat_map run_range (skipn (S ri) runs))).
  { rewrite <- (firstn_skipn ri runs) at 1. rewrite (skipn_nth _ _ _ Hn). rewrite flat_map_app. cbn [flat_map].
    unfold run_range at 2. rewrite (range_split (fst r) a (snd r) Hr). rewrite <- !app_assoc. reflexivity. }
  rewrite HS in E. rewrite HS in Hasc. destruct (asc_split_unique _ _ _ _ _ Hasc E) as [-> ->].
  unfold iter_forwards_from, iter_backwards_from. rewrite El, Hn, (skipn_nth _ _ _ Hn). split; [reflexivity|].
  rewrite rev_app_distr, rev_flat_map. reflexivity.
Qed.

(* ------------------------------------------------------------------ *)
(* index into an ascending list: the number of its elements below x *)

Definition lidx (li : list nat) (x : nat) : nat := length (filter (fun j => j <? x) li).

Lemma filter_all {A} (f : A -> bool) l : (forall x, In x l -> f x = true) -> filter f l = l.
Proof.
  induction l as [|a l IH]; intros H; [reflexivity|]. cbn [filter]. rewrite (H a (or_introl eq_refl)).
  f_equal. apply IH. intros x Hx. apply H. right; exact Hx.
Qed.

Lemma filter_none {A} (f : A -> bool) l : (forall x, In x l -> f x = false) -> filter f l = [].
Proof.
  induction l as [|a l IH]; intros H; [reflexivity|]. cbn [filter]. rewrite (H a (or_introl eq_refl)).
  apply IH. intros x Hx. apply H. right; exact Hx.
Qed.

Lemma lidx_split l1 x l2 : asc (l1 ++ x :: l2) -> lidx (l1 ++ x :: l2) x = length l1.
Proof.
  intros H. apply asc_split in H as (_ & _ & H1 & H2 & _). unfold lidx. rewrite filter_app. cbn [filter].
  rewrite Nat.ltb_irrefl. rewrite filter_all, filter_none, app_nil_r; [reflexivity | |].
  - intros y Hy. apply H2 in Hy. apply Nat.ltb_ge. lia.
  - intros y Hy. apply H1 in Hy. apply Nat.ltb_lt. lia.
Qed.

Lemma filter_len_le {A} (f g : A -> bool) l : (forall x, f x = true -> g x = true) ->
  length (filter f l) <= length (filter g l).
Proof.
  intros H. induction l as [|a l IH]; [cbn; lia|]. cbn [filter]. destruct (f a) eqn:E.
  - rewrite (H _ E). cbn [length]. lia.
  - destruct (g a); cbn [length]; lia.
Qed.

Lemma lidx_mono li x y : x <= y -> lidx li x <= lidx li y.
Proof.
  intros H. unfold lidx. apply filter_len_le. intros j Hj. apply Nat.ltb_lt in Hj. apply Nat.ltb_lt. lia.
Qed.

Lemma lidx_lt li x y : asc li -> In x li -> x < y -> lidx li x < lidx li y.
Proof.
  intros Ha Hx Hxy. apply in_split in Hx as (l1 & l2 & ->). rewrite (lidx_split _ _ _ Ha).
  apply asc_split in Ha as (_ & _ & H1 & _). unfold lidx. rewrite filter_app. cbn [filter].
  assert (E : (x <? y) = true) by (apply Nat.ltb_lt; lia). rewrite E.
  rewrite filter_all; [rewrite app_length; cbn [length]; lia|].
  intros z Hz. apply H1 in Hz. apply Nat.ltb_lt. lia.
Qed.

Lemma lidx_inj li x y : asc li -> In x li -> In y li -> lidx li x = lidx li y -> x = y.
Proof.
  intros Ha Hx Hy E. destruct (Nat.lt_trichotomy x y) as [H|[H|H]]; [|exact H|].
  - pose proof (lidx_lt li x y Ha Hx H). lia.
  - pose proof (lidx_lt li y x Ha Hy H). lia.
Qed.

Lemma nth_lidx li x d : asc li -> In x li -> nth (lidx li x) li d = x.
Proof.
  intros Ha Hx. apply in_split in Hx as (l1 & l2 & ->). rewrite (lidx_split _ _ _ Ha).
  rewrite app_nth2, Nat.sub_diag by lia. reflexivity.
Qed.

Lemma lidx_len li x : asc li -> In x li -> lidx li x < length li.
Proof.
  intros Ha Hx. apply in_split in Hx as (l1 & l2 & ->). rewrite (lidx_split _ _ _ Ha).
  rewrite app_length. cbn [length]. lia.
Qed.

Lemma lidx_nth li m d : asc li -> m < length li -> lidx li (nth m li d) = m.
Proof.
  intros Ha Hm. destruct (nth_split li d Hm) as (l1 & l2 & E & L). rewrite E at 1.
  rewrite E in Ha. rewrite (lidx_split _ _ _ Ha). exact L.
Qed.

Lemma lidx_S li x : asc li -> lidx li (S x) = lidx li x + (if mem x li then 1 else 0).
Proof.
  intros Ha. unfold lidx. induction li as [|a li IH]; [reflexivity|]. destruct Ha as [H1 H2].
  cbn [filter mem existsb]. fold (mem x li). specialize (IH H2).
  destruct (Nat.eq_dec x a) as [->|Hne].
  - rewrite Nat.eqb_refl, Nat.ltb_irrefl. cbn [orb].
    assert (E : (a <? S a) = true) by (apply Nat.ltb_lt; lia). rewrite E. cbn [length].
    assert (M : mem a li = false).
    { apply mem_nIn. intros Hin. apply H1 in Hin. lia. }
    rewrite M in IH. lia.
  - assert (E : (x =? a) = false) by (apply Nat.eqb_neq; exact Hne). rewrite E. cbn [orb].
    destruct (a <? x) eqn:E1.
    + assert (E2 : (a <? S x) = true) by (apply Nat.ltb_lt; apply Nat.ltb_lt in E1; lia). rewrite E2.
      cbn [length]. lia.
    + assert (E2 : (a <? S x) = false) by (apply Nat.ltb_ge; apply Nat.ltb_ge in E1; lia). rewrite E2. exact IH.
Qed.

(* ------------------------------------------------------------------ *)
(* [at_] *)

Lemma at_length {A} (d : A) v l : length (at_ d v l) = length l.
Proof. unfold at_. apply map_length. Qed.

Lemma at_app {A} (d : A) v l1 l2 : at_ d v (l1 ++ l2) = at_ d v l1 ++ at_ d v l2.
Proof. unfold at_. apply map_app. Qed.

Lemma nth_at {A} (d d' : A) v l m : m < length l -> nth m (at_ d v l) d' = nth (nth m l 0) v d.
Proof.
  intros H. unfold at_. rewrite (nth_indep _ d' (nth 0 v d)) by (rewrite map_length; exact H).
  apply (map_nth (fun i => nth i v d)).
Qed.

Lemma at_ext {A} (d : A) v v' l : (forall x, In x l -> nth x v d = nth x v' d) -> at_ d v l = at_ d v' l.
Proof. intros H. unfold at_. apply map_ext_in. exact H. Qed.

(* two lists are equal when they agree pointwise *)
Lemma list_ext {A} (d : A) l1 l2 : length l1 = length l2 ->
  (forall m, m < length l1 -> nth m l1 d = nth m l2 d) -> l1 = l2.
Proof.
  revert l2; induction l1 as [|a l1 IH]; intros [|b l2] L H; cbn [length] in *; try lia; [reflexivity|].
  f_equal; [apply (H 0); lia|]. apply IH; [lia|]. intros m Hm. apply (H (S m)). lia.
Qed.

(* ------------------------------------------------------------------ *)
(* takewhile and membership in an ascending / descending walk *)

Fixpoint takewhile {A} (f : A -> bool) (l : list A) : list A :=
  match l with [] => [] | x :: r => if f x then x :: takewhile f r else [] end.

Lemma takewhile_incl {A} (f : A -> bool) l x : In x (takewhile f l) -> In x l /\ f x = true.
Proof.
  induction l as [|a l IH]; cbn [takewhile]; [intros []|]. destruct (f a) eqn:E; [|intros []].
  intros [<-|H]; [split; [left; reflexivity | exact E]|]. destruct (IH H). split; [right|]; assumption.
Qed.

Lemma takewhile_asc f l y : asc l ->
  (In y (takewhile f l) <-> In y l /\ forall z, In z l -> z <= y -> f z = true).
Proof.
  induction l as [|a l IH]; intros Ha; cbn [takewhile].
  - split; [intros [] | intros [[] _]].
  - destruct Ha as [H1 H2]. destruct (f a) eqn:E.
    + split.
      * intros [<-|Hy].
        -- split; [left; reflexivity|]. intros z [<-|Hz] Hle; [exact E|]. apply H1 in Hz. lia.
        -- apply IH in Hy as [Hy1 Hy2]; [|exact H2]. split; [right; exact Hy1|].
           intros z [<-|Hz] Hle; [exact E | auto].
      * intros [[<-|Hy] Hall]; [left; reflexivity|]. right. apply IH; [exact H2|]. split; [exact Hy|].
        intros z Hz Hle. apply Hall; [right; exact Hz | exact Hle].
    + split; [intros []|]. intros [Hy Hall]. exfalso.
      assert (f a = true); [|congruence]. apply Hall; [left; reflexivity|].
      destruct Hy as [<-|Hy]; [lia|]. apply H1 in Hy. lia.
Qed.

(* descending list: the reverse of an ascending one *)
Lemma takewhile_desc f l y : asc l ->
  (In y (takewhile f (rev l)) <-> In y l /\ forall z, In z l -> y <= z -> f z = true).
Proof.
  induction l as [|a l IH] using rev_ind; intros Ha.
  - cbn. split; [intros [] | intros [[] _]].
  - rewrite rev_app_distr. cbn [rev app takewhile].
    apply asc_app in Ha as (H2 & _ & H1).
    assert (H1' : forall x, In x l -> x < a) by (intros x Hx; apply H1; [exact Hx | left; reflexivity]).
    destruct (f a) eqn:E.
    + split.
      * intros [<-|Hy].
        -- split; [apply in_or_app; right; left; reflexivity|].
           intros z Hz Hle. apply in_app_or in Hz as [Hz|[<-|[]]]; [apply H1' in Hz; lia | exact E].
        -- apply IH in Hy as [Hy1 Hy2]; [|exact H2]. split; [apply in_or_app; left; exact Hy1|].
           intros z Hz Hle. apply in_app_or in Hz as [Hz|[<-|[]]]; [auto | exact E].
      * intros [Hy Hall]. apply in_app_or in Hy as [Hy|[<-|[]]]; [|left; reflexivity].
        right. apply IH; [exact H2|]. split; [exact Hy|].
        intros z Hz Hle. apply Hall; [apply in_or_app; left; exact Hz | exact Hle].
    + split; [intros []|]. intros [Hy Hall]. exfalso.
      assert (f a = true); [|congruence]. apply Hall; [apply in_or_app; right; left; reflexivity|].
      apply in_app_or in Hy as [Hy|[<-|[]]]; [apply H1' in Hy; lia | lia].
Qed.
