(* Proofs/CLReorderLine.v — reorder_line at character level (ghost encoding U32):
   exactly the line's characters, permuted by L2 of the per-character L1 levels. *)
From Coq Require Import List Arith NArith Bool Lia Permutation.
From BidiVerif Require Import Base ConstsGen TablesGen ModelText ModelResolve ModelLine Spec Obs Judge
     Stmts Stmts2 Stmts3 Stmts4 Stmts5.
From BidiVerif.Proofs Require Import LevelOps L1 VisualRuns ReorderVisual TextView.

(* ================================================================== *)
(* 0. list helpers *)

Lemma sub_length {A} (l : list A) i j : i <= j -> j <= length l -> length (sub l i j) = j - i.
Proof. intros Hij Hj. unfold sub. rewrite firstn_length, skipn_length. lia. Qed.

Lemma slice_sub {A} site (l : list A) i j : i <= j -> j <= length l -> slice site l i j = Ok (sub l i j).
Proof.
  intros Hij Hj. unfold slice, sub.
  destruct (Nat.leb_spec i j); [|lia]. destruct (Nat.leb_spec j (length l)); [|lia]. reflexivity.
Qed.

Lemma skipn_nth_cons {A} (d : A) (l : list A) : forall a, a < length l ->
  skipn a l = nth a l d :: skipn (S a) l.
Proof.
  induction l as [|x t IH]; intros a Ha; cbn [length] in Ha; [lia|].
  destruct a as [|a]; [reflexivity|]. cbn [skipn nth]. apply IH. lia.
Qed.

Lemma sub_map_nth {A} (d : A) (l : list A) : forall n a, a + n <= length l ->
  firstn n (skipn a l) = map (fun k => nth k l d) (seq a n).
Proof.
  induction n as [|n IH]; intros a Ha; [reflexivity|].
  rewrite (skipn_nth_cons d l a) by lia. cbn [firstn seq map]. f_equal. apply IH. lia.
Qed.

Lemma sub_as_map {A} (d : A) (l : list A) i j : i <= j -> j <= length l ->
  sub l i j = map (fun x => nth (i + x) l d) (seq 0 (j - i)).
Proof.
  intros Hij Hj. unfold sub. rewrite (sub_map_nth d) by lia.
  replace (seq i (j - i)) with (map (fun x => i + x) (seq 0 (j - i)))
    by (rewrite seq_shift_map, Nat.add_0_r; reflexivity).
  rewrite map_map. reflexivity.
Qed.

Lemma sub_mid {A} (x y z : list A) i j :
  length x = i -> length y = j - i -> i <= j -> sub (x ++ y ++ z) i j = y.
Proof.
  intros Hx Hy Hij. subst i. unfold sub. rewrite skipn_length_app, <- Hy. apply firstn_length_app.
Qed.

Lemma nth_error_mid {A} (x y z : list A) i k :
  length x = i -> k < length y -> nth_error (x ++ y ++ z) (i + k) = nth_error y k.
Proof.
  intros Hx Hk. rewrite nth_error_app2 by lia. rewrite Hx.
  replace (i + k - i) with k by lia. apply nth_error_app1. exact Hk.
Qed.

(* ================================================================== *)
(* 1. the U32 view: all lengths are 1 *)

Lemma lens32 (t : list N) : map snd (v32 t) = repeat 1 (length t).
Proof. unfold v32. rewrite map_map. cbn [snd]. induction t as [|c r IH]; cbn; [reflexivity | f_equal; exact IH]. Qed.

Lemma expand_ones {A} : forall (n : nat) (vals : list A), length vals = n -> expand (repeat 1 n) vals = vals.
Proof.
  induction n as [|n IH]; intros vals H.
  - destruct vals; [reflexivity | discriminate].
  - destruct vals as [|x r]; [discriminate|]. cbn [repeat]. rewrite expand_cons. cbn [repeat app].
    f_equal. apply IH. cbn [length] in H. lia.
Qed.

Lemma starts_from_ones : forall n p, starts_from p (repeat 1 n) = seq p n.
Proof.
  induction n as [|n IH]; intros p; [reflexivity|]. cbn [repeat starts_from seq]. f_equal.
  replace (p + 1) with (S p) by lia. apply IH.
Qed.

Lemma map_nth_error_seq {A} (v : list A) : map (nth_error v) (seq 0 (length v)) = map Some v.
Proof.
  induction v as [|x r IH]; [reflexivity|].
  cbn [length seq map nth_error]. f_equal. rewrite <- seq_shift, map_map. exact IH.
Qed.

Lemma at_starts_ones (v : list nat) : map dflt (at_starts (repeat 1 (length v)) v) = v.
Proof.
  unfold at_starts. rewrite starts_from_ones, map_nth_error_seq, map_map. cbn [dflt]. apply map_id.
Qed.

Lemma uniform_ones : forall (v : list nat), uniform Nat.eqb (repeat 1 (length v)) v = true.
Proof.
  induction v as [|x r IH]; [reflexivity|].
  cbn [length repeat uniform firstn skipn forallb]. rewrite !Nat.eqb_refl. cbn [andb]. exact IH.
Qed.

Lemma total_ones n : total (repeat 1 n) = n.
Proof.
  unfold total. assert (G : forall m a, fold_left Nat.add (repeat 1 m) a = a + m).
  { induction m as [|m IH]; intros a; cbn [repeat fold_left]; [lia|]. rewrite IH. lia. }
  rewrite G. reflexivity.
Qed.

Lemma line_view32 (t : list N) : line_view U32 t (v32 t).
Proof.
  destruct (view32 t) as (A & _ & _ & _ & B). split; assumption.
Qed.

(* ================================================================== *)
(* 2. L1: length, and every output level is the paragraph level or an input level *)

Lemma l1_flags_length cls : length (fst (l1_reset_flags cls)) = length cls.
Proof.
  induction cls as [|c r IH]; [reflexivity|].
  cbn [l1_reset_flags]. destruct (l1_reset_flags r) as [fl st]. cbn [fst] in IH.
  destruct c; cbn [l1_candidate is_removed]; try destruct st; cbn [fst length]; f_equal; exact IH.
Qed.

Lemma l1_apply_length pl : forall cls flags lev prev,
  length flags = length cls -> length lev = length cls ->
  length (l1_apply pl prev cls flags lev) = length cls.
Proof.
  induction cls as [|c cr IH]; intros flags lev prev Hf Hl; [reflexivity|].
  destruct flags as [|f fr]; [discriminate|]. destruct lev as [|l lr]; [discriminate|].
  cbn [l1_apply length]. f_equal. apply IH; cbn [length] in *; lia.
Qed.

Lemma l1_length pl cls lev : length lev = length cls -> length (l1 pl cls lev) = length cls.
Proof. intros H. unfold l1. apply l1_apply_length; [apply l1_flags_length | exact H]. Qed.

Lemma l1_apply_Forall (P : nat -> Prop) pl : P pl -> forall cls flags lev prev,
  P prev -> Forall P lev -> Forall P (l1_apply pl prev cls flags lev).
Proof.
  intros Hpl. induction cls as [|c cr IH]; intros flags lev prev Hp Hl; [constructor|].
  destruct flags as [|f fr]; [constructor|]. destruct lev as [|l lr]; [constructor|].
  inversion Hl as [|x y Hx Hy]; subst x y.
  cbn [l1_apply].
  assert (Q : P (if f then pl else if is_removed c then prev else l)).
  { destruct f; [exact Hpl|]. destruct (is_removed c); assumption. }
  constructor; [exact Q|]. apply IH; assumption.
Qed.

Lemma l1_Forall (P : nat -> Prop) pl cls lev : P pl -> Forall P lev -> Forall P (l1 pl cls lev).
Proof. intros Hp Hl. unfold l1. apply l1_apply_Forall; assumption. Qed.

(* reorder_levels on a U32 line is L1 *)
Lemma reorder_levels32 (t : list N) cls lev pl :
  length cls = length t -> length lev = length t ->
  reorder_levels U32 false cls lev t pl = Ok (Spec.l1 pl cls lev).
Proof.
  intros Hc Hl.
  pose proof (reorder_levels_is_L1 U32 t (v32 t) cls lev pl (line_view32 t)) as H.
  rewrite lens32 in H.
  assert (Ln : length (v32 t) = length t) by (unfold v32; apply map_length).
  rewrite Ln in H. rewrite <- Hl in H, Hc. fold dflt in H.
  rewrite at_starts_ones in H.
  rewrite (expand_ones (length lev) cls Hc) in H.
  rewrite expand_ones in H by (rewrite l1_length; congruence).
  apply H.
  - exact Hc.
  - rewrite total_ones. reflexivity.
  - apply uniform_ones.
Qed.

Lemma reordered_levels32 cps cls lv pl i j :
  length cls = length cps -> length lv = length cps -> i <= j -> j <= length cps ->
  reordered_levels U32 false cps cls lv pl (i, j)
  = Ok (firstn i lv ++ Spec.l1 pl (sub cls i j) (sub lv i j) ++ skipn j lv).
Proof.
  intros Hc Hl Hij Hj. unfold reordered_levels.
  destruct (Nat.leb_spec i (length lv)); [|lia]. destruct (Nat.leb_spec j (length lv)); [|lia].
  cbn [andb negb].
  rewrite (slice_sub 551 cls i j) by lia. cbn [bind].
  rewrite (slice_sub 552 lv i j) by lia. cbn [bind].
  cbn [t_subrange]. rewrite (slice_sub 557 cps i j) by lia. cbn [bind].
  rewrite reorder_levels32 by (rewrite !sub_length; lia). reflexivity.
Qed.

(* ================================================================== *)
(* 3. L2 of a line without odd level is the identity *)

Lemma Forall_even_forallb l : Forall (fun x => Nat.even x = true) l <-> forallb Nat.even l = true.
Proof. rewrite forallb_forall, Forall_forall. reflexivity. Qed.

Lemma l2_all_even l : forallb Nat.even l = true -> Spec.l2 l = seq 0 (length l).
Proof.
  intros H. unfold l2. pose proof (lowest_odd_spec l) as S.
  destruct (lowest_odd l) as [lo|]; [|reflexivity].
  destruct S as (O & _ & I). rewrite forallb_forall in H. specialize (H lo I).
  rewrite even_mod2 in H. apply Nat.eqb_eq in H. lia.
Qed.

Lemma no_rtl_even l : levels_has_rtl l = false -> Forall (fun x => Nat.even x = true) l.
Proof.
  intros H. apply Forall_forall. intros x Hx.
  destruct (Nat.even x) eqn:E; [reflexivity|].
  assert (Q : levels_has_rtl l = true).
  { apply has_rtl_spec. exists x. split; [exact Hx|]. rewrite <- Nat.negb_even, E. reflexivity. }
  congruence.
Qed.

(* ================================================================== *)
(* 4. facts about the runs, from the C05 judge predicates *)

Lemma In_ins q r l : In q (ins r l) <-> q = r \/ In q l.
Proof.
  induction l as [|x t IH]; cbn [ins In].
  - intuition congruence.
  - destruct (fst r <? fst x); cbn [In]; [intuition congruence|]. rewrite IH. intuition congruence.
Qed.

Lemma In_fold_ins q rs : forall acc, In q (fold_left insf rs acc) <-> In q rs \/ In q acc.
Proof.
  induction rs as [|r t IH]; intros acc; cbn [fold_left In]; [tauto|].
  rewrite IH. unfold insf. rewrite In_ins. intuition congruence.
Qed.

Lemma go_nonempty b l : forall p, go b p l = true -> Forall (fun r : run => fst r < snd r) l.
Proof.
  induction l as [|r t IH]; intros p H; [constructor|].
  cbn [go] in H. apply andb_true_iff in H as [H1 H2]. apply andb_true_iff in H1 as [_ H1].
  apply Nat.ltb_lt in H1. constructor; [exact H1 | eapply IH; exact H2].
Qed.

Lemma cover_nonempty a b runs : runs_cover a b runs = true -> Forall (fun r : run => fst r < snd r) runs.
Proof.
  intros H. rewrite runs_cover_eq in H. apply go_nonempty in H.
  rewrite Forall_forall in *. intros r Hr. apply H. apply In_fold_ins. left. exact Hr.
Qed.

Definition run_ok (LV : list nat) (r : run) : Prop :=
  fst r < snd r /\ snd r <= length LV /\
  exists l, forall k, fst r <= k < snd r -> nth_error LV k = Some l.

Lemma opt_nat_eqb_Some o l : opt_nat_eqb o l = true -> o = Some l.
Proof. destruct o as [x|]; cbn [opt_nat_eqb]; [|discriminate]. intros H. apply Nat.eqb_eq in H. congruence. Qed.

Lemma runs_ok_of_judge a b LV runs :
  runs_cover a b runs = true -> forallb (run_uniform_maximal a b LV) runs = true ->
  Forall (run_ok LV) runs.
Proof.
  intros Hc Hu. apply cover_nonempty in Hc. rewrite Forall_forall in *. rewrite forallb_forall in Hu.
  intros r Hr. specialize (Hc r Hr). specialize (Hu r Hr).
  unfold run_uniform_maximal in Hu. destruct (nth_error LV (fst r)) as [l|] eqn:E; [|discriminate].
  apply andb_true_iff in Hu as [Hu _]. apply andb_true_iff in Hu as [Hu _].
  rewrite forallb_forall in Hu.
  assert (Q : forall k, fst r <= k < snd r -> nth_error LV k = Some l).
  { intros k Hk. apply opt_nat_eqb_Some. apply Hu. unfold range. apply in_seq. lia. }
  split; [exact Hc|]. split; [|exists l; exact Q].
  assert (Q1 : nth_error LV (snd r - 1) = Some l) by (apply Q; lia).
  assert (Q2 : snd r - 1 < length LV) by (apply nth_error_Some; congruence). lia.
Qed.

(* ================================================================== *)
(* 5. all_runs_ltr and emit_runs *)

Lemma all_runs_ltr_spec LV runs : Forall (run_ok LV) runs ->
  exists bb, all_runs_ltr LV runs = Ok bb /\
    (bb = true -> Forall (fun r : run => forall k, fst r <= k < snd r ->
                                          exists l, nth_error LV k = Some l /\ Nat.even l = true) runs).
Proof.
  induction 1 as [|r t Hr _ IH].
  - exists true. split; [reflexivity | constructor].
  - destruct Hr as (H1 & H2 & l & Hl).
    cbn [all_runs_ltr]. unfold get. rewrite (Hl (fst r)) by lia. cbn [bind].
    destruct (is_ltr l) eqn:E.
    + destruct IH as (bb & Eb & Hb). exists bb. split; [exact Eb|].
      intros Ht. constructor; [|apply Hb, Ht].
      intros k Hk. exists l. split; [apply Hl, Hk|]. rewrite <- is_ltr_even. exact E.
    + exists false. split; [reflexivity | discriminate].
Qed.

Lemma emit_runs32 a b cps LV runs : length LV = length cps -> Forall (run_ok LV) runs ->
  emit_runs U32 false cps LV runs = Ok (map (fun k => nth k cps 0%N) (runs_visual_order a b LV runs)).
Proof.
  intros HL. induction 1 as [|r t Hr _ IH]; [reflexivity|].
  destruct Hr as (H1 & H2 & l & Hl).
  cbn [emit_runs]. unfold get. rewrite (Hl (fst r)) by lia. cbn [bind].
  cbn [t_subrange]. rewrite slice_sub by lia. cbn [bind].
  rewrite IH. unfold runs_visual_order. cbn [flat_map]. rewrite (Hl (fst r)) by lia.
  fold (runs_visual_order a b LV t). rewrite map_app.
  unfold sub. rewrite (sub_map_nth 0%N) by lia. fold (range (fst r) (snd r)).
  rewrite is_rtl_odd. destruct (Nat.odd l); cbn [t_chars_rev bind].
  - rewrite map_rev. reflexivity.
  - reflexivity.
Qed.

(* ================================================================== *)
(* 6. the theorem *)

Lemma Forall_firstn_skipn {A} (P : A -> Prop) n (l : list A) :
  Forall P l -> Forall P (firstn n l) /\ Forall P (skipn n l).
Proof. intros H. rewrite <- (firstn_skipn n l) in H. apply Forall_app in H. exact H. Qed.

Lemma Forall_sub {A} (P : A -> Prop) (l : list A) i j : Forall P l -> Forall P (sub l i j).
Proof. intros H. unfold sub. apply Forall_firstn_skipn, Forall_firstn_skipn, H. Qed.

Lemma cl_reorder_line_first cps cls lv pl i j :
  length cls = length cps -> length lv = length cps -> i < j -> j <= length cps ->
  Forall (fun l => l <= 126) lv -> pl <= 126 ->
  reorder_line U32 false cps cls lv pl (i, j)
  = Ok (map (fun x => nth (i + x) cps 0%N) (Spec.l2 (Spec.l1 pl (sub cls i j) (sub lv i j)))).
Proof.
  intros Hc Hl Hij Hj H126 Hpl.
  set (l1v := Spec.l1 pl (sub cls i j) (sub lv i j)).
  assert (Hlen : length l1v = j - i).
  { unfold l1v. rewrite l1_length; rewrite !sub_length; lia. }
  assert (Hid : forallb Nat.even l1v = true ->
                map (fun x => nth (i + x) cps 0%N) (Spec.l2 l1v) = sub cps i j).
  { intros Hev. rewrite (l2_all_even l1v Hev), Hlen. symmetry. apply sub_as_map; lia. }
  unfold reorder_line. cbn [fst snd]. rewrite (slice_sub 595 lv i j) by lia. cbn [bind orb].
  destruct (is_ltr pl && negb (levels_has_rtl (sub lv i j))) eqn:Eexit.
  - (* early exit: no odd stored level, even paragraph level *)
    apply andb_true_iff in Eexit as [E1 E2]. apply negb_true_iff in E2.
    cbn [t_subrange]. rewrite slice_sub by lia. f_equal. symmetry. apply Hid.
    apply Forall_even_forallb. unfold l1v. apply l1_Forall.
    + rewrite <- is_ltr_even. exact E1.
    + apply no_rtl_even. exact E2.
  - rewrite reordered_levels32 by lia. cbn [bind]. fold l1v.
    set (LV := firstn i lv ++ l1v ++ skipn j lv).
    assert (Hfi : length (firstn i lv) = i) by (rewrite firstn_length; lia).
    assert (HLV : length LV = length cps).
    { unfold LV. rewrite !app_length, Hfi, Hlen, skipn_length. lia. }
    assert (L126 : Forall (fun l => l <= 126) l1v).
    { unfold l1v. apply l1_Forall; [exact Hpl | apply Forall_sub; exact H126]. }
    assert (LV126 : Forall (fun l => l <= 126) LV).
    { unfold LV. apply Forall_app. split; [apply (Forall_firstn_skipn _ i lv H126)|].
      apply Forall_app. split; [exact L126 | apply (Forall_firstn_skipn _ j lv H126)]. }
    assert (Hsub : sub LV i j = l1v) by (apply sub_mid; lia).
    destruct (C05_proved LV i j Hij ltac:(lia) LV126) as (runs & Evr & Hcov & Hun & Hvis & _).
    rewrite Evr. cbn [bind].
    fold (sub LV i j) in Hvis. rewrite Hsub in Hvis.
    pose proof (runs_ok_of_judge i j LV runs Hcov Hun) as Hok.
    unfold reorder_line_core. cbn [fst snd].
    destruct (all_runs_ltr_spec LV runs Hok) as (bb & Ebb & Hbb). rewrite Ebb. cbn [bind].
    destruct bb.
    + (* every run is LTR: the line has no odd level after L1 *)
      cbn [t_subrange]. rewrite slice_sub by lia. f_equal. symmetry. apply Hid.
      specialize (Hbb eq_refl). rewrite Forall_forall in Hbb.
      destruct (reorder_visual_correct l1v L126) as (out & _ & _ & Hperm & Eout & _). subst out.
      apply forallb_forall. intros x Hx.
      destruct (In_nth l1v x 0 Hx) as (k & Hk & Enth).
      assert (Ik : In k (Spec.l2 l1v)).
      { eapply Permutation_in; [apply Permutation_sym; exact Hperm|]. apply in_seq. lia. }
      assert (Iik : In (i + k) (runs_visual_order i j LV runs)).
      { rewrite Hvis. apply in_map_iff. exists k. split; [reflexivity | exact Ik]. }
      unfold runs_visual_order in Iik. apply in_flat_map in Iik as (r & Hr & Hin).
      assert (Rk : fst r <= i + k < snd r).
      { destruct (nth_error LV (fst r)) as [l|]; [|destruct Hin].
        destruct (Nat.odd l); [apply in_rev in Hin|]; unfold range in Hin; apply in_seq in Hin; lia. }
      destruct (Hbb r Hr (i + k) Rk) as (l & El & Ev).
      unfold LV in El. rewrite nth_error_mid in El by lia.
      rewrite (nth_error_nth' l1v 0 Hk) in El. congruence.
    + rewrite (emit_runs32 i j cps LV runs HLV Hok). rewrite Hvis, map_map. reflexivity.
Qed.

Lemma cl_reorder_line_proved : CL_reorder_line.
Proof.
  intros cps cls lv pl i j Hc Hl Hij Hj H126 Hpl l1v.
  pose proof (cl_reorder_line_first cps cls lv pl i j Hc Hl Hij Hj H126 Hpl) as H. fold l1v in H.
  split; [exact H|].
  intros Hev. rewrite H. f_equal.
  assert (Hlen : length l1v = j - i).
  { unfold l1v. rewrite l1_length; rewrite !sub_length; lia. }
  rewrite (l2_all_even l1v Hev), Hlen. symmetry. apply sub_as_map; lia.
Qed.
