(* Proofs/C01Assemble.v — from "one paragraph follows UAX #9 at character level" (CS_para) to C01:
     c01_char_from  : CS_para -> CS_flags -> C01_char        (both constructors, ghost encoding U32)
     c01_final_from : C01_char -> C01_final                  (every encoding: length independence)
     c11_final_from : C01_final -> C11_final                 (levels <= 126; C01 at the limits)
   Proved ingredients used directly: C02 (paragraphs, paragraph levels, reported classes),
   length independence of the constructors, C07/C08 for the constructors. *)
From BidiVerif Require Import Base ConstsGen TablesGen ModelText ModelResolve ModelLine Spec Obs Judge StageRel
     Stmts Stmts2 Stmts3 Stmts4 Stmts5 Stmts6.
From BidiVerif.Proofs Require Import LevelOps Utf16 TextView ExplicitInv ExplicitSpec Queries InitialInfo
     TotalSequences TotalWeak TotalNeutral TotalAssemble LIAssemble CSAssemble.
From BidiVerif.Props Require Import LengthIndependence.
From Coq Require Import Lia PeanoNat Permutation.

(* ================================================================== *)
(* 1. P1: splitting into paragraphs *)

Section Split.
Context {A : Type}.
Variable cls : A -> bclass.

Lemma sp_concat : forall l cur, concat (split_paragraphs_from cls cur l) = cur ++ l.
Proof.
  induction l as [|x r IH]; intros cur; cbn [split_paragraphs_from].
  - destruct cur; cbn [concat]; rewrite ?app_nil_r; reflexivity.
  - destruct (cls x =c B); [cbn [concat]|]; rewrite IH, <- app_assoc; reflexivity.
Qed.

Lemma sp_nonempty : forall l cur, Forall (fun p => p <> []) (split_paragraphs_from cls cur l).
Proof.
  induction l as [|x r IH]; intros cur; cbn [split_paragraphs_from].
  - destruct cur; [constructor|]. constructor; [discriminate | constructor].
  - destruct (cls x =c B); [|apply IH]. constructor; [|apply IH]. destruct cur; discriminate.
Qed.

(* no separator except possibly as the last element *)
Definition one_para (d : A) (p : list A) : Prop := forall i, i + 1 < length p -> cls (nth i p d) <> B.

Lemma sp_one_para d : forall l cur, Forall (fun x => cls x <> B) cur ->
  Forall (one_para d) (split_paragraphs_from cls cur l).
Proof.
  induction l as [|x r IH]; intros cur Hc; cbn [split_paragraphs_from].
  - destruct cur as [|y cur']; [constructor|]. constructor; [|constructor].
    intros i Hi. rewrite Forall_forall in Hc. apply Hc. apply nth_In. lia.
  - destruct (cls x =c B) eqn:E.
    + constructor; [|apply IH; constructor].
      intros i Hi. rewrite app_length in Hi. cbn [length] in Hi.
      rewrite app_nth1 by lia. rewrite Forall_forall in Hc. apply Hc. apply nth_In. lia.
    + apply IH. apply Forall_app. split; [exact Hc|]. constructor; [|constructor].
      apply ceq_neq. exact E.
Qed.

(* a text that is one paragraph *)
Lemma sp_singleton d : forall l cur p, split_paragraphs_from cls cur l = [p] ->
  Forall (fun x => cls x <> B) cur -> p = cur ++ l /\ one_para d p.
Proof.
  intros l cur p H Hc. split.
  - rewrite <- (sp_concat l cur), H. cbn [concat]. rewrite app_nil_r. reflexivity.
  - pose proof (sp_one_para d l cur Hc) as HF. rewrite H in HF. exact (Forall_inv HF).
Qed.
End Split.

Lemma sp_map {A A'} (cls : A -> bclass) (cls' : A' -> bclass) (g : A -> A') :
  (forall x, cls' (g x) = cls x) ->
  forall l cur, split_paragraphs_from cls' (map g cur) (map g l)
                = map (map g) (split_paragraphs_from cls cur l).
Proof.
  intros Hg. induction l as [|x r IH]; intros cur; cbn [map split_paragraphs_from].
  - destruct cur; reflexivity.
  - rewrite Hg. destruct (cls x =c B).
    + cbn [map]. rewrite map_app. cbn [map]. f_equal. exact (IH []).
    + rewrite <- (IH (cur ++ [x])), map_app. reflexivity.
Qed.

(* the paragraphs of a character list, and the same seen through views *)
Definition paras_of (ds : datasource) (cps : list N) : list (list N) :=
  split_paragraphs (ds_class ds) cps.

Lemma paras_of_v32 ds cps :
  split_paragraphs (fun ch : N * nat => ds_class ds (fst ch)) (v32 cps) = map v32 (paras_of ds cps).
Proof.
  unfold split_paragraphs, paras_of, v32.
  exact (sp_map (ds_class ds) (fun ch : N * nat => ds_class ds (fst ch)) (fun c => (c, 1))
                (fun x => eq_refl) cps []).
Qed.

Lemma paras_of_cls ds cps :
  split_paragraphs (fun c : bclass => c) (map (ds_class ds) cps)
  = map (map (ds_class ds)) (paras_of ds cps).
Proof.
  unfold split_paragraphs, paras_of.
  exact (sp_map (ds_class ds) (fun c : bclass => c) (ds_class ds) (fun x => eq_refl) cps []).
Qed.

Lemma paras_of_concat ds cps : concat (paras_of ds cps) = cps.
Proof. unfold paras_of, split_paragraphs. apply (sp_concat (ds_class ds) cps []). Qed.

Lemma paras_of_wf ds cps :
  Forall (fun q => q <> [] /\ single_para (map (ds_class ds) q)) (paras_of ds cps).
Proof.
  unfold paras_of, split_paragraphs.
  pose proof (sp_nonempty (ds_class ds) cps []) as H1.
  pose proof (sp_one_para (ds_class ds) 0%N cps [] (Forall_nil _)) as H2.
  rewrite Forall_forall in *. intros q Hq. split; [apply H1; exact Hq|].
  specialize (H2 q Hq). unfold single_para. intros i Hi. rewrite map_length in Hi.
  rewrite (nth_indep _ L (ds_class ds 0%N)) by (rewrite map_length; lia).
  rewrite map_nth. apply H2. exact Hi.
Qed.

(* ================================================================== *)
(* 2. the specification of one paragraph / of a list of paragraphs *)

Lemma fill_removed_length : forall l prev, length (fill_removed prev l) = length l.
Proof. induction l as [|[x|] l IH]; intros prev; cbn [fill_removed length]; [reflexivity| |]; rewrite IH; reflexivity. Qed.

Lemma resolve_paragraph_fst cls brk d : fst (resolve_paragraph cls brk d) = para_level cls d.
Proof. unfold resolve_paragraph. destruct (explicit_levels cls (para_level cls d)). reflexivity. Qed.

Lemma resolve_paragraph_length cls brk d : length (snd (resolve_paragraph cls brk d)) = length cls.
Proof.
  unfold resolve_paragraph. destruct (explicit_levels cls (para_level cls d)). cbn [snd].
  rewrite map_length, seq_length. reflexivity.
Qed.

(* the spec_para of a paragraph given as (character, units) pairs *)
Definition sp_of (ds : datasource) (d : option nat) (pos : nat) (p : list (N * nat)) : spec_para :=
  let cls := map (fun ch => ds_class ds (fst ch)) p in
  let brk := map (fun ch => ds_bracket ds (fst ch)) p in
  {| sp_start := pos; sp_end := pos + total (map snd p); sp_lens := map snd p; sp_cls := cls;
     sp_reported := reported_classes cls; sp_level := para_level cls d;
     sp_levels := fill_removed (para_level cls d) (snd (resolve_paragraph cls brk d)) |}.

Lemma spec_paras_from_cons ds d pos p rest :
  spec_paras_from ds d pos (p :: rest) = sp_of ds d pos p :: spec_paras_from ds d (pos + total (map snd p)) rest.
Proof.
  cbn [spec_paras_from]. unfold sp_of. cbv zeta.
  rewrite <- (resolve_paragraph_fst (map (fun ch => ds_class ds (fst ch)) p)
                                    (map (fun ch => ds_bracket ds (fst ch)) p) d).
  destruct (resolve_paragraph _ _ d) as [pl lv]. reflexivity.
Qed.

(* the levels of all paragraphs depend on the characters only, not on their lengths *)
Definition plevels (ds : datasource) (d : option nat) (q : list N) : list nat :=
  let cls := map (ds_class ds) q in
  fill_removed (para_level cls d) (snd (resolve_paragraph cls (map (ds_bracket ds) q) d)).

Lemma plevels_length ds d q : length (plevels ds d q) = length q.
Proof. unfold plevels. cbv zeta. rewrite fill_removed_length, resolve_paragraph_length, map_length. reflexivity. Qed.

Lemma sp_levels_of ds d pos p : sp_levels (sp_of ds d pos p) = plevels ds d (map fst p).
Proof. unfold sp_of, plevels. cbv zeta. cbn [sp_levels]. rewrite !map_map. reflexivity. Qed.

Lemma spec_levels_flat ds d : forall ps pos,
  flat_map sp_levels (spec_paras_from ds d pos ps) = flat_map (fun p => plevels ds d (map fst p)) ps.
Proof.
  induction ps as [|p r IH]; intros pos; [reflexivity|].
  rewrite spec_paras_from_cons. cbn [flat_map]. rewrite sp_levels_of, IH. reflexivity.
Qed.

Lemma spec_lens_flat ds d : forall ps pos,
  flat_map sp_lens (spec_paras_from ds d pos ps) = map snd (concat ps).
Proof.
  induction ps as [|p r IH]; intros pos; [reflexivity|].
  rewrite spec_paras_from_cons. cbn [flat_map concat sp_of sp_lens]. rewrite IH, map_app. reflexivity.
Qed.

Lemma flat_plevels_length ds d : forall qs : list (list N),
  length (flat_map (plevels ds d) qs) = length (concat qs).
Proof.
  induction qs as [|q r IH]; [reflexivity|]. cbn [flat_map concat].
  rewrite !app_length, plevels_length, IH. reflexivity.
Qed.

(* ================================================================== *)
(* 3. levels_follow_spec through the per-unit expansion *)

Lemma at_starts_expand lens : forall (v : list nat) (pre : list nat) pos,
  length lens = length v -> Forall (fun n => 0 < n) lens -> length pre = pos ->
  map (nth_error (pre ++ expand lens v)) (starts_from pos lens) = map Some v.
Proof.
  induction lens as [|l lens IH]; intros [|x v] pre pos Hl Hp Hpre; cbn [length] in Hl; try discriminate.
  - reflexivity.
  - inversion Hp as [|? ? Hl0 Hp']; subst. rewrite expand_cons'. cbn [starts_from map]. f_equal.
    + rewrite nth_error_app2 by lia. rewrite Nat.sub_diag.
      destruct l as [|l]; [lia|]. reflexivity.
    + rewrite app_assoc. apply IH; [lia | exact Hp' |].
      rewrite app_length, repeat_length. reflexivity.
Qed.

Lemma list_eqb2_some : forall v, list_eqb2 opt_nat_eqb (map Some v) v = true.
Proof. induction v as [|x v IH]; cbn; [reflexivity|]. rewrite Nat.eqb_refl, IH. reflexivity. Qed.

Lemma list_eqb2_some_inv : forall (v w : list nat), list_eqb2 opt_nat_eqb (map Some v) w = true -> v = w.
Proof.
  induction v as [|x v IH]; intros [|y w] H; cbn in H; try discriminate; [reflexivity|].
  apply andb_true_iff in H as [H1 H2]. apply Nat.eqb_eq in H1. rewrite H1, (IH w H2). reflexivity.
Qed.

(* "the levels are the expansion of the specification's per-character levels" is what
   levels_follow_spec says, for all-positive lengths *)
Lemma lfs_expand (sps : list spec_para) (v : list nat) :
  Forall (fun n => 0 < n) (flat_map sp_lens sps) ->
  length (flat_map sp_lens sps) = length v ->
  flat_map sp_levels sps = v ->
  levels_follow_spec sps (expand (flat_map sp_lens sps) v) = true.
Proof.
  intros Hp Hl Hv. unfold levels_follow_spec. cbv zeta.
  rewrite expand_length by lia. rewrite Nat.eqb_refl. cbn [andb].
  pose proof (at_starts_expand _ v [] 0 Hl Hp eq_refl) as E. cbn [app] in E.
  unfold at_starts. rewrite E, Hv. apply list_eqb2_some.
Qed.

Lemma lfs_expand_inv (sps : list spec_para) (v : list nat) :
  Forall (fun n => 0 < n) (flat_map sp_lens sps) ->
  length (flat_map sp_lens sps) = length v ->
  levels_follow_spec sps (expand (flat_map sp_lens sps) v) = true ->
  flat_map sp_levels sps = v.
Proof.
  intros Hp Hl H. unfold levels_follow_spec in H. cbv zeta in H.
  apply andb_true_iff in H as [_ H]. unfold at_starts in H.
  pose proof (at_starts_expand _ v [] 0 Hl Hp eq_refl) as E. cbn [app] in E.
  rewrite E in H. symmetry. apply list_eqb2_some_inv. exact H.
Qed.

(* ================================================================== *)
(* 4. all paragraphs of a text, character level *)

Definition flag_ok (ds : datasource) (f : para_flags) (q : list N) : Prop :=
  f_pure_ltr f = forallb pure_ltr_class (map (ds_class ds) q) /\
  f_has_isolate f = existsb is_isolate_init (map (ds_class ds) q).

Lemma v32_cls ds q : map (fun ch : N * nat => ds_class ds (fst ch)) (v32 q) = map (ds_class ds) q.
Proof. unfold v32. rewrite map_map. reflexivity. Qed.
Lemma v32_brk ds q : map (fun ch : N * nat => ds_bracket ds (fst ch)) (v32 q) = map (ds_bracket ds) q.
Proof. unfold v32. rewrite map_map. reflexivity. Qed.
Lemma v32_fst q : map fst (v32 q) = q.
Proof. unfold v32. rewrite map_map. cbn [fst]. apply map_id. Qed.

Lemma bidi_paras_follow (HP : CS_para) ds d : dir3 d -> forall cps classes,
  length classes = length cps ->
  forall qs pre acc paras flags,
    cps = pre ++ concat qs -> length acc = length pre ->
    Forall (fun q => q <> [] /\ single_para (map (ds_class ds) q)) qs ->
    paras_follow_spec (spec_paras_from ds d (length pre) (map v32 qs)) paras = true ->
    skipn (length pre) classes = flat_map (fun q => reported_classes (map (ds_class ds) q)) qs ->
    Forall2 (flag_ok ds) flags qs ->
    bidi_paras U32 ds false cps classes paras flags acc = Ok (acc ++ flat_map (plevels ds d) qs).
Proof.
  intros Hd cps classes Hcl.
  induction qs as [|q r IH]; intros pre acc paras flags Hcps Hacc Hwf Hparas Hclasses Hflags.
  - destruct paras as [|p' ps']; [|discriminate Hparas].
    cbn [bidi_paras flat_map]. rewrite app_nil_r. reflexivity.
  - cbn [map] in Hparas. rewrite spec_paras_from_cons in Hparas.
    destruct paras as [|p' ps']; [discriminate Hparas|].
    unfold paras_follow_spec in Hparas. cbn [list_eqb2] in Hparas.
    apply andb_true_iff in Hparas as [Hp Hparas].
    unfold sp_of in Hp. cbv zeta in Hp. cbn [sp_start sp_end sp_level] in Hp.
    rewrite total_v32, v32_cls in Hp. rewrite total_v32 in Hparas.
    apply andb_true_iff in Hp as [Hp Hp3]. apply andb_true_iff in Hp as [Hp1 Hp2].
    apply Nat.eqb_eq in Hp1, Hp2, Hp3.
    inversion Hflags as [|f ? fs ? [Hf1 Hf2] Hfl']; subst flags.
    destruct (Forall_inv Hwf) as [Hq1 Hq2]. pose proof (Forall_inv_tail Hwf) as Hwf'.
    cbn [concat] in Hcps. cbn [flat_map] in Hclasses.
    assert (Hlen : length cps = length pre + length q + length (concat r))
      by (rewrite Hcps, !app_length; lia).
    assert (E1 : slice 509 cps (length pre) (length pre + length q) = Ok q).
    { destruct (slice_ok 509 cps (length pre) (length pre + length q) ltac:(lia) ltac:(lia)) as [E1 _].
      rewrite E1. f_equal. replace (length pre + length q - length pre) with (length q) by lia.
      rewrite Hcps, (la_skipn_app_exact pre (q ++ concat r) (length pre) eq_refl).
      apply la_firstn_app_exact. reflexivity. }
    assert (E2 : slice 510 classes (length pre) (length pre + length q)
                 = Ok (reported_classes (map (ds_class ds) q))).
    { destruct (slice_ok 510 classes (length pre) (length pre + length q) ltac:(lia) ltac:(lia)) as [E2 _].
      rewrite E2. f_equal. replace (length pre + length q - length pre) with (length q) by lia.
      rewrite Hclasses. apply la_firstn_app_exact. rewrite reported_length, map_length. reflexivity. }
    cbn [bidi_paras]. rewrite Hp1, Hacc, Nat.eqb_refl. cbn [bind t_subrange]. rewrite Hp2.
    rewrite E1. cbn [bind]. rewrite E2. cbn [bind].
    change (compute_bidi_info_for_para_gen U32 ds false (p_level p') (f_pure_ltr f) (f_has_isolate f) q
              (reported_classes (map (ds_class ds) q)))
      with (compute_bidi_info_for_para U32 ds (p_level p') (f_pure_ltr f) (f_has_isolate f) q
              (reported_classes (map (ds_class ds) q))).
    rewrite Hp3.
    rewrite (HP ds q d (f_pure_ltr f) (f_has_isolate f) Hq2 Hd Hf1 Hf2). cbn [bind].
    fold (plevels ds d q).
    rewrite (IH (pre ++ q) (acc ++ plevels ds d q) ps' fs).
    + cbn [flat_map]. rewrite app_assoc. reflexivity.
    + rewrite Hcps, app_assoc. reflexivity.
    + rewrite !app_length, plevels_length. lia.
    + exact Hwf'.
    + rewrite app_length. exact Hparas.
    + rewrite app_length, (Nat.add_comm (length pre) (length q)), <- (skipn_skipn' (length q) (length pre)).
      rewrite Hclasses. apply la_skipn_app_exact. rewrite reported_length, map_length. reflexivity.
    + exact Hfl'.
Qed.

(* ================================================================== *)
(* 5. BidiInfo at character level *)

Lemma Forall2_map_r {A B C} (R : A -> C -> Prop) (f : B -> C) : forall l l',
  Forall2 R l (map f l') -> Forall2 (fun a b => R a (f b)) l l'.
Proof.
  induction l as [|a l IH]; intros [|b l'] H; cbn [map] in H; inversion H; subst; constructor; auto.
Qed.

Lemma spec_classes_flat ds d : forall qs pos,
  flat_map (fun s => expand (sp_lens s) (sp_reported s)) (spec_paras_from ds d pos (map v32 qs))
  = flat_map (fun q => reported_classes (map (ds_class ds) q)) qs.
Proof.
  induction qs as [|q r IH]; intros pos; [reflexivity|].
  cbn [map]. rewrite spec_paras_from_cons. cbn [flat_map]. rewrite IH. f_equal.
  unfold sp_of. cbv zeta. cbn [sp_lens sp_reported]. rewrite v32_cls.
  apply expand_ones. rewrite reported_length, map_length. reflexivity.
Qed.

Lemma concat_v32 (qs : list (list N)) : concat (map v32 qs) = v32 (concat qs).
Proof. unfold v32. rewrite concat_map. reflexivity. Qed.

Lemma v32_pos (t : list N) : Forall (fun n => 0 < n) (map snd (v32 t)).
Proof. unfold v32. rewrite map_map. cbn [snd]. apply Forall_forall. intros n Hn. apply in_map_iff in Hn as (? & <- & _). lia. Qed.

Lemma fsi_proviso_v32 ds cps : fsi_proviso U32 ds (v32 cps).
Proof.
  unfold fsi_proviso, v32. apply Forall_forall. intros ch Hin. apply in_map_iff in Hin as (c & <- & _).
  intros _. reflexivity.
Qed.

(* levels_follow_spec at character level: the levels ARE the specification's *)
Lemma lfs_char (sps : list spec_para) (t : list N) (v : list nat) :
  flat_map sp_lens sps = map snd (v32 t) -> length v = length t ->
  flat_map sp_levels sps = v -> levels_follow_spec sps v = true.
Proof.
  intros Hl Hv Hs.
  pose proof (lfs_expand sps v) as H. rewrite Hl in H. rewrite (expand_ones t v Hv) in H.
  apply H; [apply v32_pos | rewrite map_length; unfold v32; rewrite map_length; lia | exact Hs].
Qed.

Definition case32 (ds : datasource) (cps : list N) (d : option nat) : tcase :=
  {| tc_enc := U32; tc_ds := ds; tc_text := cps; tc_dir := d; tc_lines := [] |}.

Lemma spec_text_32 ds cps d :
  spec_text (case32 ds cps d) = spec_paras_from ds d 0 (map v32 (paras_of ds cps)).
Proof.
  unfold spec_text, case_chars, case32. cbn [tc_enc tc_ds tc_text tc_dir].
  change (map (fun cp : N => (cp, 1)) cps) with (v32 cps). rewrite paras_of_v32. reflexivity.
Qed.

Lemma c01_bi (HP : CS_para) (HF : CS_flags) ds cps d : dir3 d ->
  exists b, bidi_info_new U32 ds cps d = Ok b /\
            bi_levels b = flat_map (plevels ds d) (paras_of ds cps) /\
            levels_follow_spec (spec_text (case32 ds cps d)) (bi_levels b) = true.
Proof.
  intros Hd.
  destruct (C02_proof U32 ds cps (v32 cps) d (view32 cps) (fsi_proviso_v32 ds cps)) as (ii & Ei & Hc & Hp & Hfl).
  cbv zeta in Hc, Hp. rewrite paras_of_v32 in Hc, Hp.
  set (qs := paras_of ds cps) in *.
  assert (Hcl : in_classes ii = flat_map (fun q => reported_classes (map (ds_class ds) q)) qs).
  { unfold classes_follow_spec, cls_list_eqb in Hc. apply (list_eqb_eq ceq ceq_eq) in Hc.
    rewrite Hc. apply spec_classes_flat. }
  assert (Hlen : length (in_classes ii) = length cps).
  { destruct (initial_info_32 ds true d Hd cps) as (ii' & Ei' & Lc & _).
    rewrite Ei in Ei'. injection Ei' as <-. exact Lc. }
  assert (Hflags : Forall2 (flag_ok ds) (in_flags ii) qs).
  { destruct (HF ds cps d true ii Ei) as [H _]. specialize (H eq_refl).
    rewrite paras_of_cls in H. fold qs in H. apply Forall2_map_r in H. exact H. }
  pose proof (bidi_paras_follow HP ds d Hd cps (in_classes ii) Hlen qs [] [] (in_paras ii) (in_flags ii)
                (eq_sym (paras_of_concat ds cps)) eq_refl (paras_of_wf ds cps) Hp Hcl Hflags) as Hb.
  cbn [app] in Hb.
  unfold bidi_info_new, bidi_info_new_gen. rewrite Ei. cbn [bind]. rewrite Hb. cbn [bind].
  eexists. split; [reflexivity|]. cbn [bi_levels]. split; [reflexivity|].
  rewrite spec_text_32. fold qs.
  apply (lfs_char _ cps).
  - rewrite spec_lens_flat, concat_v32. unfold qs. rewrite paras_of_concat. reflexivity.
  - rewrite flat_plevels_length. unfold qs. rewrite paras_of_concat. reflexivity.
  - rewrite spec_levels_flat. rewrite flat_map_concat_map, map_map.
    rewrite <- flat_map_concat_map. apply flat_map_ext. intros q. rewrite v32_fst. reflexivity.
Qed.

(* ================================================================== *)
(* 6. the non-split scan of a text that is one paragraph *)

Lemma ii_step_nosplit e ds d st i c : ds_class ds c <> B ->
  ii_step e ds true d st (i, c) = ii_step e ds false d st (i, c).
Proof. intros H. unfold ii_step. destruct (ds_class ds c); try reflexivity. contradiction. Qed.

Lemma ii_step_paras e ds sp d st i c st' : ds_class ds c <> B ->
  ii_step e ds sp d st (i, c) = Ok st' -> ii_paras st' = ii_paras st.
Proof.
  intros HB. unfold ii_step. cbv zeta.
  destruct (ds_class ds c); try contradiction;
    cbn [ii_classes ii_stack ii_para_start ii_para_level ii_pure ii_iso ii_paras ii_flags];
    try (intros H; injection H as <-; reflexivity);
    (destruct (ii_stack st); [intros H; injection H as <-; reflexivity|];
     intros H; apply bind_ok in H as (? & _ & H); apply bind_ok in H as (? & _ & H);
     injection H as <-; reflexivity).
Qed.

Lemma ii_fold_nosplit e ds d : forall l st, Forall (fun ic : nat * N => ds_class ds (snd ic) <> B) l ->
  ii_fold e ds true d st l = ii_fold e ds false d st l.
Proof.
  induction l as [|[i c] l IH]; intros st H; [reflexivity|].
  inversion H as [|? ? Hc Hl]; subst. cbn [ii_fold snd] in *.
  rewrite <- (ii_step_nosplit e ds d st i c Hc).
  destruct (ii_step e ds true d st (i, c)); cbn [bind]; [apply IH; exact Hl | reflexivity].
Qed.

Lemma ii_fold_paras e ds sp d : forall l st st',
  Forall (fun ic : nat * N => ds_class ds (snd ic) <> B) l ->
  ii_fold e ds sp d st l = Ok st' -> ii_paras st' = ii_paras st.
Proof.
  induction l as [|[i c] l IH]; intros st st' H E; cbn [ii_fold] in E; [injection E as <-; reflexivity|].
  inversion H as [|? ? Hc Hl]; subst. cbn [snd] in Hc.
  apply bind_ok in E as (st1 & E1 & E).
  rewrite (IH st1 st' Hl E). eapply ii_step_paras; eassumption.
Qed.

Lemma ii_fold_app e ds sp d : forall l1 l2 st,
  ii_fold e ds sp d st (l1 ++ l2) = (st' <- ii_fold e ds sp d st l1 ;; ii_fold e ds sp d st' l2).
Proof.
  induction l1 as [|ic l1 IH]; intros l2 st; [reflexivity|]. cbn [app ii_fold].
  destruct (ii_step e ds sp d st ic); cbn [bind]; [apply IH | reflexivity].
Qed.

Lemma combine_app_eq {A B} : forall (a a' : list A) (b b' : list B), length a = length b ->
  combine (a ++ a') (b ++ b') = combine a b ++ combine a' b'.
Proof.
  induction a as [|x a IH]; intros a' [|y b] b' H; cbn [length] in H; try discriminate; [reflexivity|].
  cbn [app combine]. rewrite IH by lia. reflexivity.
Qed.

Lemma app_eq_single {A} (l : list A) x p : l ++ [x] = [p] -> l = [] /\ x = p.
Proof.
  destruct l as [|y l]; cbn [app]; intros H.
  - injection H as ->. auto.
  - injection H as _ H. destruct l; discriminate H.
Qed.

Lemma nonsplit_single ds cps d ii p :
  compute_initial_info U32 ds cps d true = Ok ii -> in_paras ii = [p] ->
  cps <> [] -> (forall i, i + 1 < length cps -> ds_class ds (nth i cps 0%N) <> B) ->
  exists ii', compute_initial_info U32 ds cps d false = Ok ii' /\
              in_classes ii' = in_classes ii /\ in_level ii' = p_level p.
Proof.
  intros Ei Hp Hne Hone.
  destruct (exists_last Hne) as (body & x & ->).
  set (n := length body).
  assert (Hbody : Forall (fun ic : nat * N => ds_class ds (snd ic) <> B) (combine (seq 0 n) body)).
  { apply Forall_forall. intros [i c] Hin. cbn [snd]. apply in_combine_r in Hin.
    destruct (In_nth _ _ 0%N Hin) as (j & Hj & <-).
    rewrite <- (app_nth1 body [x] 0%N Hj). apply Hone. rewrite app_length. cbn [length]. lia. }
  assert (Hsplit : combine (seq 0 (length (body ++ [x]))) (body ++ [x])
                   = combine (seq 0 n) body ++ [(n, x)]).
  { rewrite app_length. cbn [length]. fold n. rewrite seq_app. cbn [seq Nat.add].
    rewrite combine_app_eq by (rewrite seq_length; reflexivity). reflexivity. }
  unfold compute_initial_info in *. cbn [t_char_indices t_len] in *.
  rewrite Hsplit in *. rewrite ii_fold_app in *.
  set (st0 := {| ii_classes := []; ii_stack := []; ii_para_start := 0; ii_para_level := d;
                 ii_pure := true; ii_iso := false; ii_paras := []; ii_flags := [] |}) in *.
  rewrite <- (ii_fold_nosplit U32 ds d _ st0 Hbody).
  destruct (ii_fold U32 ds true d st0 (combine (seq 0 n) body)) as [st1|] eqn:E1; cbn [bind] in *;
    [|discriminate Ei].
  assert (Hps1 : ii_paras st1 = []) by (rewrite (ii_fold_paras U32 ds true d _ st0 st1 Hbody E1); reflexivity).
  cbn [ii_fold] in *.
  destruct (ds_class ds x =c B) eqn:EB.
  - apply ceq_eq in EB.
    rewrite (ii_step_B U32 ds d st1 n x 1 EB eq_refl) in Ei. cbn [bind] in Ei.
    cbn [ii_para_start ii_paras ii_flags ii_classes ii_para_level ii_pure ii_iso] in Ei.
    assert (Hlt : (n + 1 <? length (body ++ [x])) = false)
      by (apply Nat.ltb_ge; rewrite app_length; cbn [length]; fold n; lia).
    rewrite Hlt in Ei. cbn [andb] in Ei. injection Ei as <-. cbn [in_paras in_classes] in *.
    rewrite Hps1 in Hp. cbn [app] in Hp. injection Hp as <-. cbn [p_level].
    unfold ii_step. rewrite EB. cbn [char_len bind andb].
    eexists. split; [reflexivity|]. cbn [in_classes in_level ii_classes ii_para_level]. split; reflexivity.
  - apply ceq_neq in EB.
    rewrite <- (ii_step_nosplit U32 ds d st1 n x EB).
    destruct (ii_step U32 ds true d st1 (n, x)) as [st2|] eqn:E2; cbn [bind] in *; [|discriminate Ei].
    assert (Hps2 : ii_paras st2 = []) by (rewrite (ii_step_paras U32 ds true d st1 n x st2 EB E2); exact Hps1).
    cbn [andb] in Ei.
    destruct (ii_para_start st2 <? length (body ++ [x])); injection Ei as <-; cbn [in_paras in_classes] in *.
    + rewrite Hps2 in Hp. cbn [app] in Hp. injection Hp as <-. cbn [p_level].
      eexists. split; [reflexivity|]. cbn [in_classes in_level]. split; reflexivity.
    + rewrite Hps2 in Hp. discriminate Hp.
Qed.

(* ================================================================== *)
(* 7. ParagraphBidiInfo at character level, and C01_char *)

Lemma spec_paras_length ds d : forall ps pos, length (spec_paras_from ds d pos ps) = length ps.
Proof.
  induction ps as [|p r IH]; intros pos; [reflexivity|].
  rewrite spec_paras_from_cons. cbn [length]. rewrite IH. reflexivity.
Qed.

Lemma spec_single_32 ds cps d : cps <> [] ->
  spec_single (case32 ds cps d) = spec_paras_from ds d 0 [v32 cps].
Proof. destruct cps as [|c t]; [contradiction|]. reflexivity. Qed.

Lemma c01_pi (HP : CS_para) (HF : CS_flags) ds cps d : dir3 d ->
  is_single_paragraph (case32 ds cps d) = true ->
  exists p, para_bidi_info_new U32 ds cps d = Ok p /\
            levels_follow_spec (spec_single (case32 ds cps d)) (pb_levels p) = true.
Proof.
  intros Hd Hs.
  destruct (list_eq_dec N.eq_dec cps []) as [->|Hne].
  { destruct Hd as [->|[->| ->]]; (eexists; split; [vm_compute; reflexivity | vm_compute; reflexivity]). }
  unfold is_single_paragraph in Hs. apply Nat.leb_le in Hs.
  rewrite spec_text_32, spec_paras_length, map_length in Hs.
  pose proof (paras_of_concat ds cps) as Hcat. pose proof (paras_of_wf ds cps) as Hwf.
  destruct (paras_of ds cps) as [|q [|q2 r]] eqn:Eq; cbn [length] in Hs; try lia.
  { cbn [concat] in Hcat. congruence. }
  cbn [concat] in Hcat. rewrite app_nil_r in Hcat. subst q.
  destruct (Forall_inv Hwf) as [_ Hsp].
  (* the split scan (C02) *)
  destruct (C02_proof U32 ds cps (v32 cps) d (view32 cps) (fsi_proviso_v32 ds cps)) as (ii & Ei & Hc & Hp & _).
  cbv zeta in Hc, Hp. rewrite paras_of_v32, Eq in Hc, Hp. cbn [map] in Hc, Hp.
  assert (Hcl : in_classes ii = reported_classes (map (ds_class ds) cps)).
  { unfold classes_follow_spec, cls_list_eqb in Hc. apply (list_eqb_eq ceq ceq_eq) in Hc.
    rewrite Hc. change [v32 cps] with (map v32 [cps]). rewrite spec_classes_flat.
    cbn [flat_map]. apply app_nil_r. }
  rewrite spec_paras_from_cons in Hp. unfold paras_follow_spec in Hp.
  destruct (in_paras ii) as [|p0 [|p1 ps]] eqn:Eps; try discriminate Hp.
  2:{ cbn [list_eqb2 spec_paras_from] in Hp. rewrite andb_false_r in Hp. discriminate Hp. }
  cbn [list_eqb2] in Hp. rewrite andb_true_r in Hp.
  apply andb_true_iff in Hp as [_ Hp3]. apply Nat.eqb_eq in Hp3.
  unfold sp_of in Hp3. cbv zeta in Hp3. cbn [sp_level] in Hp3. rewrite v32_cls in Hp3.
  (* the non-split scan *)
  assert (Hone : forall i, i + 1 < length cps -> ds_class ds (nth i cps 0%N) <> B).
  { intros i Hi. specialize (Hsp i). rewrite map_length in Hsp. specialize (Hsp Hi).
    rewrite (nth_indep _ L (ds_class ds 0%N)) in Hsp by (rewrite map_length; lia).
    rewrite map_nth in Hsp. exact Hsp. }
  destruct (nonsplit_single ds cps d ii p0 Ei Eps Hne Hone) as (ii' & Ei' & Hcl' & Hlv').
  destruct (HF ds cps d false ii' Ei') as [_ Hfl]. destruct (Hfl eq_refl) as [Hpure Hiso].
  unfold para_bidi_info_new, para_bidi_info_new_gen. rewrite Ei'. cbn [bind].
  rewrite Hcl', Hcl, Hlv', Hp3.
  change (compute_bidi_info_for_para_gen U32 ds false ?a ?b ?c ?t ?o)
    with (compute_bidi_info_for_para U32 ds a b c t o).
  rewrite (HP ds cps d (in_pure ii') (in_iso ii') Hsp Hd Hpure Hiso). cbn [bind].
  eexists. split; [reflexivity|]. cbn [pb_levels]. fold (plevels ds d cps).
  rewrite (spec_single_32 ds cps d Hne).
  apply (lfs_char _ cps).
  - rewrite spec_lens_flat. cbn [concat]. rewrite app_nil_r. reflexivity.
  - apply plevels_length.
  - rewrite spec_levels_flat. cbn [flat_map]. rewrite app_nil_r, v32_fst. reflexivity.
Qed.

Theorem c01_char_from : CS_para -> CS_flags -> C01_char.
Proof.
  intros HP HF ds cps d Hd c. split.
  - destruct (c01_bi HP HF ds cps d Hd) as (b & Eb & _ & Hl). exists b. split; [exact Eb | exact Hl].
  - intros Hs. exact (c01_pi HP HF ds cps d Hd Hs).
Qed.

(* ================================================================== *)
(* 8. every encoding: C01_final from C01_char and length independence *)

Lemma case_chars_view c : case_chars c = view_of (tc_enc c) (tc_text c).
Proof. unfold case_chars, view_of. destruct (tc_enc c); reflexivity. Qed.

Definition cps_of (c : tcase) : list N := map fst (case_chars c).
Definition c32_of (c : tcase) : tcase := case32 (tc_ds c) (cps_of c) (tc_dir c).

Lemma case_chars_c32 c : case_chars (c32_of c) = v32 (cps_of c).
Proof. reflexivity. Qed.

Lemma paras_of_chars ds (chars : list (N * nat)) :
  map (map fst) (split_paragraphs (fun ch : N * nat => ds_class ds (fst ch)) chars)
  = paras_of ds (map fst chars).
Proof.
  unfold split_paragraphs, paras_of. symmetry.
  exact (sp_map (fun ch : N * nat => ds_class ds (fst ch)) (ds_class ds) fst (fun x => eq_refl) chars []).
Qed.

Lemma spec_levels_chars ds d pos (chars : list (N * nat)) :
  flat_map sp_levels (spec_paras_from ds d pos (split_paragraphs (fun ch : N * nat => ds_class ds (fst ch)) chars))
  = flat_map (plevels ds d) (paras_of ds (map fst chars)).
Proof.
  rewrite spec_levels_flat, <- paras_of_chars.
  rewrite !flat_map_concat_map, map_map. reflexivity.
Qed.

Lemma spec_text_levels c :
  flat_map sp_levels (spec_text c) = flat_map (plevels (tc_ds c) (tc_dir c)) (paras_of (tc_ds c) (cps_of c)).
Proof. unfold spec_text. apply spec_levels_chars. Qed.

Lemma spec_text_lens c : flat_map sp_lens (spec_text c) = map snd (case_chars c).
Proof.
  unfold spec_text. rewrite spec_lens_flat. unfold split_paragraphs.
  rewrite (sp_concat (fun ch : N * nat => ds_class (tc_ds c) (fst ch)) (case_chars c) []). reflexivity.
Qed.

Lemma spec_text_count c : length (spec_text c) = length (paras_of (tc_ds c) (cps_of c)).
Proof.
  unfold spec_text. rewrite spec_paras_length. unfold cps_of. rewrite <- paras_of_chars, map_length. reflexivity.
Qed.

Lemma v32_map_fst (t : list N) : map fst (v32 t) = t.
Proof. apply v32_fst. Qed.

Lemma cps_of_c32 c : cps_of (c32_of c) = cps_of c.
Proof. unfold cps_of at 1. rewrite case_chars_c32. apply v32_fst. Qed.

Lemma single_c32 c : is_single_paragraph (c32_of c) = is_single_paragraph c.
Proof.
  unfold is_single_paragraph. rewrite !spec_text_count, cps_of_c32. reflexivity.
Qed.

Lemma spec_single_lens c : flat_map sp_lens (spec_single c) = map snd (case_chars c).
Proof.
  unfold spec_single. destruct (case_chars c) as [|ch r]; [reflexivity|].
  rewrite spec_lens_flat. cbn [concat]. rewrite app_nil_r. reflexivity.
Qed.

Lemma spec_single_levels c :
  flat_map sp_levels (spec_single c)
  = match cps_of c with [] => [] | _ => plevels (tc_ds c) (tc_dir c) (cps_of c) end.
Proof.
  unfold spec_single, cps_of. destruct (case_chars c) as [|ch r]; [reflexivity|].
  rewrite spec_levels_flat. cbn [flat_map]. rewrite app_nil_r. reflexivity.
Qed.

Lemma lfs_char_inv (sps : list spec_para) (t : list N) (v : list nat) :
  flat_map sp_lens sps = map snd (v32 t) ->
  levels_follow_spec sps v = true -> length v = length t /\ flat_map sp_levels sps = v.
Proof.
  intros Hl H.
  assert (Hv : length v = length t).
  { unfold levels_follow_spec in H. cbv zeta in H. apply andb_true_iff in H as [H _].
    apply Nat.eqb_eq in H. rewrite Hl, total_v32 in H. exact H. }
  split; [exact Hv|].
  apply lfs_expand_inv.
  - rewrite Hl. apply v32_pos.
  - rewrite Hl, map_length. unfold v32. rewrite map_length. lia.
  - rewrite Hl, (expand_ones t v Hv). exact H.
Qed.

Lemma lfs_transfer (sps32 sps : list spec_para) (lens : list nat) (t : list N) (v : list nat) :
  flat_map sp_lens sps32 = map snd (v32 t) -> flat_map sp_lens sps = lens ->
  Forall (fun n => 0 < n) lens -> length lens = length t ->
  flat_map sp_levels sps = flat_map sp_levels sps32 ->
  levels_follow_spec sps32 v = true ->
  levels_follow_spec sps (expand lens v) = true.
Proof.
  intros H32 Hl Hp Hlen Hlv H.
  destruct (lfs_char_inv sps32 t v H32 H) as [Hv Hs].
  rewrite <- Hl. apply lfs_expand; rewrite ?Hl; [exact Hp | lia | rewrite Hlv; exact Hs].
Qed.

Theorem c01_final_from : C01_char -> C01_final.
Proof.
  intros HC c (Henc & Hv & Hfsi & Hd & _).
  set (e := tc_enc c) in *. set (ds := tc_ds c) in *. set (text := tc_text c) in *. set (d := tc_dir c) in *.
  assert (Hcc : case_chars c = view_of e text) by apply case_chars_view.
  rewrite Hcc in Hfsi.
  set (cps := map fst (view_of e text)).
  set (lens := map snd (view_of e text)).
  assert (Ecps : cps_of c = cps) by (unfold cps_of, cps; rewrite Hcc; reflexivity).
  assert (Hpos : Forall (fun n => 0 < n) lens) by (apply TotalAssemble.view_lens_pos; exact Hv).
  assert (Hlen : length lens = length cps) by (unfold lens, cps; rewrite !map_length; reflexivity).
  destruct (HC ds cps d Hd) as [(b' & Eb & Lb) Hpi]. cbv zeta in Lb, Hpi.
  fold (case32 ds cps d) in Lb, Hpi.
  assert (E32 : c32_of c = case32 ds cps d) by (unfold c32_of; rewrite Ecps; reflexivity).
  unfold C01_judge. apply andb_true_iff. split.
  - unfold model_obs. cbn [to_bi]. fold e ds text d.
    change (bidi_info_new_gen e ds false text d) with (bidi_info_new e ds text d).
    rewrite (li_bidi_info e text Hv ds d b' Hfsi Eb). cbn [okb bi_levels]. fold lens.
    apply (lfs_transfer (spec_text (case32 ds cps d)) (spec_text c) lens cps); try assumption.
    + rewrite spec_text_lens. reflexivity.
    + rewrite spec_text_lens, Hcc. reflexivity.
    + rewrite <- E32, !spec_text_levels, cps_of_c32. reflexivity.
  - destruct (is_single_paragraph c) eqn:Es; [|reflexivity].
    rewrite <- single_c32, E32 in Es.
    destruct (Hpi Es) as (p' & Ep & Lp).
    unfold model_obs. cbn [to_pi]. fold e ds text d.
    change (para_bidi_info_new_gen e ds false text d) with (para_bidi_info_new e ds text d).
    rewrite (li_para_bidi_info e text Hv ds d p' Hfsi Ep). cbn [okb pb_levels]. fold lens.
    apply (lfs_transfer (spec_single (case32 ds cps d)) (spec_single c) lens cps); try assumption.
    + rewrite spec_single_lens. reflexivity.
    + rewrite spec_single_lens, Hcc. reflexivity.
    + rewrite <- E32, !spec_single_levels, cps_of_c32. reflexivity.
Qed.

(* ================================================================== *)
(* 9. C11: levels never exceed 126; at the limits the levels are the algorithm's (C01) *)

Lemma paras_cover ds d : forall ps pos paras,
  paras_follow_spec (spec_paras_from ds d pos ps) paras = true ->
  forall i, pos <= i < pos + total (map snd (concat ps)) ->
  exists p, In p paras /\ p_start p <= i < p_end p.
Proof.
  induction ps as [|q r IH]; intros pos paras H i Hi.
  - cbn [concat map] in Hi. rewrite total_nil in Hi. lia.
  - rewrite spec_paras_from_cons in H. unfold paras_follow_spec in H.
    destruct paras as [|p' ps']; [discriminate H|]. cbn [list_eqb2] in H.
    apply andb_true_iff in H as [Hp H].
    unfold sp_of in Hp. cbv zeta in Hp. cbn [sp_start sp_end sp_level] in Hp.
    apply andb_true_iff in Hp as [Hp _]. apply andb_true_iff in Hp as [Hp1 Hp2].
    apply Nat.eqb_eq in Hp1, Hp2.
    cbn [concat] in Hi. rewrite map_app, total_app' in Hi.
    destruct (Nat.lt_ge_cases i (pos + total (map snd q))) as [Hlt|Hge].
    + exists p'. split; [left; reflexivity | lia].
    + destruct (IH _ ps' H i ltac:(lia)) as (p & Hin & Hr). exists p. split; [right; exact Hin | exact Hr].
Qed.

Theorem c11_final_from : C01_final -> C11_final.
Proof.
  intros H01 c Hvc. pose proof Hvc as (Henc & Hv & Hfsi & Hd & _).
  set (e := tc_enc c) in *. set (ds := tc_ds c) in *. set (text := tc_text c) in *. set (d := tc_dir c) in *.
  assert (Hcc : case_chars c = view_of e text) by apply case_chars_view.
  rewrite Hcc in Hfsi.
  destruct (C07_C08_constructors_thm e ds text d Hv Hfsi Hd) as [(b & Eb & Lb & _ & _ & _ & Bb) (p & Ep & _ & _ & _ & _ & Bp)].
  unfold C11_judge. apply andb_true_iff. split; [apply andb_true_iff; split|].
  - unfold model_obs. cbn [to_bi]. fold e ds text d.
    change (bidi_info_new_gen e ds false text d) with (bidi_info_new e ds text d).
    rewrite Eb. cbn [okb].
    (* the paragraphs tile the text (C02) *)
    destruct (C02_proof e ds text (view_of e text) d (view_of_proved e text Hv) Hfsi) as (ii & Ei & _ & Hp & _).
    cbv zeta in Hp.
    assert (Epar : bi_paras b = in_paras ii).
    { unfold bidi_info_new, bidi_info_new_gen in Eb. rewrite Ei in Eb. cbn [bind] in Eb.
      apply bind_ok in Eb as (lv & _ & Eb). injection Eb as <-. reflexivity. }
    apply levels_bounded_iff in Bb. unfold bounded_prop in Bb. rewrite Epar, Forall_forall in Bb.
    apply forallb_forall. intros l Hl. apply Nat.leb_le.
    destruct (In_nth_error _ _ Hl) as (i & Hi).
    assert (Hil : i < length (bi_levels b)) by (apply nth_error_Some; rewrite Hi; discriminate).
    rewrite Lb in Hil.
    destruct (paras_cover ds d _ 0 (in_paras ii) Hp i) as (q & Hq & Hr).
    { unfold split_paragraphs.
      rewrite (sp_concat (fun ch : N * nat => ds_class ds (fst ch)) (view_of e text) []). cbn [app]. lia. }
    destruct (Bb q Hq i Hr) as (l' & Hl' & _ & Hle). rewrite Hi in Hl'. injection Hl' as ->. exact Hle.
  - unfold model_obs. cbn [to_pi]. fold e ds text d.
    change (para_bidi_info_new_gen e ds false text d) with (para_bidi_info_new e ds text d).
    rewrite Ep. cbn [okb].
    apply forallb_forall. intros l Hl. rewrite Forall_forall in Bp. apply Nat.leb_le. exact (proj2 (Bp l Hl)).
  - destruct (case_reaches_limits c); [|reflexivity]. apply H01. exact Hvc.
Qed.
