(* Proofs/ParaIndep.v — C10: paragraph independence of BidiInfo::new and agreement of
   ParagraphBidiInfo::new with it on single-paragraph texts.
   1. the scanner of compute_initial_info commutes with a shift of positions (arbitrary prefix of
      classes, of paragraphs and of flags);
   2. a text cut after a class-B character: the scan of the whole is the scan of the first part
      followed by the shifted scan of the rest;
   3. a single paragraph: split and non-split mode agree;
   4. the per-paragraph loop [bidi_paras] and the two constructors. *)
From BidiVerif Require Import Base ConstsGen TablesGen ModelText ModelResolve ModelLine Spec Obs Judge
     Stmts Stmts2 Stmts3 Stmts4 Stmts5 Stmts6.
From BidiVerif.Proofs Require Import Utf16 TextView InitialInfo LIAssemble.
From Coq Require Import Lia.

(* ================================================================== *)
(* 0. small tools *)

Definition rmap {A B} (f : A -> B) (r : res A) : res B :=
  match r with Ok a => Ok (f a) | Panic s => Panic s end.

Lemma pi_bind_ok {A B} (r : res A) (f : A -> res B) (y : B) :
  bind r f = Ok y -> exists x, r = Ok x /\ f x = Ok y.
Proof. destruct r as [a|s]; cbn [bind]; intros H; [exists a; split; [reflexivity|exact H] | discriminate]. Qed.

Lemma rmap_bind {A B C} (g : B -> C) (r : res A) (f : A -> res B) :
  rmap g (bind r f) = bind r (fun a => rmap g (f a)).
Proof. destruct r; reflexivity. Qed.

Lemma bind_rmap {A B C} (g : A -> B) (r : res A) (f : B -> res C) :
  bind (rmap g r) f = bind r (fun a => f (g a)).
Proof. destruct r; reflexivity. Qed.

Lemma get_app_shift {A} site (pre l : list A) k i : length pre = k ->
  get site (pre ++ l) (k + i) = get site l i.
Proof.
  intros <-. unfold get. rewrite nth_error_app2 by lia.
  replace (length pre + i - length pre) with i by lia. reflexivity.
Qed.

Lemma upd_opt_app_shift {A} (pre : list A) : forall l i x,
  upd_opt (pre ++ l) (length pre + i) x = option_map (app pre) (upd_opt l i x).
Proof.
  induction pre as [|a pre IH]; intros l i x.
  - cbn [app length Nat.add]. destruct (upd_opt l i x); reflexivity.
  - cbn [app length Nat.add upd_opt]. rewrite IH.
    destruct (upd_opt l i x); reflexivity.
Qed.

Lemma upd_app_shift {A} site (pre l : list A) k i x : length pre = k ->
  upd site (pre ++ l) (k + i) x = rmap (app pre) (upd site l i x).
Proof.
  intros <-. unfold upd. rewrite upd_opt_app_shift.
  destruct (upd_opt l i x); reflexivity.
Qed.

Section Scan.
Variable e : enc.
Variable ds : datasource.

Lemma write_fsi_app_shift (pre : list bclass) k kk : length pre = k -> forall js l s,
  write_fsi (pre ++ l) (k + s) js kk = rmap (app pre) (write_fsi l s js kk).
Proof.
  intros Hk. induction js as [|j js IH]; intros l s.
  - reflexivity.
  - cbn [write_fsi]. rewrite <- Nat.add_assoc, (upd_app_shift _ pre l k (s + j) kk Hk).
    rewrite bind_rmap, rmap_bind.
    destruct (upd 387 l (s + j) kk) as [l'|site]; cbn [bind]; [apply IH | reflexivity].
Qed.

Lemma write_fsi_length kk : forall js l s l', write_fsi l s js kk = Ok l' -> length l' = length l.
Proof.
  induction js as [|j js IH]; intros l s l' H.
  - injection H as <-. reflexivity.
  - cbn [write_fsi] in H. apply pi_bind_ok in H. destruct H as (l1 & H1 & H2).
    rewrite (IH _ _ _ H2). exact (la_upd_length _ _ _ _ _ H1).
Qed.

(* ================================================================== *)
(* 1. shifting the scanner *)

Definition shiftp (k : nat) (p : para_info) : para_info :=
  {| p_start := k + p_start p; p_end := k + p_end p; p_level := p_level p |}.

Definition shift_st (k : nat) (pre : list bclass) (P : list para_info) (F : list para_flags)
           (s : ii_state) : ii_state :=
  {| ii_classes := pre ++ ii_classes s; ii_stack := map (Nat.add k) (ii_stack s);
     ii_para_start := k + ii_para_start s; ii_para_level := ii_para_level s;
     ii_pure := ii_pure s; ii_iso := ii_iso s;
     ii_paras := P ++ map (shiftp k) (ii_paras s); ii_flags := F ++ ii_flags s |}.

Lemma step_shift split dl k pre P F s i c : length pre = k ->
  ii_step e ds split dl (shift_st k pre P F s) (k + i, c)
  = rmap (shift_st k pre P F) (ii_step e ds split dl s (i, c)).
Proof.
  intros Hk. unfold ii_step.
  cbn [shift_st ii_classes ii_stack ii_para_start ii_para_level ii_pure ii_iso ii_paras ii_flags].
  rewrite <- !app_assoc.
  destruct (ds_class ds c) eqn:EC; cbn [rmap ceq bclass_beq]; try reflexivity.
  all: try (destruct (ii_stack s) as [|st stk]; cbn [map rmap];
            [reflexivity |
             rewrite (get_app_shift _ pre _ k st Hk);
             destruct (get 383 (ii_classes s ++ repeat _ (char_len e c)) st) as [kk|site];
             cbn [bind rmap]; [|reflexivity];
             destruct (kk =c FSI);
             [ rewrite (write_fsi_app_shift pre k _ Hk);
               destruct (write_fsi _ st _ _) as [l'|site]; cbn [bind rmap]; reflexivity
             | cbn [bind rmap]; reflexivity ]]).
  - (* B *) destruct split; cbn [rmap]; [|reflexivity].
    unfold shift_st.
    cbn [ii_classes ii_stack ii_para_start ii_para_level ii_pure ii_iso ii_paras ii_flags map].
    rewrite map_app. cbn [map]. unfold shiftp at 3. cbn [p_start p_end p_level]. rewrite !Nat.add_assoc. reflexivity.
  - (* PDI *) unfold shift_st.
    cbn [ii_classes ii_stack ii_para_start ii_para_level ii_pure ii_iso ii_paras ii_flags].
    destruct (ii_stack s); reflexivity.
Qed.

Definition shift_ic (k : nat) (ic : nat * N) : nat * N := (k + fst ic, snd ic).

Lemma fold_shift split dl k pre P F : length pre = k -> forall l s,
  ii_fold e ds split dl (shift_st k pre P F s) (map (shift_ic k) l)
  = rmap (shift_st k pre P F) (ii_fold e ds split dl s l).
Proof.
  intros Hk. induction l as [|[i c] l IH]; intros s.
  - reflexivity.
  - cbn [map ii_fold]. change (shift_ic k (i, c)) with (k + i, c). rewrite step_shift by exact Hk.
    rewrite bind_rmap, rmap_bind.
    destruct (ii_step e ds split dl s (i, c)) as [s1|site]; cbn [bind]; [apply IH | reflexivity].
Qed.

End Scan.

(* ================================================================== *)
(* 2. compute_initial_info on the characters of a text *)

Section Info.
Variable e : enc.
Variable ds : datasource.
Variable d : option nat.

Definition st0 : ii_state :=
  {| ii_classes := []; ii_stack := []; ii_para_start := 0; ii_para_level := d;
     ii_pure := true; ii_iso := false; ii_paras := []; ii_flags := [] |}.

Definition finalize (split : bool) (st : ii_state) (n : nat) : initial_info :=
  {| in_classes := ii_classes st; in_level := opt_or (ii_para_level st) 0;
     in_pure := ii_pure st; in_iso := ii_iso st;
     in_paras := if split && (ii_para_start st <? n)
                 then ii_paras st ++ [{| p_start := ii_para_start st; p_end := n;
                                         p_level := opt_or (ii_para_level st) 0 |}]
                 else ii_paras st;
     in_flags := if split && (ii_para_start st <? n)
                 then ii_flags st ++ [{| f_pure_ltr := ii_pure st; f_has_isolate := ii_iso st |}]
                 else ii_flags st |}.

Definition cinfo (split : bool) (chars : list (N * nat)) : res initial_info :=
  st <- ii_fold e ds split d st0 (idx 0 chars) ;; Ok (finalize split st (slen chars)).

Lemma cinfo_view split text chars : text_view e text chars ->
  compute_initial_info e ds text d split = cinfo split chars.
Proof.
  intros (V1 & _ & _ & V4 & _). unfold compute_initial_info, cinfo. fold st0.
  unfold idx. rewrite <- V1. rewrite V4, total_slen.
  destruct (ii_fold e ds split d st0 (t_char_indices e text)) as [st|site]; cbn [bind]; [|reflexivity].
  unfold finalize. destruct (split && (ii_para_start st <? slen chars)); reflexivity.
Qed.

Definition lenok (l : list (N * nat)) : Prop :=
  Forall (fun ch : N * nat => snd ch = char_len e (fst ch) /\ 0 < snd ch) l.
Definition noB (l : list (N * nat)) : Prop :=
  Forall (fun ch : N * nat => ds_class ds (fst ch) <> B) l.

Lemma idx_cons p c n r : idx p ((c, n) :: r) = (p, c) :: idx (p + n) r.
Proof. reflexivity. Qed.

Lemma idx_app a : forall p b, idx p (a ++ b) = idx p a ++ idx (p + slen a) b.
Proof.
  induction a as [|[c n] a IH]; intros p b.
  - cbn [app]. rewrite slen_nil, Nat.add_0_r. reflexivity.
  - cbn [app]. rewrite !idx_cons, IH, slen_cons, Nat.add_assoc. reflexivity.
Qed.

Lemma idx_shift k l : forall p, idx (k + p) l = map (shift_ic k) (idx p l).
Proof.
  induction l as [|[c n] l IH]; intros p.
  - reflexivity.
  - rewrite !idx_cons. cbn [map]. rewrite <- Nat.add_assoc, IH. reflexivity.
Qed.

Lemma ii_fold_app split dl l1 : forall s l2,
  ii_fold e ds split dl s (l1 ++ l2)
  = (s1 <- ii_fold e ds split dl s l1 ;; ii_fold e ds split dl s1 l2).
Proof.
  induction l1 as [|ic l1 IH]; intros s l2.
  - reflexivity.
  - cbn [app ii_fold]. destruct (ii_step e ds split dl s ic) as [s'|site]; cbn [bind]; [apply IH | reflexivity].
Qed.

(* ---- one step: length of the class vector; steps that are not at a separator ---- *)

Lemma step_len split dl s i c s' : ii_step e ds split dl s (i, c) = Ok s' ->
  length (ii_classes s') = length (ii_classes s) + char_len e c.
Proof.
  unfold ii_step. intros H.
  assert (HL : length (ii_classes s ++ repeat (ds_class ds c) (char_len e c))
               = length (ii_classes s) + char_len e c)
    by (rewrite app_length, repeat_length; reflexivity).
  destruct (ds_class ds c) eqn:EC;
    try (injection H as <-; exact HL);
    try (destruct split; injection H as <-; exact HL).
  all: destruct (ii_stack s) as [|st stk]; [injection H as <-; exact HL|].
  all: apply pi_bind_ok in H; destruct H as (kk & _ & H).
  all: apply pi_bind_ok in H; destruct H as (cl' & H1 & H); injection H as <-.
  all: cbn [ii_classes]; destruct (kk =c FSI);
    [ rewrite (write_fsi_length _ _ _ _ _ H1); exact HL | injection H1 as <-; exact HL ].
Qed.

Lemma step_noB_split split split' dl s i c : ds_class ds c <> B ->
  ii_step e ds split dl s (i, c) = ii_step e ds split' dl s (i, c).
Proof.
  intros HB. unfold ii_step. destruct (ds_class ds c); try reflexivity. contradiction.
Qed.

Lemma step_noB_keep split dl s i c s' : ds_class ds c <> B ->
  ii_step e ds split dl s (i, c) = Ok s' ->
  ii_paras s' = ii_paras s /\ ii_flags s' = ii_flags s /\ ii_para_start s' = ii_para_start s.
Proof.
  intros HB. unfold ii_step. intros H.
  destruct (ds_class ds c) eqn:EC; try contradiction;
    try (injection H as <-; repeat split; reflexivity).
  all: destruct (ii_stack s) as [|st stk]; [injection H as <-; repeat split; reflexivity|].
  all: apply pi_bind_ok in H; destruct H as (kk & _ & H).
  all: apply pi_bind_ok in H; destruct H as (cl' & _ & H); injection H as <-.
  all: repeat split; reflexivity.
Qed.

Lemma fold_len split dl l : lenok l -> forall p s s',
  ii_fold e ds split dl s (idx p l) = Ok s' ->
  length (ii_classes s') = length (ii_classes s) + slen l.
Proof.
  induction l as [|[c n] l IH]; intros Hok p s s' H.
  - injection H as <-. rewrite slen_nil. lia.
  - inversion Hok as [|? ? Hx Hr]; subst. cbn [fst snd] in Hx. destruct Hx as (Hx & _).
    rewrite idx_cons in H. cbn [ii_fold] in H.
    apply pi_bind_ok in H. destruct H as (s1 & H1 & H).
    rewrite (IH Hr _ _ _ H), (step_len _ _ _ _ _ _ H1), slen_cons, Hx. lia.
Qed.

Lemma fold_noB_split split split' dl l : noB l -> forall p s,
  ii_fold e ds split dl s (idx p l) = ii_fold e ds split' dl s (idx p l).
Proof.
  induction l as [|[c n] l IH]; intros HB p s.
  - reflexivity.
  - inversion HB as [|? ? Hx Hr]; subst. cbn [fst] in Hx.
    rewrite idx_cons. cbn [ii_fold]. rewrite (step_noB_split split split' dl s p c Hx).
    destruct (ii_step e ds split' dl s (p, c)) as [s1|site]; cbn [bind]; [apply (IH Hr) | reflexivity].
Qed.

Lemma fold_noB_keep split dl l : noB l -> forall p s s',
  ii_fold e ds split dl s (idx p l) = Ok s' ->
  ii_paras s' = ii_paras s /\ ii_flags s' = ii_flags s /\ ii_para_start s' = ii_para_start s.
Proof.
  induction l as [|[c n] l IH]; intros HB p s s' H.
  - injection H as <-. repeat split; reflexivity.
  - inversion HB as [|? ? Hx Hr]; subst. cbn [fst] in Hx.
    rewrite idx_cons in H. cbn [ii_fold] in H.
    apply pi_bind_ok in H. destruct H as (s1 & H1 & H).
    destruct (IH Hr _ _ _ H) as (A1 & A2 & A3).
    destruct (step_noB_keep _ _ _ _ _ _ Hx H1) as (B1 & B2 & B3).
    rewrite A1, A2, A3, B1, B2, B3. repeat split; reflexivity.
Qed.

Lemma slen_pos l : lenok l -> l <> [] -> 0 < slen l.
Proof.
  intros H Hne. destruct l as [|[c n] l]; [contradiction|].
  inversion H as [|? ? Hx _]; subst. cbn [snd] in Hx. rewrite slen_cons. lia.
Qed.

Lemma first_B l : noB l \/ exists A c n R, l = A ++ (c, n) :: R /\ noB A /\ ds_class ds c = B.
Proof.
  induction l as [|[c n] l IH].
  - left. constructor.
  - destruct (bclass_eq_dec (ds_class ds c) B) as [E|NE].
    + right. exists [], c, n, l. split; [reflexivity|]. split; [constructor | exact E].
    + destruct IH as [H | (A & c' & n' & R & -> & HA & HB)].
      * left. constructor; [exact NE | exact H].
      * right. exists ((c, n) :: A), c', n', R. split; [reflexivity|].
        split; [constructor; [exact NE | exact HA] | exact HB].
Qed.

(* ---- a single paragraph ---- *)

Definition onepara (l : list (N * nat)) : Prop :=
  l <> [] /\ exists A T, l = A ++ T /\ noB A /\
                         (T = [] \/ exists c n, T = [(c, n)] /\ ds_class ds c = B).

Lemma single_para l ii : lenok l -> onepara l -> cinfo true l = Ok ii ->
  exists lv pure iso,
    in_paras ii = [{| p_start := 0; p_end := slen l; p_level := lv |}] /\
    in_flags ii = [{| f_pure_ltr := pure; f_has_isolate := iso |}] /\
    length (in_classes ii) = slen l /\
    cinfo false l = Ok {| in_classes := in_classes ii; in_level := lv; in_pure := pure; in_iso := iso;
                          in_paras := []; in_flags := [] |}.
Proof.
  intros Hok (Hne & A & T & -> & HA & HT) H.
  unfold cinfo in H. apply pi_bind_ok in H. destruct H as (s & Hs & H). injection H as <-.
  pose proof (fold_len _ _ _ Hok _ _ _ Hs) as HL. cbn [st0 ii_classes length Nat.add] in HL.
  destruct HT as [-> | (c & n & -> & HB)].
  - rewrite app_nil_r in *.
    destruct (fold_noB_keep _ _ _ HA _ _ _ Hs) as (K1 & K2 & K3).
    cbn [st0 ii_paras ii_flags ii_para_start] in K1, K2, K3.
    pose proof (slen_pos A Hok Hne) as Hp.
    exists (opt_or (ii_para_level s) 0), (ii_pure s), (ii_iso s).
    unfold finalize. cbn [in_paras in_flags in_classes].
    rewrite K1, K2, K3. cbn [andb]. destruct (Nat.ltb_spec 0 (slen A)) as [_|]; [|lia].
    cbn [app]. split; [reflexivity|]. split; [reflexivity|]. split; [exact HL|].
    unfold cinfo. rewrite (fold_noB_split false true d A HA), Hs. cbn [bind].
    unfold finalize. cbn [andb]. rewrite K1, K2. reflexivity.
  - rewrite idx_app, ii_fold_app in Hs. apply pi_bind_ok in Hs. destruct Hs as (sA & HsA & Hs).
    rewrite idx_cons in Hs. cbn [ii_fold idx map positions] in Hs.
    apply pi_bind_ok in Hs. destruct Hs as (s1 & Hs1 & Hs). injection Hs as <-.
    destruct (fold_noB_keep _ _ _ HA _ _ _ HsA) as (K1 & K2 & K3).
    cbn [st0 ii_paras ii_flags ii_para_start] in K1, K2, K3.
    apply Forall_app in Hok. destruct Hok as (HokA & HokT).
    inversion HokT as [|? ? Hx _]; subst. cbn [fst snd] in Hx. destruct Hx as (Hx & Hn).
    rewrite (ii_step_B e ds d sA _ c n HB Hx) in Hs1. injection Hs1 as <-.
    exists (opt_or (ii_para_level sA) 0), (ii_pure sA), (ii_iso sA).
    unfold finalize.
    cbn [in_paras in_flags in_classes ii_paras ii_flags ii_classes ii_para_start ii_para_level] in *.
    rewrite K1, K2, K3. cbn [andb app Nat.add].
    rewrite slen_app, slen_cons, slen_nil, Nat.add_0_r, Nat.ltb_irrefl.
    split; [reflexivity|]. split; [reflexivity|].
    split; [rewrite HL, slen_app, slen_cons, slen_nil; lia|].
    unfold cinfo. rewrite idx_app, ii_fold_app.
    rewrite (fold_noB_split false true d A HA), HsA. cbn [bind].
    rewrite idx_cons. cbn [ii_fold idx map positions].
    unfold ii_step. rewrite HB. cbn [bind]. unfold finalize. cbn [andb].
    cbn [in_paras in_flags in_classes ii_paras ii_flags ii_classes ii_para_start ii_para_level ii_pure ii_iso].
    rewrite K1, K2, Hx. reflexivity.
Qed.


(* ---- a text cut after a separator ---- *)

Lemma after_B A c n s1 : lenok (A ++ [(c, n)]) -> ds_class ds c = B ->
  ii_fold e ds true d st0 (idx 0 (A ++ [(c, n)])) = Ok s1 ->
  length (ii_classes s1) = slen (A ++ [(c, n)]) /\
  s1 = shift_st (slen (A ++ [(c, n)])) (ii_classes s1) (ii_paras s1) (ii_flags s1) st0.
Proof.
  intros Hok HB Hs.
  pose proof (fold_len _ _ _ Hok _ _ _ Hs) as HL. cbn [st0 ii_classes length Nat.add] in HL.
  split; [exact HL|].
  rewrite idx_app, ii_fold_app in Hs. apply pi_bind_ok in Hs. destruct Hs as (sA & HsA & Hs).
  rewrite idx_cons in Hs. cbn [ii_fold idx map positions] in Hs.
  apply pi_bind_ok in Hs. destruct Hs as (s' & Hs1 & Hs). injection Hs as <-.
  apply Forall_app in Hok. destruct Hok as (_ & HokT).
  inversion HokT as [|? ? Hx _]; subst. cbn [fst snd] in Hx. destruct Hx as (Hx & Hn).
  rewrite (ii_step_B e ds d sA _ c n HB Hx) in Hs1. injection Hs1 as <-.
  unfold shift_st, st0.
  cbn [ii_classes ii_stack ii_para_start ii_para_level ii_pure ii_iso ii_paras ii_flags map].
  rewrite !app_nil_r, Nat.add_0_r, slen_app, slen_cons, slen_nil, Nat.add_0_r. reflexivity.
Qed.

Lemma cinfo_split A c n R ii : lenok ((A ++ [(c, n)]) ++ R) -> ds_class ds c = B ->
  cinfo true ((A ++ [(c, n)]) ++ R) = Ok ii ->
  exists ii1 iiR,
    cinfo true (A ++ [(c, n)]) = Ok ii1 /\ cinfo true R = Ok iiR /\
    in_classes ii = in_classes ii1 ++ in_classes iiR /\
    in_paras ii = in_paras ii1 ++ map (shiftp (slen (A ++ [(c, n)]))) (in_paras iiR) /\
    in_flags ii = in_flags ii1 ++ in_flags iiR /\
    length (in_classes ii1) = slen (A ++ [(c, n)]).
Proof.
  intros Hok HB H. set (A1 := A ++ [(c, n)]) in *.
  apply Forall_app in Hok. destruct Hok as (Hok1 & HokR).
  unfold cinfo in H. apply pi_bind_ok in H. destruct H as (s & Hs & H). injection H as <-.
  rewrite idx_app, ii_fold_app in Hs. apply pi_bind_ok in Hs. destruct Hs as (s1 & Hs1 & Hs).
  destruct (after_B A c n s1 Hok1 HB Hs1) as (HL & E1). fold A1 in HL, E1.
  set (k := slen A1) in *.
  replace (0 + k) with (k + 0) in Hs by lia.
  rewrite idx_shift, E1, (fold_shift e ds true d k _ _ _ HL) in Hs.
  destruct (ii_fold e ds true d st0 (idx 0 R)) as [sR|site] eqn:ER; [|discriminate Hs].
  cbn [rmap] in Hs. injection Hs as <-.
  exists (finalize true s1 k), (finalize true sR (slen R)).
  split; [unfold cinfo; rewrite Hs1; reflexivity|].
  split; [unfold cinfo; rewrite ER; reflexivity|].
  assert (Hst : ii_para_start s1 = k) by (rewrite E1; cbn [shift_st ii_para_start st0]; lia).
  unfold finalize.
  cbn [in_classes in_paras in_flags shift_st ii_classes ii_paras ii_flags ii_para_start
       ii_para_level ii_pure ii_iso andb].
  rewrite Hst, Nat.ltb_irrefl, slen_app. fold k.
  split; [reflexivity|].
  assert (Hlt : (k + ii_para_start sR <? k + slen R) = (ii_para_start sR <? slen R)).
  { destruct (Nat.ltb_spec (ii_para_start sR) (slen R)) as [Hc|Hc];
      [apply Nat.ltb_lt | apply Nat.ltb_ge]; lia. }
  rewrite Hlt. destruct (ii_para_start sR <? slen R).
  - split; [|split; [|exact HL]].
    + rewrite map_app, <- app_assoc. reflexivity.
    + rewrite <- app_assoc. reflexivity.
  - split; [reflexivity|]. split; [reflexivity | exact HL].
Qed.

Lemma onepara_noB l : l <> [] -> noB l -> onepara l.
Proof.
  intros Hne H. split; [exact Hne|]. exists l, []. rewrite app_nil_r.
  split; [reflexivity|]. split; [exact H | left; reflexivity].
Qed.

Lemma onepara_B A c n : noB A -> ds_class ds c = B -> onepara (A ++ [(c, n)]).
Proof.
  intros HA HB. split; [destruct A; discriminate|]. exists A, [(c, n)].
  split; [reflexivity|]. split; [exact HA|]. right. exists c, n. split; [reflexivity | exact HB].
Qed.

Lemma cons_app_snoc {A} (l : list A) x r : l ++ x :: r = (l ++ [x]) ++ r.
Proof. rewrite <- app_assoc. reflexivity. Qed.

Lemma paras_nonempty l ii : lenok l -> l <> [] -> cinfo true l = Ok ii -> in_paras ii <> [].
Proof.
  intros Hok Hne H.
  destruct (first_B l) as [HN | (A & c & n & R & -> & HA & HB)].
  - destruct (single_para l ii Hok (onepara_noB l Hne HN) H) as (lv & pu & iso & E & _).
    rewrite E. discriminate.
  - rewrite cons_app_snoc in H, Hok.
    destruct (cinfo_split A c n R ii Hok HB H) as (ii1 & iiR & H1 & _ & _ & EP & _).
    apply Forall_app in Hok. destruct Hok as (Hok1 & _).
    destruct (single_para _ ii1 Hok1 (onepara_B A c n HA HB) H1) as (lv & pu & iso & E & _).
    rewrite EP, E. discriminate.
Qed.

Lemma le1_onepara l ii : lenok l -> l <> [] -> cinfo true l = Ok ii ->
  length (in_paras ii) <= 1 -> onepara l.
Proof.
  intros Hok Hne H Hle.
  destruct (first_B l) as [HN | (A & c & n & R & -> & HA & HB)].
  - exact (onepara_noB l Hne HN).
  - destruct R as [|x R]; [exact (onepara_B A c n HA HB)|].
    exfalso. rewrite cons_app_snoc in H, Hok.
    destruct (cinfo_split A c n (x :: R) ii Hok HB H) as (ii1 & iiR & H1 & HR & _ & EP & _).
    apply Forall_app in Hok. destruct Hok as (Hok1 & HokR).
    destruct (single_para _ ii1 Hok1 (onepara_B A c n HA HB) H1) as (lv & pu & iso & E & _).
    assert (HRne : in_paras iiR <> []) by (apply (paras_nonempty (x :: R)); [exact HokR | discriminate | exact HR]).
    rewrite EP, E in Hle. cbn [app length] in Hle. rewrite map_length in Hle.
    destruct (in_paras iiR); [contradiction | cbn [length] in Hle; lia].
Qed.

(* ---- every paragraph on its own ---- *)

Definition good_para (chars : list (N * nat)) (cls : list bclass) (p : para_info) (f : para_flags) : Prop :=
  exists i1 i2 iis,
    i1 <= i2 /\ i2 <= length chars /\
    p_start p = slen (firstn i1 chars) /\ p_end p = slen (firstn i2 chars) /\
    cinfo true (firstn (i2 - i1) (skipn i1 chars)) = Ok iis /\
    in_classes iis = firstn (p_end p - p_start p) (skipn (p_start p) cls) /\
    in_paras iis = [{| p_start := 0; p_end := p_end p - p_start p; p_level := p_level p |}] /\
    in_flags iis = [f].

Lemma good_para_whole l ii lv pu iso : length (in_classes ii) = slen l -> cinfo true l = Ok ii ->
  in_paras ii = [{| p_start := 0; p_end := slen l; p_level := lv |}] ->
  in_flags ii = [{| f_pure_ltr := pu; f_has_isolate := iso |}] ->
  forall R clsR,
  good_para (l ++ R) (in_classes ii ++ clsR) {| p_start := 0; p_end := slen l; p_level := lv |}
            {| f_pure_ltr := pu; f_has_isolate := iso |}.
Proof.
  intros HL H EP EF R clsR. exists 0, (length l), ii.
  cbn [p_start p_end p_level firstn skipn]. rewrite !Nat.sub_0_r.
  rewrite firstn_app, Nat.sub_diag, firstn_all. cbn [firstn]. rewrite app_nil_r.
  split; [lia|]. split; [rewrite app_length; lia|]. split; [reflexivity|]. split; [reflexivity|].
  split; [exact H|]. split; [|split; [exact EP | exact EF]].
  rewrite <- HL, firstn_app, Nat.sub_diag, firstn_all. cbn [firstn]. rewrite app_nil_r. reflexivity.
Qed.

Lemma good_para_shift A1 cls1 R clsR p f : length cls1 = slen A1 ->
  good_para R clsR p f -> good_para (A1 ++ R) (cls1 ++ clsR) (shiftp (slen A1) p) f.
Proof.
  intros HL (i1 & i2 & iis & H1 & H2 & Hs & He & Hc & Ecl & EP & EF).
  exists (length A1 + i1), (length A1 + i2), iis.
  cbn [shiftp p_start p_end p_level].
  replace (length A1 + i2 - (length A1 + i1)) with (i2 - i1) by lia.
  replace (slen A1 + p_end p - (slen A1 + p_start p)) with (p_end p - p_start p) by lia.
  rewrite !firstn_app_2, !slen_app, skipn_app, skipn_all2 by lia.
  replace (length A1 + i1 - length A1) with i1 by lia. cbn [app].
  split; [lia|]. split; [rewrite app_length; lia|]. split; [lia|]. split; [lia|].
  split; [exact Hc|]. split; [|split; [exact EP | exact EF]].
  rewrite skipn_app, (skipn_all2 cls1) by lia. rewrite Ecl.
  replace (slen A1 + p_start p - length cls1) with (p_start p) by lia. reflexivity.
Qed.

Lemma para_indep_chars : forall m l ii, length l <= m -> lenok l -> cinfo true l = Ok ii ->
  Forall2 (good_para l (in_classes ii)) (in_paras ii) (in_flags ii).
Proof.
  induction m as [|m IH]; intros l ii Hm Hok H.
  - destruct l; [|cbn [length] in Hm; lia].
    unfold cinfo in H. cbn [idx map positions ii_fold bind] in H. injection H as <-.
    cbn [finalize in_paras in_flags st0 ii_para_start andb]. rewrite slen_nil. cbn [Nat.ltb Nat.leb].
    constructor.
  - destruct l as [|x l0]; [apply (IH []); [cbn [length]; lia | exact Hok | exact H]|].
    remember (x :: l0) as l eqn:El.
    assert (Hne : l <> []) by (rewrite El; discriminate).
    destruct (first_B l) as [HN | (A & c & n & R & E & HA & HB)].
    + destruct (single_para l ii Hok (onepara_noB l Hne HN) H) as (lv & pu & iso & EP & EF & HL & _).
      rewrite EP, EF. constructor; [|constructor].
      pose proof (good_para_whole l ii lv pu iso HL H EP EF [] []) as G.
      rewrite !app_nil_r in G. exact G.
    + rewrite cons_app_snoc in E. rewrite E in H, Hok |- *.
      destruct (cinfo_split A c n R ii Hok HB H) as (ii1 & iiR & H1 & HR & EC & EP & EF & HL).
      apply Forall_app in Hok. destruct Hok as (Hok1 & HokR).
      destruct (single_para _ ii1 Hok1 (onepara_B A c n HA HB) H1) as (lv & pu & iso & EP1 & EF1 & _ & _).
      rewrite EC, EP, EF, EP1, EF1. cbn [app]. constructor.
      * exact (good_para_whole _ ii1 lv pu iso HL H1 EP1 EF1 R (in_classes iiR)).
      * assert (HmR : length R <= m).
        { apply (f_equal (@length _)) in E.
          rewrite !app_length in E. cbn [length] in E, Hm. lia. }
        pose proof (IH R iiR HmR HokR HR) as G.
        clear - G HL. induction G as [|p f ps fs Gp _ IHG]; cbn [map]; constructor.
        -- exact (good_para_shift _ _ _ _ p f HL Gp).
        -- exact IHG.
Qed.

End Info.

(* ================================================================== *)
(* 3. texts: sub-ranges *)

Lemma t_subrange_site s1 s2 e t a b x : t_subrange s1 e t a b = Ok x -> t_subrange s2 e t a b = Ok x.
Proof.
  destruct e; cbn [t_subrange]; unfold slice.
  - destruct (a <=? b); [|discriminate]. destruct (drop_units8 t a) as [t1|]; [|discriminate].
    destruct (take_units8 t1 (b - a)); [exact (fun H => H) | discriminate].
  - destruct ((a <=? b) && (b <=? length t)); [exact (fun H => H) | discriminate].
  - destruct ((a <=? b) && (b <=? length t)); [exact (fun H => H) | discriminate].
Qed.

Lemma slice_whole {A} site (l : list A) n : n = length l -> slice site l 0 n = Ok l.
Proof.
  intros ->. unfold slice. cbn [Nat.leb andb]. rewrite Nat.leb_refl, Nat.sub_0_r.
  cbn [skipn]. rewrite firstn_all. reflexivity.
Qed.

Lemma t_subrange_whole site e t n : n = t_len e t -> t_subrange site e t 0 n = Ok t.
Proof.
  intros ->. destruct e; cbn [t_subrange t_len].
  - cbn [Nat.leb]. rewrite Nat.sub_0_r.
    assert (E0 : drop_units8 t 0 = Some t) by (destruct t; reflexivity).
    rewrite E0. pose proof (take_units8_app t []) as E. rewrite app_nil_r in E. rewrite E. reflexivity.
  - apply slice_whole. reflexivity.
  - apply slice_whole. reflexivity.
Qed.

Lemma Forall_mid {A} (P : A -> Prop) (l : list A) i j : i <= j -> Forall P l ->
  Forall P (firstn (j - i) (skipn i l)).
Proof.
  intros H HF. rewrite (split_mid l i j H) in HF.
  apply Forall_app in HF. destruct HF as (_ & HF).
  apply Forall_app in HF. destruct HF as (HF & _). exact HF.
Qed.

(* ================================================================== *)
(* 4. the constructors *)

Section Text.
Variable e : enc.
Variable ds : datasource.
Variable d : option nat.
Variable text : list N.
Hypothesis Hv : valid_text e text.
Hypothesis Hfsi : fsi_proviso e ds (view_of e text).
Hypothesis Hd : dir3 d.
Hypothesis HT : C07_C08_constructors.

Definition text_good (cls : list bclass) (p : para_info) (f : para_flags) : Prop :=
  exists sub iis,
    t_subrange 4 e text (p_start p) (p_end p) = Ok sub /\
    valid_text e sub /\ fsi_proviso e ds (view_of e sub) /\
    compute_initial_info e ds sub d true = Ok iis /\
    in_classes iis = firstn (p_end p - p_start p) (skipn (p_start p) cls) /\
    in_paras iis = [{| p_start := 0; p_end := p_end p - p_start p; p_level := p_level p |}] /\
    in_flags iis = [f] /\
    t_len e sub = p_end p - p_start p.

Lemma good_to_text cls p f : good_para e ds d (view_of e text) cls p f -> text_good cls p f.
Proof.
  intros (i1 & i2 & iis & H1 & H2 & Hs & He & Hc & Ecl & EP & EF).
  destruct (subrange_view_proved 4 e text i1 i2 Hv H1 H2) as (sub & Hsub & Hview & Hvs).
  cbv zeta in Hsub. rewrite !total_firstn_slen, <- Hs, <- He in Hsub.
  exists sub, iis.
  split; [exact Hsub|]. split; [exact Hvs|].
  split; [unfold fsi_proviso in *; rewrite Hview; apply Forall_mid; [exact H1 | exact Hfsi]|].
  pose proof (view_of_proved e sub Hvs) as TV.
  split; [rewrite (cinfo_view e ds d true sub _ TV), Hview; exact Hc|].
  split; [exact Ecl|]. split; [exact EP|]. split; [exact EF|].
  destruct TV as (_ & _ & _ & V4 & _). rewrite V4, total_slen, Hview.
  pose proof (slen_firstn_split (view_of e text) i1 i2 H1) as E. lia.
Qed.

Definition para_ok (cls : list bclass) (levels : list nat) (p : para_info) : Prop :=
  exists sub sb,
    t_subrange 4 e text (p_start p) (p_end p) = Ok sub /\
    bidi_info_new e ds sub d = Ok sb /\
    bi_classes sb = firstn (p_end p - p_start p) (skipn (p_start p) cls) /\
    bi_levels sb = firstn (p_end p - p_start p) (skipn (p_start p) levels) /\
    bi_paras sb = [{| p_start := 0; p_end := p_end p - p_start p; p_level := p_level p |}].

Lemma one_para cls p f ptext poc pl : text_good cls p f ->
  t_subrange 509 e text (p_start p) (p_end p) = Ok ptext ->
  slice 510 cls (p_start p) (p_end p) = Ok poc ->
  compute_bidi_info_for_para_gen e ds false (p_level p) (f_pure_ltr f) (f_has_isolate f) ptext poc = Ok pl ->
  length pl = p_end p - p_start p /\
  exists sub sb,
    t_subrange 4 e text (p_start p) (p_end p) = Ok sub /\
    bidi_info_new e ds sub d = Ok sb /\
    bi_classes sb = firstn (p_end p - p_start p) (skipn (p_start p) cls) /\
    bi_levels sb = pl /\
    bi_paras sb = [{| p_start := 0; p_end := p_end p - p_start p; p_level := p_level p |}].
Proof.
  intros (sub & iis & Hsub & Hvs & Hfs & Hii & Ecl & EP & EF & Hlen) Hpt Hpoc Hpl.
  rewrite (t_subrange_site 4 509 _ _ _ _ _ Hsub) in Hpt. injection Hpt as <-.
  assert (Epoc : poc = in_classes iis).
  { unfold slice in Hpoc. destruct ((p_start p <=? p_end p) && (p_end p <=? length cls)); [|discriminate].
    injection Hpoc as <-. symmetry. exact Ecl. }
  subst poc.
  destruct (HT e ds sub d Hvs Hfs Hd) as ((b' & Hb' & Hl1 & Hl2 & _) & _).
  assert (TL : total (map snd (view_of e sub)) = p_end p - p_start p).
  { destruct (view_of_proved e sub Hvs) as (_ & _ & _ & V4 & _). rewrite <- V4. exact Hlen. }
  rewrite TL in Hl1, Hl2.
  pose proof Hb' as Hb0.
  unfold bidi_info_new, bidi_info_new_gen in Hb'. rewrite Hii in Hb'. cbn [bind] in Hb'.
  rewrite EP, EF in Hb'. cbn [bidi_paras length Nat.eqb bind p_start p_end p_level] in Hb'.
  rewrite (t_subrange_whole 509 e sub _ (eq_sym Hlen)) in Hb'. cbn [bind] in Hb'.
  destruct (slice 510 (in_classes iis) 0 (p_end p - p_start p)) as [poc|site] eqn:Es;
    [|discriminate Hb'].
  cbn [bind] in Hb'.
  assert (Epoc : poc = in_classes iis).
  { destruct (compute_bidi_info_for_para_gen e ds false (p_level p) (f_pure_ltr f) (f_has_isolate f) sub poc)
      as [x|site] eqn:Ex; [|discriminate Hb'].
    cbn [bind app] in Hb'. injection Hb' as <-. cbn [bi_classes bi_levels] in Hl1, Hl2.
    rewrite (slice_whole 510 (in_classes iis) _ (eq_sym Hl2)) in Es. injection Es as <-. reflexivity. }
  subst poc. rewrite Hpl in Hb'. cbn [bind app] in Hb'.
  injection Hb' as <-. cbn [bi_levels] in Hl1.
  split; [exact Hl1|].
  exists sub. eexists. split; [exact Hsub|]. split; [exact Hb0|].
  cbn [bi_classes bi_levels bi_paras]. split; [exact Ecl|]. split; reflexivity.
Qed.

Lemma bidi_paras_indep cls : forall paras flags acc levels,
  Forall2 (text_good cls) paras flags ->
  bidi_paras e ds false text cls paras flags acc = Ok levels ->
  firstn (length acc) levels = acc /\ Forall (para_ok cls levels) paras.
Proof.
  induction paras as [|p ps IH]; intros flags acc levels HG H.
  - cbn [bidi_paras] in H. injection H as <-. split; [apply firstn_all | constructor].
  - inversion HG as [|? f ? fs Gp Gs]; subst.
    cbn [bidi_paras] in H.
    apply pi_bind_ok in H. destruct H as (u & Hchk & H).
    destruct (Nat.eqb_spec (length acc) (p_start p)) as [Hacc|]; [|discriminate Hchk]. clear Hchk u.
    apply pi_bind_ok in H. destruct H as (ptext & Hpt & H).
    apply pi_bind_ok in H. destruct H as (poc & Hpoc & H).
    apply pi_bind_ok in H. destruct H as (pl & Hpl & H).
    destruct (IH fs (acc ++ pl) levels Gs H) as (Hfirst & Hrest).
    destruct (one_para cls p f ptext poc pl Gp Hpt Hpoc Hpl) as (Hlen & sub & sb & A1 & A2 & A3 & A4 & A5).
    assert (EL : levels = acc ++ pl ++ skipn (length (acc ++ pl)) levels).
    { rewrite app_assoc, <- Hfirst at 1. symmetry. apply firstn_skipn. }
    set (X := skipn (length (acc ++ pl)) levels) in EL.
    split.
    + rewrite EL, firstn_app, Nat.sub_diag, firstn_all. cbn [firstn]. apply app_nil_r.
    + constructor; [|exact Hrest].
      exists sub, sb. split; [exact A1|]. split; [exact A2|]. split; [exact A3|]. split; [|exact A5].
      rewrite A4, <- Hlen, EL, <- Hacc, skipn_app, skipn_all, Nat.sub_diag. cbn [skipn app].
      rewrite firstn_app, Nat.sub_diag, firstn_all. cbn [firstn]. symmetry. apply app_nil_r.
Qed.

Lemma lenok_view : lenok e (view_of e text).
Proof. destruct (view_of_proved e text Hv) as (_ & _ & _ & _ & V5). exact V5. Qed.

Lemma c10_main b : bidi_info_new e ds text d = Ok b ->
  Forall (para_ok (bi_classes b) (bi_levels b)) (bi_paras b) /\
  (length (bi_paras b) <= 1 ->
   exists pb,
     para_bidi_info_new e ds text d = Ok pb /\
     pb_classes pb = bi_classes b /\ pb_levels pb = bi_levels b /\
     match bi_paras b with [q] => pb_level pb = p_level q | _ => True end).
Proof.
  intros Hb.
  pose proof (view_of_proved e text Hv) as TV.
  pose proof lenok_view as Hok.
  unfold bidi_info_new, bidi_info_new_gen in Hb.
  apply pi_bind_ok in Hb. destruct Hb as (ii & Hii & Hb).
  apply pi_bind_ok in Hb. destruct Hb as (levels & Hlev & Hb). injection Hb as <-.
  cbn [bi_classes bi_levels bi_paras].
  rewrite (cinfo_view e ds d true text _ TV) in Hii.
  split.
  - pose proof (para_indep_chars e ds d _ _ ii (le_n _) Hok Hii) as G.
    assert (G' : Forall2 (text_good (in_classes ii)) (in_paras ii) (in_flags ii)).
    { clear - G Hv Hfsi. induction G; constructor; [apply good_to_text; assumption | assumption]. }
    exact (proj2 (bidi_paras_indep _ _ _ _ _ G' Hlev)).
  - intros Hle.
    pose proof (HT e ds text d Hv Hfsi Hd) as HTot. cbv zeta in HTot.
    destruct (view_of e text) as [|x chars0] eqn:Echars.
    + (* the empty text *)
      destruct HTot as ((b' & Hb' & Hl1 & Hl2 & _) & (pb & Hpb & Hq1 & Hq2 & _)).
      cbn [map] in Hl1, Hl2, Hq1, Hq2.
      change (total []) with 0 in Hl1, Hl2, Hq1, Hq2.
      unfold bidi_info_new, bidi_info_new_gen in Hb'.
      rewrite (cinfo_view e ds d true text _ TV), Hii in Hb'. cbn [bind] in Hb'.
      rewrite Hlev in Hb'. cbn [bind] in Hb'. injection Hb' as <-.
      cbn [bi_classes bi_levels] in Hl1, Hl2.
      exists pb. split; [exact Hpb|].
      apply length_zero_iff_nil in Hl1, Hl2, Hq1, Hq2. rewrite Hl1, Hl2, Hq1, Hq2.
      split; [reflexivity|]. split; [reflexivity|].
      unfold cinfo in Hii. cbn [idx map positions ii_fold bind] in Hii. injection Hii as <-.
      cbn [finalize in_paras st0 ii_para_start andb]. rewrite slen_nil. cbn [Nat.ltb Nat.leb ii_paras].
      exact I.
    + assert (Hne : x :: chars0 <> []) by discriminate.
      remember (x :: chars0) as chars eqn:Ec. clear Ec x chars0.
      pose proof (le1_onepara e ds d chars ii Hok Hne Hii Hle) as H1p.
      destruct (single_para e ds d chars ii Hok H1p Hii) as (lv & pu & iso & EP & EF & HL & Hfalse).
      rewrite EP, EF in Hlev. cbn [bidi_paras length Nat.eqb bind p_start p_end p_level] in Hlev.
      assert (Elen : slen chars = t_len e text).
      { destruct TV as (_ & _ & _ & V4 & _). rewrite V4. symmetry. apply total_slen. }
      rewrite (t_subrange_whole 509 e text _ Elen) in Hlev. cbn [bind] in Hlev.
      rewrite (slice_whole 510 (in_classes ii) _ (eq_sym HL)) in Hlev. cbn [bind] in Hlev.
      cbn [f_pure_ltr f_has_isolate] in Hlev.
      apply pi_bind_ok in Hlev. destruct Hlev as (pl & Hpl & Hlev).
      cbn [app] in Hlev. injection Hlev as <-.
      unfold para_bidi_info_new, para_bidi_info_new_gen.
      rewrite (cinfo_view e ds d false text _ TV), Hfalse. cbn [bind in_level in_pure in_iso in_classes].
      rewrite Hpl. cbn [bind]. eexists. split; [reflexivity|].
      cbn [pb_classes pb_levels pb_level]. rewrite EP. repeat split; reflexivity.
Qed.

End Text.

Theorem c10_assembly : C07_C08_constructors -> C10_statement.
Proof.
  intros HT e ds text d b Hv Hfsi Hd Hb.
  exact (c10_main e ds d text Hv Hfsi Hd HT b Hb).
Qed.
