(* Proofs/LLLevels.v — LENGTH INDEPENDENCE of the line-level L1 API:
   reordered_levels / reordered_levels_per_char on a text in any encoding, on a line made of whole
   characters i..j-1, is the per-unit expansion (resp. the per-character value) of
   [firstn i lv ++ Spec.l1 pl (sub cls i j) (sub lv i j) ++ skipn j lv]; the ghost encoding U32
   (one unit per character) computes exactly that character-level vector.

   Route:
   1. [reorder_levels_expand]: the L1 routine on expansions (from Proofs/L1.v: l1_fold_grouped, l1_lru_l1).
   2. [reordered_levels_gen]: slices of expansions on character boundaries are expansions of slices,
      the sub-text is the text of the line's characters (TextView), re-assembly with prefix/suffix.
   3. [sample_starts]: sampling an expansion at every character start gives the character vector.
   4. instance U32 (all lengths 1: expand = id, ustart = id) and the pinned statement. *)
From BidiVerif Require Import Base ConstsGen TablesGen ModelText ModelResolve ModelLine Spec Obs Judge
     Stmts Stmts2 Stmts3 Stmts4 Stmts5.
From BidiVerif.Proofs Require Import L1 TextView LIAssemble.
From Coq Require Import Lia.

(* ================================================================== *)
(* 0. Spec.l1 preserves lengths *)

Lemma l1_reset_flags_length cls : length (fst (l1_reset_flags cls)) = length cls.
Proof.
  induction cls as [|c r IH]; [reflexivity|].
  rewrite l1_reset_flags_cons. destruct (kgroup c) as [|[|[|g]]]; cbn [fst length]; rewrite IH; reflexivity.
Qed.

Lemma l1_apply_length pl : forall cls prev fl lev,
  length fl = length cls -> length lev = length cls ->
  length (l1_apply pl prev cls fl lev) = length cls.
Proof.
  induction cls as [|c cr IH]; intros prev [|f fr] [|l lr] H1 H2; cbn [length] in *; try discriminate;
    [reflexivity|].
  cbn [l1_apply length]. f_equal. apply IH; lia.
Qed.

Lemma l1_length pl cls lev : length lev = length cls -> length (Spec.l1 pl cls lev) = length cls.
Proof.
  intros H. unfold Spec.l1. apply l1_apply_length; [apply l1_reset_flags_length | exact H].
Qed.

(* ================================================================== *)
(* 1. the L1 routine on expansions *)

Lemma reorder_levels_expand e line_text chars cls lev pl :
  line_view e line_text chars ->
  length cls = length chars -> length lev = length chars ->
  reorder_levels e false (expand (map snd chars) cls) (expand (map snd chars) lev) line_text pl
  = Ok (expand (map snd chars) (Spec.l1 pl cls lev)).
Proof.
  intros [Hidx Hch] Hcls Hlev.
  set (lens := map snd chars) in *.
  assert (Hlens : length lens = length cls).
  { unfold lens. rewrite map_length. symmetry. exact Hcls. }
  assert (Hlev' : length lev = length cls) by (rewrite Hlev; symmetry; exact Hcls).
  rewrite <- (l1_lru_l1 pl lens cls lev Hlens Hlev').
  unfold reorder_levels. rewrite Hidx.
  change (bind (l1_fold e false (expand lens cls) pl
                        {| l1_from := Some 0; l1_prev := pl; l1_levels := expand lens lev |}
                        (map (fun x : nat * N * nat => (fst (fst x), snd (fst x))) (positions 0 chars)))
               (l1_finish pl)
          = Ok ([] ++ l1_lru pl pl [] lens cls lev)).
  apply (l1_fold_grouped e pl chars cls lev (expand lens cls) (expand lens lev) [] [] [] (Some 0) pl 0).
  - exact Hch.
  - exact Hcls.
  - exact Hlev.
  - reflexivity.
  - reflexivity.
  - reflexivity.
  - reflexivity.
  - left. reflexivity.
Qed.

(* ================================================================== *)
(* 2. list algebra for [sub] *)

Lemma sub_length {A} (l : list A) i j : i <= j -> j <= length l -> length (sub l i j) = j - i.
Proof. intros H1 H2. unfold sub. rewrite firstn_length, skipn_length. lia. Qed.

Lemma sub_map {A B} (f : A -> B) (l : list A) i j : sub (map f l) i j = map f (sub l i j).
Proof. unfold sub. rewrite skipn_map, firstn_map. reflexivity. Qed.

Lemma split_sub {A} (l : list A) i j : i <= j -> l = firstn i l ++ sub l i j ++ skipn j l.
Proof. intros H. unfold sub. apply split_mid. exact H. Qed.

(* the line-level result at character level *)
Definition lline (pl : nat) (cls : list bclass) (lv : list nat) (i j : nat) : list nat :=
  firstn i lv ++ Spec.l1 pl (sub cls i j) (sub lv i j) ++ skipn j lv.

Lemma lline_length pl cls lv i j k :
  length cls = k -> length lv = k -> i <= j -> j <= k -> length (lline pl cls lv i j) = k.
Proof.
  intros Hc Hl Hij Hj. unfold lline.
  rewrite !app_length, l1_length, firstn_length, skipn_length, !sub_length by (rewrite ?sub_length; lia).
  lia.
Qed.

(* re-assembling the expansion of the three parts *)
Lemma expand_lline lens pl cls lv i j :
  length cls = length lens -> length lv = length lens -> i <= j -> j <= length lens ->
  firstn (ustart lens i) (expand lens lv)
  ++ expand (sub lens i j) (Spec.l1 pl (sub cls i j) (sub lv i j))
  ++ skipn (ustart lens j) (expand lens lv)
  = expand lens (lline pl cls lv i j).
Proof.
  intros Hc Hl Hij Hj. unfold lline.
  rewrite la_expand_firstn, la_expand_skipn by lia.
  rewrite (split_sub lens i j Hij) at 4.
  rewrite la_expand_app.
  2:{ rewrite !firstn_length. lia. }
  rewrite la_expand_app.
  2:{ rewrite l1_length, !sub_length by (rewrite ?sub_length; lia). reflexivity. }
  reflexivity.
Qed.

(* ================================================================== *)
(* 3. reordered_levels on expansions *)

Section Gen.
Variable e : enc.
Variable text : list N.
Hypothesis Hvalid : valid_text e text.
Let chars := view_of e text.
Let lens := map snd chars.
Let k := length chars.

Lemma lens_pos_view : Forall (fun ch : N * nat => snd ch = char_len e (fst ch) /\ 0 < snd ch) chars.
Proof. destruct (view_of_proved e text Hvalid) as (_ & _ & _ & _ & H). exact H. Qed.

Lemma reordered_levels_gen cls lv pl i j :
  length cls = k -> length lv = k -> i <= j -> j <= k ->
  reordered_levels e false text (expand lens cls) (expand lens lv) pl (ustart lens i, ustart lens j)
  = Ok (expand lens (lline pl cls lv i j)).
Proof.
  intros Hc Hl Hij Hj.
  assert (Hk : length lens = k) by (unfold lens; apply map_length).
  unfold reordered_levels.
  (* the bounds check *)
  assert (Hlen : length (expand lens lv) = total lens).
  { apply la_expand_length. lia. }
  assert (Hb : negb ((ustart lens i <=? length (expand lens lv)) && (ustart lens j <=? length (expand lens lv)))
               = false).
  { rewrite Hlen.
    pose proof (la_ustart_le_total lens i) as H1. pose proof (la_ustart_le_total lens j) as H2.
    apply Nat.leb_le in H1. apply Nat.leb_le in H2. rewrite H1, H2. reflexivity. }
  rewrite Hb.
  (* the two slices *)
  rewrite (la_slice_expand 551 lens cls i j) by lia.
  rewrite (la_slice_expand 552 lens lv i j) by lia.
  cbn [bind].
  (* the sub-text *)
  destruct (subrange_view_proved 557 e text i j Hvalid Hij Hj) as (subt & Hsub & Hview & Hvs).
  cbv zeta in Hsub. fold chars in Hsub, Hview. fold lens in Hsub.
  unfold ustart. rewrite Hsub. cbn [bind].
  fold (sub lens i j) (sub cls i j) (sub lv i j).
  (* the L1 routine *)
  assert (Hlv : line_view e subt (sub chars i j)).
  { destruct (view_of_proved e subt Hvs) as (H1 & _ & _ & _ & H5).
    unfold sub. rewrite <- Hview. split; assumption. }
  assert (Hsl : sub lens i j = map snd (sub chars i j)) by (unfold lens; apply sub_map).
  rewrite Hsl.
  rewrite (reorder_levels_expand e subt (sub chars i j) (sub cls i j) (sub lv i j) pl Hlv).
  2:{ rewrite !sub_length; [reflexivity | lia | fold k; lia | lia | lia]. }
  2:{ rewrite !sub_length; [reflexivity | lia | fold k; lia | lia | lia]. }
  cbn [bind]. f_equal. rewrite <- Hsl.
  fold (ustart lens i) (ustart lens j).
  apply expand_lline; lia.
Qed.

(* ---- sampling at character starts ---- *)
Lemma sample_starts site : forall (ch : list (N * nat)) (w pre : list nat),
  Forall (fun c : N * nat => 0 < snd c) ch -> length w = length ch ->
  map_res (fun ic : nat * N => get site (pre ++ expand (map snd ch) w) (fst ic))
          (map (fun x : nat * N * nat => (fst (fst x), snd (fst x))) (positions (length pre) ch))
  = Ok w.
Proof.
  induction ch as [|[c l] r IH]; intros [|x w] pre HF Hw; cbn [length] in Hw; try discriminate.
  - reflexivity.
  - inversion HF as [|a b Hl HF']; subst a b. cbn [snd] in Hl.
    cbn [map positions map_res fst snd].
    rewrite la_expand_cons.
    assert (Hg : get site (pre ++ repeat x l ++ expand (map snd r) w) (length pre) = Ok x).
    { destruct l as [|l']; [lia|].
      apply (get_app_cons site _ pre (repeat x l' ++ expand (map snd r) w)); reflexivity. }
    rewrite Hg. cbn [bind].
    replace (length pre + l) with (length (pre ++ repeat x l))
      by (rewrite app_length, repeat_length; reflexivity).
    rewrite (app_assoc pre (repeat x l)).
    rewrite (IH w (pre ++ repeat x l) HF') by lia.
    reflexivity.
Qed.

Lemma per_char_gen cls lv pl i j :
  length cls = k -> length lv = k -> i <= j -> j <= k ->
  reordered_levels_per_char e false text (expand lens cls) (expand lens lv) pl (ustart lens i, ustart lens j)
  = Ok (lline pl cls lv i j).
Proof.
  intros Hc Hl Hij Hj. unfold reordered_levels_per_char.
  rewrite (reordered_levels_gen cls lv pl i j Hc Hl Hij Hj). cbn [bind].
  destruct (view_of_proved e text Hvalid) as (Hidx & _ & _ & _ & Hch). fold chars in Hidx, Hch.
  rewrite Hidx.
  apply (sample_starts 584 chars (lline pl cls lv i j) []).
  - clear -Hch. induction Hch as [|ch r [_ H] _ IH]; constructor; assumption.
  - apply (lline_length pl cls lv i j k); assumption.
Qed.

End Gen.

(* ================================================================== *)
(* 4. the ghost encoding: all lengths are 1 *)

Lemma expand_ones {A} : forall (lens : list nat) (v : list A),
  Forall (fun n => n = 1) lens -> length v = length lens -> expand lens v = v.
Proof.
  induction lens as [|l lens IH]; intros [|x v] HF Hv; cbn [length] in Hv; try discriminate; [reflexivity|].
  inversion HF as [|a b Hl HF']; subst a b. subst l.
  rewrite la_expand_cons. cbn [repeat app]. f_equal. apply IH; [exact HF' | lia].
Qed.

Lemma ustart_ones : forall (lens : list nat) i,
  Forall (fun n => n = 1) lens -> i <= length lens -> ustart lens i = i.
Proof.
  induction lens as [|l lens IH]; intros [|i] HF Hi; cbn [length] in Hi; try reflexivity; [lia|].
  inversion HF as [|a b Hl HF']; subst a b. subst l.
  rewrite la_ustart_S, IH by (assumption || lia). reflexivity.
Qed.

Lemma lens32_ones (t : list N) : Forall (fun n => n = 1) (map snd (view_of U32 t)).
Proof.
  cbn [view_of]. rewrite map_map. cbn [snd]. induction t as [|c r IH]; cbn [map]; constructor; [reflexivity|exact IH].
Qed.

Lemma lens32_length (t : list N) : length (map snd (view_of U32 t)) = length t.
Proof. cbn [view_of]. rewrite !map_length. reflexivity. Qed.

(* the character-level API (this is CL_reordered_levels) *)
Lemma cl_reordered_levels : CL_reordered_levels.
Proof.
  intros cps cls lv pl i j Hc Hl Hij Hj.
  pose proof (lens32_ones cps) as H1. pose proof (lens32_length cps) as Hlen.
  assert (Hk : length (view_of U32 cps) = length cps) by (cbn [view_of]; apply map_length).
  pose proof (reordered_levels_gen U32 cps I cls lv pl i j) as G.
  pose proof (per_char_gen U32 cps I cls lv pl i j) as P.
  rewrite Hk in G, P. specialize (G Hc Hl Hij Hj). specialize (P Hc Hl Hij Hj).
  assert (HL : length (lline pl cls lv i j) = length cps) by (apply lline_length; assumption).
  rewrite !ustart_ones in G, P by (try exact H1; rewrite ?Hlen; lia).
  rewrite (expand_ones _ cls), (expand_ones _ lv) in G, P by (try exact H1; rewrite ?Hlen; assumption).
  rewrite (expand_ones _ (lline pl cls lv i j)) in G by (try exact H1; rewrite ?Hlen; assumption).
  split; [exact G | exact P].
Qed.

(* ================================================================== *)
(* 5. the pinned statement *)

Lemma ll_reordered_levels_proved : LL_reordered_levels.
Proof.
  intros e text Hvalid cls lv pl i j out' Hc Hl Hij Hj H32.
  set (chars := view_of e text) in *.
  assert (Hcps : length (map fst chars) = length chars) by apply map_length.
  destruct (cl_reordered_levels (map fst chars) cls lv pl i j) as [C _]; try (rewrite Hcps; assumption); try assumption.
  rewrite C in H32. injection H32 as <-.
  split.
  - apply (reordered_levels_gen e text Hvalid cls lv pl i j); assumption.
  - apply (per_char_gen e text Hvalid cls lv pl i j); assumption.
Qed.
