(* Proofs/CSFlags.v — CS_flags: the two flags of compute_initial_info at character level (U32).
   The flags do not depend on the class vector or the isolate stack (which can only cause a panic),
   so the scanner is compared directly with a fold over the classes. *)
From BidiVerif Require Import Base ConstsGen TablesGen ModelText ModelResolve ModelLine Spec Obs Judge StageRel
     Stmts Stmts2 Stmts3 Stmts4 Stmts5 Stmts6.
From Coq Require Import Lia PeanoNat.

Lemma csf_bind_ok {A B} (r : res A) (f : A -> res B) y :
  bind r f = Ok y -> exists x, r = Ok x /\ f x = Ok y.
Proof. destruct r as [a|s]; cbn [bind]; intros H; [exists a; auto | discriminate]. Qed.

Definition flags_of (p : list bclass) : para_flags :=
  {| f_pure_ltr := forallb pure_ltr_class p; f_has_isolate := existsb is_isolate_init p |}.

Section Flags.
Variable ds : datasource.
Variable split : bool.
Variable dl : option nat.

(* one step of the scanner, seen through the flags only *)
Lemma csf_step st i c st' :
  ii_step U32 ds split dl st (i, c) = Ok st' ->
  let k := ds_class ds c in
  if (k =c B) && split
  then ii_pure st' = true /\ ii_iso st' = false /\
       ii_flags st' = ii_flags st ++ [{| f_pure_ltr := ii_pure st; f_has_isolate := ii_iso st |}] /\
       ii_para_start st' = i + 1
  else ii_pure st' = ii_pure st && pure_ltr_class k /\
       ii_iso st' = ii_iso st || is_isolate_init k /\
       ii_flags st' = ii_flags st /\ ii_para_start st' = ii_para_start st.
Proof.
  intros H k. unfold ii_step in H. fold k in H. cbn [char_len] in H.
  destruct k eqn:Ek; cbn [ceq bclass_beq andb];
    try (injection H as <-;
         cbn [ii_pure ii_iso ii_flags ii_para_start pure_ltr_class is_isolate_init];
         rewrite ?andb_true_r, ?andb_false_r, ?orb_false_r, ?orb_true_r; repeat split; reflexivity).
  - (* AL *)
    destruct (ii_stack st) as [|s stk].
    + injection H as <-. cbn. rewrite andb_false_r, orb_false_r. repeat split; reflexivity.
    + apply csf_bind_ok in H as (k0 & _ & H). apply csf_bind_ok in H as (cl & _ & H).
      injection H as <-. cbn. rewrite andb_false_r, orb_false_r. repeat split; reflexivity.
  - (* B *)
    destruct split; injection H as <-; cbn [ii_pure ii_iso ii_flags ii_para_start pure_ltr_class is_isolate_init].
    + repeat split; reflexivity.
    + rewrite andb_true_r, orb_false_r. repeat split; reflexivity.
  - (* L *)
    destruct (ii_stack st) as [|s stk].
    + injection H as <-. cbn. rewrite andb_true_r, orb_false_r. repeat split; reflexivity.
    + apply csf_bind_ok in H as (k0 & _ & H). apply csf_bind_ok in H as (cl & _ & H).
      injection H as <-. cbn. rewrite andb_true_r, orb_false_r. repeat split; reflexivity.
  - (* R *)
    destruct (ii_stack st) as [|s stk].
    + injection H as <-. cbn. rewrite andb_false_r, orb_false_r. repeat split; reflexivity.
    + apply csf_bind_ok in H as (k0 & _ & H). apply csf_bind_ok in H as (cl & _ & H).
      injection H as <-. cbn. rewrite andb_false_r, orb_false_r. repeat split; reflexivity.
Qed.

Lemma flags_of_snoc_B cur : flags_of (cur ++ [B]) = flags_of cur.
Proof.
  unfold flags_of. rewrite forallb_app, existsb_app. cbn. rewrite andb_true_r, orb_false_r. reflexivity.
Qed.

(* split mode *)
Lemma csf_fold_split (Hs : split = true) : forall l pos st st' cur,
  ii_fold U32 ds split dl st (combine (seq pos (length l)) l) = Ok st' ->
  ii_pure st = forallb pure_ltr_class cur -> ii_iso st = existsb is_isolate_init cur ->
  ii_para_start st + length cur = pos ->
  ii_flags st' ++ (if ii_para_start st' <? pos + length l
                   then [{| f_pure_ltr := ii_pure st'; f_has_isolate := ii_iso st' |}] else [])
  = ii_flags st ++ map flags_of (split_paragraphs_from (fun c : bclass => c) cur (map (ds_class ds) l)).
Proof.
  induction l as [|c r IH]; intros pos st st' cur H Hp Hi Hps.
  - cbn [length seq combine ii_fold] in H. injection H as <-.
    cbn [length map split_paragraphs_from]. rewrite Nat.add_0_r.
    destruct cur as [|x cur'].
    + cbn [length] in Hps. destruct (Nat.ltb_spec (ii_para_start st) pos) as [X|_]; [lia|]. reflexivity.
    + cbn [length] in Hps. destruct (Nat.ltb_spec (ii_para_start st) pos) as [_|X]; [|lia].
      cbn [map]. unfold flags_of. rewrite <- Hp, <- Hi. reflexivity.
  - cbn [length seq combine ii_fold] in H.
    apply csf_bind_ok in H as (st1 & H1 & H).
    pose proof (csf_step _ _ _ _ H1) as S1. cbv zeta in S1.
    cbn [map split_paragraphs_from length].
    replace (pos + S (length r)) with (S pos + length r) by lia.
    destruct (ds_class ds c =c B) eqn:EB.
    + rewrite Hs in S1. cbn [andb] in S1. destruct S1 as (Sp & Si & Sf & Ss).
      rewrite (IH (S pos) st1 st' [] H); [| rewrite Sp; reflexivity | rewrite Si; reflexivity
                                          | cbn [length]; lia].
      rewrite Sf. rewrite <- app_assoc. cbn [app map]. f_equal. f_equal.
      apply ceq_eq in EB. rewrite EB, flags_of_snoc_B. unfold flags_of. rewrite Hp, Hi. reflexivity.
    + cbn [andb] in S1. destruct S1 as (Sp & Si & Sf & Ss).
      rewrite (IH (S pos) st1 st' (cur ++ [ds_class ds c]) H).
      * rewrite Sf. reflexivity.
      * rewrite Sp, Hp, forallb_app. cbn [forallb]. rewrite andb_true_r. reflexivity.
      * rewrite Si, Hi, existsb_app. cbn [existsb]. rewrite orb_false_r. reflexivity.
      * rewrite app_length. cbn [length]. lia.
Qed.

(* non-split mode *)
Lemma csf_fold_whole (Hs : split = false) : forall (l : list N) (idx : list nat) st st',
  ii_fold U32 ds split dl st (combine idx l) = Ok st' ->
  ii_pure st' = ii_pure st && forallb pure_ltr_class (map (ds_class ds) (firstn (length idx) l)) /\
  ii_iso st' = ii_iso st || existsb is_isolate_init (map (ds_class ds) (firstn (length idx) l)) /\
  ii_flags st' = ii_flags st.
Proof.
  induction l as [|c r IH]; intros idx st st' H.
  - destruct idx; cbn [combine ii_fold] in H; injection H as <-;
      rewrite firstn_nil; cbn; rewrite andb_true_r, orb_false_r; auto.
  - destruct idx as [|i idx].
    + cbn [combine ii_fold] in H. injection H as <-. cbn. rewrite andb_true_r, orb_false_r. auto.
    + cbn [combine ii_fold] in H. apply csf_bind_ok in H as (st1 & H1 & H).
      pose proof (csf_step _ _ _ _ H1) as S1. cbv zeta in S1. rewrite Hs, andb_false_r in S1.
      destruct S1 as (Sp & Si & Sf & _).
      destruct (IH idx st1 st' H) as (Ip & Ii & If).
      cbn [length firstn map forallb existsb].
      rewrite Ip, Ii, If, Sp, Si, Sf, andb_assoc, orb_assoc. auto.
Qed.

End Flags.

Lemma Forall2_flags_of ps :
  Forall2 (fun (f : para_flags) (p : list bclass) =>
             f_pure_ltr f = forallb pure_ltr_class p /\ f_has_isolate f = existsb is_isolate_init p)
          (map flags_of ps) ps.
Proof. induction ps as [|p ps IH]; cbn [map]; constructor; [split; reflexivity | exact IH]. Qed.

Lemma cs_flags_proof : CS_flags.
Proof.
  intros ds cps d split ii H cls.
  unfold compute_initial_info in H. cbn [t_char_indices t_len] in H.
  apply csf_bind_ok in H as (st & Hf & H).
  split.
  - intros Hs. subst split. cbn [andb] in H.
    pose proof (csf_fold_split ds true d eq_refl cps 0 _ st [] Hf eq_refl eq_refl eq_refl) as E.
    cbn [ii_flags app Nat.add] in E.
    unfold split_paragraphs. fold cls in E. revert E H.
    destruct (ii_para_start st <? length cps); intros E H; injection H as <-; cbn [in_flags];
      rewrite ?app_nil_r in E; rewrite E; apply Forall2_flags_of.
  - intros Hs. subst split. cbn [andb] in H. injection H as <-. cbn [in_pure in_iso].
    destruct (csf_fold_whole ds false d eq_refl cps _ _ st Hf) as (Ip & Ii & _).
    rewrite seq_length, firstn_all in Ip, Ii. cbn [ii_pure ii_iso andb orb] in Ip, Ii.
    split; assumption.
Qed.
