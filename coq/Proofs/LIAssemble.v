(* Proofs/LIAssemble.v — LENGTH INDEPENDENCE: the pointwise stages (resolve_levels,
   assign_levels_to_removed_chars) outright, and the ASSEMBLY of the per-stage statements into the
   statements for one paragraph and for the two constructors. *)
From BidiVerif Require Import Base ConstsGen TablesGen ModelText ModelResolve ModelLine Spec Obs Judge
     Stmts Stmts2 Stmts3.
From BidiVerif.Proofs Require Import TextView ExplicitInv.
From Coq Require Import Lia.

(* ================================================================== *)
(* 0. the monad *)

Lemma la_bind_ok {A B} (r : res A) (f : A -> res B) (y : B) :
  bind r f = Ok y -> exists x, r = Ok x /\ f x = Ok y.
Proof. destruct r as [a|s]; cbn [bind]; intros H; [exists a; split; [reflexivity|exact H] | discriminate]. Qed.

(* ================================================================== *)
(* 1. totals, ustart, expand *)

Lemma la_fold_add_acc l : forall a, fold_left Nat.add l a = a + fold_left Nat.add l 0.
Proof.
  induction l as [|x l IH]; intros a; cbn [fold_left]; [lia|].
  rewrite (IH (a + x)), (IH (0 + x)). lia.
Qed.
Lemma la_total_nil : total [] = 0.
Proof. reflexivity. Qed.
Lemma la_total_cons x l : total (x :: l) = x + total l.
Proof. unfold total. cbn [fold_left]. rewrite la_fold_add_acc. lia. Qed.
Lemma la_total_app a b : total (a ++ b) = total a + total b.
Proof. induction a as [|x a IH]; [reflexivity|]. rewrite <- app_comm_cons, !la_total_cons, IH. lia. Qed.

Lemma la_ustart_0 lens : ustart lens 0 = 0.
Proof. reflexivity. Qed.
Lemma la_ustart_S l lens i : ustart (l :: lens) (S i) = l + ustart lens i.
Proof. unfold ustart. cbn [firstn]. apply la_total_cons. Qed.
Lemma la_ustart_all lens i : length lens <= i -> ustart lens i = total lens.
Proof. intros H. unfold ustart. rewrite firstn_all2 by exact H. reflexivity. Qed.
Lemma la_ustart_split lens a b : a <= b ->
  ustart lens b = ustart lens a + total (firstn (b - a) (skipn a lens)).
Proof.
  intros H. unfold ustart. rewrite (firstn_split lens a b H), la_total_app. reflexivity.
Qed.
Lemma la_ustart_le lens a b : a <= b -> ustart lens a <= ustart lens b.
Proof. intros H. rewrite (la_ustart_split lens a b H). lia. Qed.
Lemma la_ustart_le_total lens a : ustart lens a <= total lens.
Proof.
  unfold ustart. rewrite <- (firstn_skipn a lens) at 2. rewrite la_total_app. lia.
Qed.

Lemma la_expand_nil_l {A} (v : list A) : expand [] v = [].
Proof. reflexivity. Qed.
Lemma la_expand_nil_r {A} lens : expand lens (@nil A) = [].
Proof. destruct lens; reflexivity. Qed.
Lemma la_expand_cons {A} l lens (c : A) v : expand (l :: lens) (c :: v) = repeat c l ++ expand lens v.
Proof. reflexivity. Qed.

Lemma la_expand_app {A} (l1 : list nat) : forall (v1 : list A) l2 v2, length l1 = length v1 ->
  expand (l1 ++ l2) (v1 ++ v2) = expand l1 v1 ++ expand l2 v2.
Proof.
  induction l1 as [|l l1 IH]; intros [|c v1] l2 v2 H; cbn [length] in H; try discriminate.
  - reflexivity.
  - rewrite <- !app_comm_cons, !la_expand_cons, IH by lia. apply app_assoc.
Qed.

(* only the common prefix matters *)
Lemma la_expand_trunc_l {A} lens : forall (v : list A), expand lens v = expand (firstn (length v) lens) v.
Proof.
  induction lens as [|l lens IH]; intros [|c v]; try reflexivity.
  cbn [length firstn]. rewrite !la_expand_cons, <- IH. reflexivity.
Qed.
Lemma la_expand_trunc_r {A} lens : forall (v : list A), expand lens v = expand lens (firstn (length lens) v).
Proof.
  induction lens as [|l lens IH]; intros [|c v]; try reflexivity.
  cbn [length firstn]. rewrite !la_expand_cons, <- IH. reflexivity.
Qed.

Lemma la_expand_length {A} lens : forall (v : list A), length lens = length v ->
  length (expand lens v) = total lens.
Proof.
  induction lens as [|l lens IH]; intros [|c v] H; cbn [length] in H; try discriminate; [reflexivity|].
  rewrite la_expand_cons, app_length, repeat_length, la_total_cons, IH by lia. reflexivity.
Qed.

Lemma la_expand_length_gen {A} lens (v : list A) : length (expand lens v) = ustart lens (length v).
Proof.
  revert v. induction lens as [|l lens IH]; intros [|c v]; try reflexivity.
  cbn [length]. rewrite la_expand_cons, app_length, repeat_length, la_ustart_S, IH. reflexivity.
Qed.

Lemma la_repeat_app {A} (x : A) a b : repeat x a ++ repeat x b = repeat x (a + b).
Proof. symmetry. apply repeat_app. Qed.

Lemma la_expand_repeat {A} (x : A) lens : forall m, length lens <= m ->
  expand lens (repeat x m) = repeat x (total lens).
Proof.
  induction lens as [|l lens IH]; intros m H; [reflexivity|].
  destruct m as [|m]; cbn [length] in H; [lia|].
  cbn [repeat]. rewrite la_expand_cons, IH, la_total_cons, la_repeat_app by lia. reflexivity.
Qed.

Lemma la_expand_repeat_gen {A} (x : A) lens m : expand lens (repeat x m) = repeat x (ustart lens m).
Proof.
  revert m. induction lens as [|l lens IH]; intros m.
  - destruct m; reflexivity.
  - destruct m as [|m]; [reflexivity|].
    cbn [repeat]. rewrite la_expand_cons, IH, la_ustart_S, la_repeat_app. reflexivity.
Qed.

Lemma la_firstn_app_exact {A} (a b : list A) n : n = length a -> firstn n (a ++ b) = a.
Proof. intros ->. rewrite firstn_app, Nat.sub_diag, firstn_all. cbn [firstn]. apply app_nil_r. Qed.
Lemma la_skipn_app_exact {A} (a b : list A) n : n = length a -> skipn n (a ++ b) = b.
Proof. intros ->. rewrite skipn_app, Nat.sub_diag, skipn_all. reflexivity. Qed.

(* split an expansion at a character boundary *)
Lemma la_expand_split {A} lens (v : list A) i :
  expand lens v = expand (firstn i lens) (firstn i v) ++ expand (skipn i lens) (skipn i v).
Proof.
  revert lens v. induction i as [|i IH]; intros lens v; [reflexivity|].
  destruct lens as [|l lens]; [reflexivity|].
  destruct v as [|c v]; [cbn [firstn skipn]; rewrite !la_expand_nil_r; reflexivity|].
  cbn [firstn skipn]. rewrite !la_expand_cons, (IH lens v), app_assoc. reflexivity.
Qed.

Lemma la_expand_firstn {A} lens (v : list A) i : i <= length v ->
  firstn (ustart lens i) (expand lens v) = expand (firstn i lens) (firstn i v).
Proof.
  intros H. rewrite (la_expand_split lens v i). apply la_firstn_app_exact.
  rewrite la_expand_length_gen, firstn_length, Nat.min_l by exact H.
  unfold ustart. rewrite firstn_firstn, Nat.min_id. reflexivity.
Qed.
Lemma la_expand_skipn {A} lens (v : list A) i : i <= length v ->
  skipn (ustart lens i) (expand lens v) = expand (skipn i lens) (skipn i v).
Proof.
  intros H. rewrite (la_expand_split lens v i). apply la_skipn_app_exact.
  rewrite la_expand_length_gen, firstn_length, Nat.min_l by exact H.
  unfold ustart. rewrite firstn_firstn, Nat.min_id. reflexivity.
Qed.

Lemma la_firstn_skipn_comm {A} (l : list A) a m : firstn m (skipn a l) = skipn a (firstn (a + m) l).
Proof.
  revert l. induction a as [|a IH]; intros l; [reflexivity|].
  destruct l as [|x l]; [rewrite !firstn_nil; reflexivity|]. cbn [Nat.add firstn skipn]. apply IH.
Qed.

(* `&v[a..b]` on character boundaries *)
Lemma la_slice_expand {A} site lens (v : list A) a b :
  a <= b -> b <= length v -> b <= length lens ->
  slice site (expand lens v) (ustart lens a) (ustart lens b) =
    Ok (expand (firstn (b - a) (skipn a lens)) (firstn (b - a) (skipn a v))).
Proof.
  intros Hab Hbv Hbl. unfold slice.
  assert (H1 : ustart lens a <= ustart lens b) by (apply la_ustart_le; exact Hab).
  assert (H2 : ustart lens b <= length (expand lens v)).
  { rewrite la_expand_length_gen. apply la_ustart_le. exact Hbv. }
  apply Nat.leb_le in H1 as E1. apply Nat.leb_le in H2 as E2. rewrite E1, E2. cbn [andb]. f_equal.
  rewrite la_expand_skipn by lia.
  rewrite (la_ustart_split lens a b Hab).
  replace (ustart lens a + total (firstn (b - a) (skipn a lens)) - ustart lens a)
    with (ustart (skipn a lens) (b - a)) by (unfold ustart; lia).
  apply la_expand_firstn. rewrite skipn_length. lia.
Qed.

(* ================================================================== *)
(* 2. LI_levels *)

Definition rl1 (c : bclass) (l : nat) : res nat :=
  match is_rtl l, c with
  | false, AN | false, EN =>
    match level_raise l 2 with Some x => Ok x | None => Panic 587 end
  | false, R | true, L | true, EN | true, AN =>
    match level_raise l 1 with Some x => Ok x | None => Panic 589 end
  | _, _ => Ok l
  end.

Lemma resolve_levels_cons c pcs l ls :
  resolve_levels (c :: pcs) (l :: ls) = (l' <- rl1 c l ;; rest <- resolve_levels pcs ls ;; Ok (l' :: rest)).
Proof. reflexivity. Qed.

Lemma resolve_levels_block c l l' n : forall P Q R,
  rl1 c l = Ok l' -> resolve_levels P Q = Ok R ->
  resolve_levels (repeat c n ++ P) (repeat l n ++ Q) = Ok (repeat l' n ++ R).
Proof.
  induction n as [|n IH]; intros P Q R H1 H2; [exact H2|].
  cbn [repeat app]. rewrite resolve_levels_cons, H1. cbn [bind].
  rewrite (IH P Q R H1 H2). reflexivity.
Qed.

Lemma resolve_levels_expand lens : forall pc lv out',
  resolve_levels pc lv = Ok out' ->
  resolve_levels (expand lens pc) (expand lens lv) = Ok (expand lens out').
Proof.
  induction lens as [|n lens IH]; intros pc lv out' H; [reflexivity|].
  destruct pc as [|c pcs], lv as [|l ls]; try (cbn [resolve_levels] in H; discriminate).
  - cbn [resolve_levels] in H. injection H as <-. reflexivity.
  - rewrite resolve_levels_cons in H.
    apply la_bind_ok in H. destruct H as (l' & H1 & H).
    apply la_bind_ok in H. destruct H as (rest & H2 & H). injection H as <-.
    rewrite !la_expand_cons. apply resolve_levels_block; [exact H1|]. apply IH. exact H2.
Qed.

Lemma resolve_levels_length : forall pc lv out',
  resolve_levels pc lv = Ok out' -> length out' = length lv /\ length pc = length lv.
Proof.
  induction pc as [|c pcs IH]; intros [|l ls] out' H; try (cbn [resolve_levels] in H; discriminate).
  - cbn [resolve_levels] in H. injection H as <-. split; reflexivity.
  - rewrite resolve_levels_cons in H.
    apply la_bind_ok in H. destruct H as (l' & H1 & H).
    apply la_bind_ok in H. destruct H as (rest & H2 & H). injection H as <-.
    apply IH in H2. cbn [length]. lia.
Qed.

Lemma assign_removed_cons prev c cs l ls :
  assign_removed_from prev (c :: cs) (l :: ls) =
  (rest <- assign_removed_from (if removed_by_x9 c then prev else l) cs ls ;;
   Ok ((if removed_by_x9 c then prev else l) :: rest)).
Proof. reflexivity. Qed.

Lemma assign_removed_block c l n : forall prev P Q R,
  let l' := if removed_by_x9 c then prev else l in
  0 < n ->
  assign_removed_from l' P Q = Ok R ->
  assign_removed_from prev (repeat c n ++ P) (repeat l n ++ Q) = Ok (repeat l' n ++ R).
Proof.
  induction n as [|n IH]; intros prev P Q R l' Hn H; [lia|].
  cbn [repeat app]. rewrite assign_removed_cons. fold l'.
  destruct n as [|n].
  - cbn [repeat app]. rewrite H. reflexivity.
  - assert (E : (if removed_by_x9 c then l' else l) = l').
    { unfold l'. destruct (removed_by_x9 c); reflexivity. }
    rewrite (IH l' P Q R); [rewrite E; reflexivity | lia | rewrite E; exact H].
Qed.

Lemma assign_removed_expand lens : Forall (fun n => 0 < n) lens ->
  forall prev oc lv out',
  length oc = length lens -> length lv = length lens ->
  assign_removed_from prev oc lv = Ok out' ->
  assign_removed_from prev (expand lens oc) (expand lens lv) = Ok (expand lens out').
Proof.
  induction 1 as [|n lens Hn Hpos IH]; intros prev oc lv out' Ho Hl H.
  - destruct oc, lv; cbn [length] in *; try discriminate.
    cbn [assign_removed_from] in H. injection H as <-. reflexivity.
  - destruct oc as [|c cs], lv as [|l ls]; cbn [length] in *; try discriminate.
    rewrite assign_removed_cons in H.
    apply la_bind_ok in H. destruct H as (rest & H2 & H). injection H as <-.
    rewrite !la_expand_cons. apply assign_removed_block; [exact Hn|].
    apply IH; [lia | lia | exact H2].
Qed.

Lemma assign_removed_length : forall lv prev oc out',
  assign_removed_from prev oc lv = Ok out' -> length out' = length lv.
Proof.
  induction lv as [|l ls IH]; intros prev oc out' H.
  - destruct oc; cbn [assign_removed_from] in H; injection H as <-; reflexivity.
  - destruct oc as [|c cs]; [cbn [assign_removed_from] in H; discriminate|].
    rewrite assign_removed_cons in H.
    apply la_bind_ok in H. destruct H as (rest & H2 & H). injection H as <-.
    cbn [length]. f_equal. apply (IH _ _ _ H2).
Qed.

Lemma view_lens_pos e text : valid_text e text ->
  Forall (fun n => 0 < n) (map snd (view_of e text)).
Proof.
  intros Hv. destruct (view_of_proved e text Hv) as (_ & _ & _ & _ & HF).
  apply Forall_forall. intros n Hin. apply in_map_iff in Hin. destruct Hin as (ch & <- & Hin).
  rewrite Forall_forall in HF. apply (HF ch Hin).
Qed.

Theorem li_levels_proof : LI_levels.
Proof.
  intros e text Hv. split.
  - intros pc lv out' _ _ H. apply resolve_levels_expand. exact H.
  - intros pl oc lv out' Ho Hl H. unfold assign_levels_to_removed_chars in *.
    apply assign_removed_expand; [apply view_lens_pos; exact Hv | | | exact H];
      rewrite map_length; assumption.
Qed.

(* ================================================================== *)
(* 3. writes preserve lengths *)

Lemma la_upd_opt_length {A} (l : list A) : forall i x l', upd_opt l i x = Some l' -> length l' = length l.
Proof.
  induction l as [|h t IH]; intros i x l' H; [destruct i; discriminate|].
  destruct i as [|j]; cbn [upd_opt] in H.
  - injection H as <-. reflexivity.
  - destruct (upd_opt t j x) as [t'|] eqn:E; [|discriminate]. injection H as <-.
    cbn [length]. f_equal. apply (IH _ _ _ E).
Qed.
Lemma la_upd_length {A} s (l : list A) i x l' : upd s l i x = Ok l' -> length l' = length l.
Proof.
  unfold upd. destruct (upd_opt l i x) as [t|] eqn:E; [|discriminate].
  intros H. injection H as <-. apply (la_upd_opt_length _ _ _ _ E).
Qed.
Lemma la_upd_lt {A} s (l : list A) i x l' : upd s l i x = Ok l' -> i < length l.
Proof.
  unfold upd. destruct (upd_opt l i x) as [t|] eqn:E; [|discriminate]. intros _.
  revert i t E. induction l as [|h r IH]; intros i t E; [destruct i; discriminate|].
  destruct i as [|j]; cbn [upd_opt length] in *; [lia|].
  destruct (upd_opt r j x) as [t'|] eqn:E'; [|discriminate]. apply IH in E'. lia.
Qed.
Lemma la_get_lt {A} s (l : list A) i x : get s l i = Ok x -> i < length l.
Proof.
  unfold get. destruct (nth_error l i) eqn:E; [|discriminate]. intros _.
  apply nth_error_Some. congruence.
Qed.
Lemma la_set_range_length {A} s (l : list A) a b x l' : set_range s l a b x = Ok l' -> length l' = length l.
Proof.
  unfold set_range. destruct ((a <=? b) && (b <=? length l)) eqn:E; [|discriminate].
  apply andb_true_iff in E. destruct E as [E1 E2]. apply Nat.leb_le in E1, E2.
  intros H. injection H as <-.
  rewrite !app_length, repeat_length, firstn_length, skipn_length. lia.
Qed.
Lemma la_set_all_length {A} s idxs : forall (l : list A) x l', set_all s l idxs x = Ok l' -> length l' = length l.
Proof.
  induction idxs as [|j rest IH]; intros l x l' H; cbn [set_all] in H.
  - injection H as <-. reflexivity.
  - apply la_bind_ok in H. destruct H as (l1 & H1 & H). apply IH in H. apply la_upd_length in H1. lia.
Qed.
Lemma la_slice_length {A} s (l : list A) a b l' : slice s l a b = Ok l' -> length l' = b - a /\ a <= b /\ b <= length l.
Proof.
  unfold slice. destruct ((a <=? b) && (b <=? length l)) eqn:E; [|discriminate].
  apply andb_true_iff in E. destruct E as [E1 E2]. apply Nat.leb_le in E1, E2.
  intros H. injection H as <-. rewrite firstn_length, skipn_length. lia.
Qed.

(* inversion of a monadic hypothesis, one layer at a time *)
Ltac la_inv H :=
  repeat match type of H with
  | bind _ _ = Ok _ => let x := fresh "x" in let Hx := fresh "Hx" in
                       apply la_bind_ok in H; destruct H as (x & Hx & H)
  | (match ?p with (_, _) => _ end) = Ok _ => destruct p
  | (let '(_, _) := ?p in _) = Ok _ => destruct p
  | Panic _ = Ok _ => discriminate H
  end.

Ltac la_dest x := first [ is_var x; destruct x | destruct x eqn:? ].

Ltac la_step :=
  match goal with
  | H : bind _ _ = Ok _ |- _ => apply la_bind_ok in H; destruct H as (? & ? & H)
  | H : Ok _ = Ok _ |- _ => injection H; clear H; intros; subst
  | H : Panic _ = Ok _ |- _ => discriminate H
  | H : upd _ _ _ _ = Ok _ |- _ => apply la_upd_length in H
  | H : set_range _ _ _ _ _ = Ok _ |- _ => apply la_set_range_length in H
  | H : set_all _ _ _ _ = Ok _ |- _ => apply la_set_all_length in H
  | H : (if ?b then _ else _) = Ok _ |- _ => la_dest b
  | H : (match ?x with _ => _ end) = Ok _ |- _ => la_dest x
  end.

(* ================================================================== *)
(* 4. explicit stage at character level: lengths and well-formed runs *)

Lemma apply_override_length s stt (pc : list bclass) i pc' :
  apply_override s stt pc i = Ok pc' -> length pc' = length pc.
Proof. unfold apply_override. intros H. repeat la_step; congruence. Qed.

Lemma copy_units_length js : forall levels pc i levels' pc',
  copy_units levels pc i js = Ok (levels', pc') ->
  length levels' = length levels /\ length pc' = length pc.
Proof.
  induction js as [|j rest IH]; intros levels pc i levels' pc' H; cbn [copy_units] in H.
  - injection H as <- <-. split; reflexivity.
  - apply la_bind_ok in H. destruct H as (li & _ & H).
    apply la_bind_ok in H. destruct H as (l1 & H1 & H).
    apply la_bind_ok in H. destruct H as (ci & _ & H).
    apply la_bind_ok in H. destruct H as (p1 & H2 & H).
    apply IH in H. apply la_upd_length in H1, H2. lia.
Qed.

Definition mid_len (st : ex_state) (r : mid_t) : Prop :=
  let '(stack, oi, oe, vi, levels, pc) := r in
  length levels = length (ex_levels st) /\ length pc = length (ex_pc st).

Lemma mid_init_len st i ll ls k r : mid_init st i ll ls k = Ok r -> mid_len st r.
Proof.
  unfold mid_init, mid_len. intros H.
  repeat (first [ la_step
                | match goal with H : apply_override _ _ _ _ = Ok _ |- _ => apply apply_override_length in H end ]);
    split; congruence.
Qed.
Lemma mid_pdi_len st i r : mid_pdi st i = Ok r -> mid_len st r.
Proof.
  unfold mid_pdi, mid_len. intros H.
  repeat (first [ la_step
                | match goal with H : apply_override _ _ _ _ = Ok _ |- _ => apply apply_override_length in H end ]);
    split; congruence.
Qed.
Lemma mid_pdf_len st i ls r : mid_pdf st i ls = Ok r -> mid_len st r.
Proof.
  unfold mid_pdf, mid_len. intros H.
  repeat la_step; split; congruence.
Qed.
Lemma mid_other_len st i ll ls k r : mid_other st i ll ls k = Ok r -> mid_len st r.
Proof.
  unfold mid_other, mid_len. intros H.
  repeat (first [ la_step
                | match goal with H : apply_override _ _ _ _ = Ok _ |- _ => apply apply_override_length in H end ]);
    split; congruence.
Qed.
Lemma ex_mid_len st i ll ls k r : ex_mid st i ll ls k = Ok r -> mid_len st r.
Proof.
  unfold ex_mid. destruct k; intros H;
    first [ exact (mid_init_len _ _ _ _ _ _ H) | exact (mid_pdi_len _ _ _ H) | exact (mid_pdf_len _ _ _ _ H)
          | exact (mid_other_len _ _ _ _ _ _ H) | idtac ].
  injection H as <-. split; reflexivity.
Qed.

Lemma ex_step_shape oc st i len st' : ex_step oc st (i, len) = Ok st' ->
  length (ex_levels st') = length (ex_levels st) /\ length (ex_pc st') = length (ex_pc st) /\
  i < length (ex_levels st) /\
  ((ex_run_start st' = ex_run_start st /\ ex_runs st' = ex_runs st) \/
   (i <> 0 /\ ex_run_start st' = i /\ ex_runs st' = ex_runs st ++ [(ex_run_start st, i)])).
Proof.
  rewrite ex_step_eq. destruct (ex_stack st) as [|[ll ls] rest]; [discriminate|]. intros H.
  apply la_bind_ok in H. destruct H as (k & _ & H).
  apply la_bind_ok in H. destruct H as (r & Hm & H).
  apply ex_mid_len in Hm. destruct r as [[[[[stack oi] oe] vi] levels] pc]. unfold mid_len in Hm.
  unfold ex_tail in H.
  apply la_bind_ok in H. destruct H as ([levels1 pc1] & Hc & H). apply copy_units_length in Hc.
  apply la_bind_ok in H. destruct H as (li & Hg & H). apply la_get_lt in Hg.
  destruct (i =? 0) eqn:E0.
  - injection H as <-. cbn [ex_levels ex_pc ex_run_start ex_runs].
    repeat split; try lia. left. split; reflexivity.
  - apply Nat.eqb_neq in E0.
    destruct (negb (removed_by_x9 k) && negb (li =? ex_run_level st)); injection H as <-;
      cbn [ex_levels ex_pc ex_run_start ex_runs]; repeat split; try lia.
    + right. repeat split. exact E0.
    + left. split; reflexivity.
Qed.

Definition runs_ok (K : nat) (runs : list run) : Prop := Forall (run_in K) runs.

Lemma ex_fold_shape oc m : forall pos st st',
  ex_fold oc st (map (fun i => (i, 1)) (seq pos m)) = Ok st' ->
  (ex_run_start st < pos \/ (pos = 0 /\ ex_run_start st = 0)) ->
  runs_ok (length (ex_levels st)) (ex_runs st) ->
  length (ex_levels st') = length (ex_levels st) /\ length (ex_pc st') = length (ex_pc st) /\
  (ex_run_start st' < pos + m \/ (pos + m = 0 /\ ex_run_start st' = 0)) /\
  runs_ok (length (ex_levels st)) (ex_runs st').
Proof.
  induction m as [|m IH]; intros pos st st' H Hrs Hruns; cbn [seq map ex_fold] in H.
  - injection H as <-. rewrite Nat.add_0_r. repeat split; assumption.
  - apply la_bind_ok in H. destruct H as (st1 & H1 & H).
    apply ex_step_shape in H1. destruct H1 as (Hl & Hp & Hi & Hr).
    apply IH in H.
    + rewrite Hl in H. destruct H as (H1 & H2 & H3 & H4).
      repeat split; [lia | lia | | exact H4].
      replace (pos + S m) with (S pos + m) by lia. exact H3.
    + left. destruct Hr as [[-> _] | (_ & -> & _)]; lia.
    + rewrite Hl. destruct Hr as [[_ ->] | (Hne & _ & ->)]; [exact Hruns|].
      apply Forall_app. split; [exact Hruns|]. constructor; [|constructor].
      unfold run_in. cbn [fst snd]. lia.
Qed.

Lemma explicit_compute_shape_U32 cps pl oc levels pc lv' pc' runs' :
  explicit_compute U32 cps pl oc levels pc = Ok (lv', pc', runs') ->
  length oc = length cps /\ length lv' = length levels /\ length pc' = length pc /\
  Forall (run_in (length levels)) runs'.
Proof.
  unfold explicit_compute. cbn [t_len t_indices_lengths].
  destruct (length cps =? length oc) eqn:E; cbn [negb]; [|discriminate].
  apply Nat.eqb_eq in E. intros H.
  apply la_bind_ok in H. destruct H as (st & Hf & H).
  apply ex_fold_shape in Hf; cbn [ex_run_start ex_runs ex_levels ex_pc] in *.
  - destruct Hf as (H1 & H2 & H3 & H4). injection H as <- <- <-.
    repeat split; try lia.
    destruct (ex_run_start st <? length (ex_levels st)) eqn:El; [|exact H4].
    apply Nat.ltb_lt in El. apply Forall_app. split; [exact H4|]. constructor; [|constructor].
    unfold run_in. cbn [fst snd]. lia.
  - right. split; reflexivity.
  - constructor.
Qed.

(* ================================================================== *)
(* 5. isolating_run_sequences only regroups its input runs *)

Lemma map_res_Forall {A B} (f : A -> res B) (P : B -> Prop) : forall l ys,
  (forall x y, In x l -> f x = Ok y -> P y) -> map_res f l = Ok ys -> Forall P ys.
Proof.
  induction l as [|x t IH]; intros ys Hf H; cbn [map_res] in H.
  - injection H as <-. constructor.
  - apply la_bind_ok in H. destruct H as (y & Hy & H).
    apply la_bind_ok in H. destruct H as (ys' & Hys & H). injection H as <-.
    constructor; [apply (Hf x y); [left; reflexivity | exact Hy]|].
    apply IH; [|exact Hys]. intros x0 y0 Hin. apply Hf. right. exact Hin.
Qed.

Lemma irs_fast_one_runs pl oc lv r sq : irs_fast_one pl oc lv r = Ok sq -> irs_runs sq = [r].
Proof.
  unfold irs_fast_one. destruct r as [s en]. intros H.
  repeat (apply la_bind_ok in H; destruct H as (? & _ & H)).
  injection H as <-. reflexivity.
Qed.

Lemma irs_general_one_runs pl oc lv s sq : irs_general_one pl oc lv s = Ok sq -> irs_runs sq = s.
Proof.
  unfold irs_general_one. destruct s as [|r0 rest]; [discriminate|]. intros H.
  repeat (apply la_bind_ok in H; destruct H as (? & _ & H)).
  injection H as <-. reflexivity.
Qed.

Lemma bd13_fold_Forall (Q : run -> Prop) oc : forall runs stack sequences out,
  Forall Q runs -> Forall (Forall Q) stack -> Forall (Forall Q) sequences ->
  bd13_fold oc runs stack sequences = Ok out -> Forall (Forall Q) out.
Proof.
  induction runs as [|r rest IH]; intros stack sequences out Hr Hs Hq H; cbn [bd13_fold] in H.
  - injection H as <-. apply Forall_app. split; [exact Hq|].
    apply Forall_forall. intros s Hin. apply filter_In in Hin. destruct Hin as [Hin _].
    rewrite Forall_forall in Hs. apply Hs. exact Hin.
  - destruct r as [s en]. destruct (en <=? s); [discriminate|].
    destruct stack as [|top below]; [discriminate|].
    apply la_bind_ok in H. destruct H as (sc & _ & H).
    apply la_bind_ok in H. destruct H as (sl & _ & H).
    inversion Hr as [|? ? Hr1 Hr2]; subst. inversion Hs as [|? ? Hs1 Hs2]; subst.
    destruct ((sc =c PDI) && (1 <? length (top :: below)));
      destruct (is_isolate_init (opt_or (rfind not_removed_by_x9 sl) sc));
      apply IH in H; try exact H; try exact Hr2; try exact Hq; try exact Hs2; try exact Hs;
      repeat (first [ apply Forall_app; split | constructor ]); try assumption.
Qed.

Lemma isolating_run_sequences_runs (Q : run -> Prop) pl oc lv runs iso seqs :
  Forall Q runs ->
  isolating_run_sequences pl oc lv runs iso = Ok seqs ->
  Forall (fun sq => Forall Q (irs_runs sq)) seqs.
Proof.
  intros HQ. unfold isolating_run_sequences. destruct (negb iso).
  - apply map_res_Forall. intros r sq Hin H. apply irs_fast_one_runs in H. rewrite H.
    constructor; [|constructor]. rewrite Forall_forall in HQ. apply HQ. exact Hin.
  - intros H. apply la_bind_ok in H. destruct H as (ss & Hb & H).
    apply (bd13_fold_Forall Q) in Hb; [|exact HQ|repeat constructor|constructor].
    revert H. apply map_res_Forall. intros s sq Hin H. apply irs_general_one_runs in H. rewrite H.
    rewrite Forall_forall in Hb. apply Hb. exact Hin.
Qed.

(* ================================================================== *)
(* 6. resolve_weak / resolve_neutral keep the length of the class vector *)

Lemma set_while_bn_length s idxs : forall pc x pc', set_while_bn s pc idxs x = Ok pc' -> length pc' = length pc.
Proof.
  induction idxs as [|j rest IH]; intros pc x pc' H; cbn [set_while_bn] in H.
  - injection H as <-. reflexivity.
  - apply la_bind_ok in H. destruct H as (c & _ & H).
    destruct (c =c BN).
    + apply la_bind_ok in H. destruct H as (pc1 & H1 & H). apply IH in H. apply la_upd_length in H1. lia.
    + injection H as <-. reflexivity.
Qed.

Ltac la_stepW :=
  match goal with
  | H : set_while_bn _ _ _ _ = Ok _ |- _ => apply set_while_bn_length in H
  | H : (let _ := _ in _) = Ok _ |- _ => cbv zeta in H
  | _ => la_step
  end.
Ltac la_fin := repeat la_stepW; cbn [fst snd] in *; first [ lia | congruence ].

Lemma weak_step_length e text sq st ri st' :
  weak_step e text sq st ri = Ok st' -> length (w_pc st') = length (w_pc st).
Proof.
  unfold weak_step. destruct ri as [run_index i]. intros H.
  apply la_bind_ok in H. destruct H as (c0 & _ & H).
  destruct (c0 =c BN). { injection H as <-. reflexivity. }
  apply la_bind_ok in H. destruct H as ([pc1 w2c] & H1 & H). cbv beta iota in H.
  assert (L1 : length pc1 = length (w_pc st)) by (clear - H1; la_fin).
  apply la_bind_ok in H. destruct H as (c1 & _ & H).
  apply la_bind_ok in H. destruct H as (pc2 & H2 & H).
  assert (L2 : length pc2 = length pc1) by (clear - H2; la_fin).
  apply la_bind_ok in H. destruct H as (c456 & _ & H).
  apply la_bind_ok in H. destruct H as ([pc3 et] & H3 & H). cbv beta iota in H.
  assert (L3 : length pc3 = length pc2) by (clear - H3; la_fin).
  apply la_bind_ok in H. destruct H as (prev5 & _ & H).
  apply la_bind_ok in H. destruct H as ([pc4 et4] & H4 & H). cbv beta iota in H.
  assert (L4 : length pc4 = length pc3) by (clear - H4; la_fin).
  injection H as <-. cbn [w_pc]. lia.
Qed.

Lemma weak_fold_length e text sq l : forall st st',
  weak_fold e text sq st l = Ok st' -> length (w_pc st') = length (w_pc st).
Proof.
  induction l as [|ri rest IH]; intros st st' H; cbn [weak_fold] in H.
  - injection H as <-. reflexivity.
  - apply la_bind_ok in H. destruct H as (st1 & H1 & H).
    apply IH in H. apply weak_step_length in H1. lia.
Qed.

Lemma w7_fold_length idxs : forall pc b pc', w7_fold pc b idxs = Ok pc' -> length pc' = length pc.
Proof.
  induction idxs as [|i rest IH]; intros pc b pc' H; cbn [w7_fold] in H.
  - injection H as <-. reflexivity.
  - apply la_bind_ok in H. destruct H as (c & _ & H).
    destruct c; try (apply IH in H; exact H).
    destruct b; [|apply IH in H; exact H].
    apply la_bind_ok in H. destruct H as (pc1 & H1 & H). apply IH in H. apply la_upd_length in H1. lia.
Qed.

Lemma resolve_weak_length e text sq pc out :
  resolve_weak e text sq pc = Ok out -> length out = length pc.
Proof.
  unfold resolve_weak. intros H.
  apply la_bind_ok in H. destruct H as (st & Hf & H). apply weak_fold_length in Hf. cbn [w_pc] in Hf.
  apply la_bind_ok in H. destruct H as (pc1 & H1 & H). apply la_set_all_length in H1.
  apply w7_fold_length in H. lia.
Qed.

Lemma n0_nsm_length lg oc idxs : forall pc x pc', n0_nsm lg oc pc idxs x = Ok pc' -> length pc' = length pc.
Proof.
  induction idxs as [|j rest IH]; intros pc x pc' H; cbn [n0_nsm] in H.
  - injection H as <-. reflexivity.
  - apply la_bind_ok in H. destruct H as (o & _ & H).
    apply la_bind_ok in H. destruct H as (p & _ & H).
    destruct ((o =c NSM) || (if lg then p =c BN else removed_by_x9 o)).
    + apply la_bind_ok in H. destruct H as (pc1 & H1 & H). apply IH in H. apply la_upd_length in H1. lia.
    + injection H as <-. reflexivity.
Qed.

Lemma n0_pair_length e lg backwards text sq oc ecls not_e pc pair pc' :
  n0_pair e lg backwards text sq oc ecls not_e pc pair = Ok pc' -> length pc' = length pc.
Proof.
  unfold n0_pair. intros H.
  apply la_bind_ok in H. destruct H as (sub & _ & H).
  apply la_bind_ok in H. destruct H as (scl & _ & H).
  apply la_bind_ok in H. destruct H as (fw & _ & H).
  apply la_bind_ok in H. destruct H as ([fe fne] & _ & H). cbv beta iota in H.
  apply la_bind_ok in H. destruct H as (cts & _ & H).
  destruct cts as [cts|]; [|injection H as <-; reflexivity].
  apply la_bind_ok in H. destruct H as (sub2 & _ & H).
  apply la_bind_ok in H. destruct H as (ecl & _ & H).
  apply la_bind_ok in H. destruct H as (pc1 & H1 & H). apply la_set_range_length in H1.
  apply la_bind_ok in H. destruct H as (pc2 & H2 & H). apply la_set_range_length in H2.
  apply la_bind_ok in H. destruct H as (bw & _ & H).
  apply la_bind_ok in H. destruct H as (pc3 & H3 & H). apply set_while_bn_length in H3.
  apply la_bind_ok in H. destruct H as (fw1 & _ & H).
  apply la_bind_ok in H. destruct H as (pc4 & H4 & H). apply n0_nsm_length in H4.
  apply la_bind_ok in H. destruct H as (fw2 & _ & H).
  apply n0_nsm_length in H. lia.
Qed.

Lemma n0_pairs_length e lg backwards text sq oc ecls not_e pairs : forall pc pc',
  n0_pairs e lg backwards text sq oc ecls not_e pc pairs = Ok pc' -> length pc' = length pc.
Proof.
  induction pairs as [|p rest IH]; intros pc pc' H; cbn [n0_pairs] in H.
  - injection H as <-. reflexivity.
  - apply la_bind_ok in H. destruct H as (pc1 & H1 & H).
    apply IH in H. apply n0_pair_length in H1. lia.
Qed.

Lemma n12_loop_length fuel sq ecls : forall pc idxs prev pc',
  n12_loop fuel sq ecls pc idxs prev = Ok pc' -> length pc' = length pc.
Proof.
  induction fuel as [|f IH]; intros pc idxs prev pc' H; cbn [n12_loop] in H; [discriminate|].
  destruct idxs as [|i rest]; [injection H as <-; reflexivity|].
  apply la_bind_ok in H. destruct H as (c & _ & H).
  destruct (is_NI c || (c =c BN)); [|apply IH in H; exact H].
  apply la_bind_ok in H. destruct H as ([[[ni_run last_i] nc] rest'] & _ & H). cbv beta iota in H.
  apply la_bind_ok in H. destruct H as (pc1 & H1 & H). apply la_set_all_length in H1.
  apply la_bind_ok in H. destruct H as (p & _ & H).
  apply IH in H. lia.
Qed.

Lemma resolve_neutral_gen_length e ds legacy text sq lv oc pc out :
  resolve_neutral_gen e ds legacy text sq lv oc pc = Ok out -> length out = length pc.
Proof.
  unfold resolve_neutral_gen. destruct (irs_runs sq) as [|r0 rest]; [discriminate|]. intros H.
  apply la_bind_ok in H. destruct H as (l0 & _ & H).
  apply la_bind_ok in H. destruct H as (pairs & _ & H).
  apply la_bind_ok in H. destruct H as (pc1 & H1 & H). apply n0_pairs_length in H1.
  apply n12_loop_length in H. lia.
Qed.

(* ================================================================== *)
(* 7. ASSEMBLY: one paragraph *)

Lemma resolve_sequences_li e text ds :
  li_weak_statement e text -> li_neutral_statement e text ->
  let chars := view_of e text in
  let cps := map fst chars in
  let lens := map snd chars in
  let k := length chars in
  forall seqs lv oc pc out',
    length pc = k -> length oc = k -> length lv = k -> Forall (seq_in k) seqs ->
    resolve_sequences U32 ds false cps lv oc pc seqs = Ok out' ->
    resolve_sequences e ds false text (expand lens lv) (expand lens oc) (expand lens pc)
                      (map (useq lens) seqs) = Ok (expand lens out') /\ length out' = k.
Proof.
  intros HW HN chars cps lens k. subst chars cps lens k.
  induction seqs as [|sq rest IH]; intros lv oc pc out' Hpc Hoc Hlv Hs H; cbn [resolve_sequences map] in *.
  - injection H as <-. split; [reflexivity | exact Hpc].
  - inversion Hs as [|? ? Hs1 Hs2]; subst.
    apply la_bind_ok in H. destruct H as (pc1 & H1 & H).
    apply la_bind_ok in H. destruct H as (pc2 & H2 & H).
    assert (L1 : length pc1 = length (view_of e text)) by (apply resolve_weak_length in H1; lia).
    assert (L2 : length pc2 = length (view_of e text)) by (apply resolve_neutral_gen_length in H2; lia).
    rewrite (HW sq pc pc1 Hpc Hs1 H1). cbn [bind].
    unfold li_neutral_statement, resolve_neutral in HN.
    rewrite (HN ds sq lv oc pc1 pc2 L1 Hoc Hlv Hs1 H2). cbn [bind].
    apply IH; assumption.
Qed.

Lemma li_para_from_stages :
  LI_explicit -> LI_sequences -> LI_weak -> LI_neutral -> LI_levels -> LI_para.
Proof.
  intros HE HS HW HN HL e text Hv.
  specialize (HE e text Hv). specialize (HS e text Hv). specialize (HW e text Hv).
  specialize (HN e text Hv). specialize (HL e text Hv). destruct HL as [HL1 HL2].
  pose proof (resolve_sequences_li e text) as HR.
  unfold li_para_statement. intros ds pl pure iso oc out' Hoc H.
  specialize (HR ds HW HN). cbv zeta in HR.
  unfold li_explicit_statement in HE. unfold li_sequences_statement in HS.
  set (chars := view_of e text) in *.
  set (lens := map snd chars) in *. set (cps := map fst chars) in *.
  assert (Hlens : length lens = length chars) by (unfold lens; apply map_length).
  assert (Hcps : length cps = length chars) by (unfold cps; apply map_length).
  unfold compute_bidi_info_for_para, compute_bidi_info_for_para_gen in *.
  rewrite la_expand_length by lia. rewrite Hoc in H.
  destruct ((pl =? 0) && pure).
  - injection H as <-. rewrite la_expand_repeat by lia. reflexivity.
  - apply la_bind_ok in H. destruct H as ([[lv' pc'] runs'] & Hex & H). cbv beta iota in H.
    apply la_bind_ok in H. destruct H as (seqs' & Hsq & H).
    apply la_bind_ok in H. destruct H as (pc2 & Hrs & H).
    apply la_bind_ok in H. destruct H as (lv2 & Hrl & H).
    pose proof (explicit_compute_shape_U32 _ _ _ _ _ _ _ _ Hex) as (_ & Llv & Lpc & Hruns).
    rewrite repeat_length in Llv, Hruns.
    rewrite (HE pl oc lv' pc' runs' Hoc Hex). cbn [bind]. cbv beta iota.
    rewrite (HS pl oc lv' runs' iso seqs' Hoc Llv Hruns Hsq). cbn [bind].
    assert (Hseqs : Forall (seq_in (length chars)) seqs').
    { exact (isolating_run_sequences_runs _ _ _ _ _ _ _ Hruns Hsq). }
    destruct (HR seqs' lv' oc pc' pc2) as [HR1 Lpc2]; try assumption; [lia|].
    rewrite HR1. cbn [bind].
    apply resolve_levels_length in Hrl as Llv2.
    rewrite (HL1 pc2 lv' lv2 Lpc2 Llv Hrl). cbn [bind].
    apply HL2; [exact Hoc | lia | exact H].
Qed.

(* ================================================================== *)
(* 8. ASSEMBLY: the constructors *)

Lemma para_length_U32 ds pl pure iso cps oc out :
  compute_bidi_info_for_para_gen U32 ds false pl pure iso cps oc = Ok out ->
  length out = length oc /\ ((pl =? 0) && pure = true \/ length oc = length cps).
Proof.
  unfold compute_bidi_info_for_para_gen. destruct ((pl =? 0) && pure).
  - intros H. injection H as <-. rewrite repeat_length. split; [reflexivity | left; reflexivity].
  - intros H.
    apply la_bind_ok in H. destruct H as ([[lv' pc'] runs'] & Hex & H). cbv beta iota in H.
    apply la_bind_ok in H. destruct H as (seqs' & _ & H).
    apply la_bind_ok in H. destruct H as (pc2 & _ & H).
    apply la_bind_ok in H. destruct H as (lv2 & Hrl & H).
    apply explicit_compute_shape_U32 in Hex. destruct Hex as (Hoc & Llv & _ & _).
    rewrite repeat_length in Llv.
    apply resolve_levels_length in Hrl. apply assign_removed_length in H.
    split; [lia | right; exact Hoc].
Qed.

(* LI_para without its length hypothesis: on the fast path nothing looks at the lengths, off it
   explicit::compute asserts them *)
Lemma li_para_nolen : LI_para -> forall e text, valid_text e text ->
  forall ds pl pure iso oc out',
    compute_bidi_info_for_para U32 ds pl pure iso (map fst (view_of e text)) oc = Ok out' ->
    compute_bidi_info_for_para e ds pl pure iso text (expand (map snd (view_of e text)) oc)
      = Ok (expand (map snd (view_of e text)) out').
Proof.
  intros HP e text Hv ds pl pure iso oc out' H.
  pose proof H as H0. unfold compute_bidi_info_for_para in H0.
  apply para_length_U32 in H0. destruct H0 as [_ [Hfast | Hlen]].
  - unfold compute_bidi_info_for_para, compute_bidi_info_for_para_gen in *.
    rewrite Hfast in *. injection H as <-.
    rewrite la_expand_length_gen, la_expand_repeat_gen. reflexivity.
  - apply (HP e text Hv); [|exact H]. rewrite map_length in Hlen. exact Hlen.
Qed.

Lemma li_para_bidi_info_from : LI_initial -> LI_para -> LI_para_bidi_info.
Proof.
  intros HI HP e text Hv. unfold li_para_bidi_info_statement. intros ds d p' Hfsi H.
  unfold para_bidi_info_new, para_bidi_info_new_gen in *.
  apply la_bind_ok in H. destruct H as (ii' & Hii & H).
  apply la_bind_ok in H. destruct H as (lv' & Hlv & H). injection H as <-.
  rewrite (HI e text Hv ds d false ii' Hfsi Hii). cbn [bind in_level in_pure in_iso in_classes].
  pose proof (li_para_nolen HP e text Hv ds _ _ _ _ _ Hlv) as HQ.
  unfold compute_bidi_info_for_para in HQ. rewrite HQ. reflexivity.
Qed.

Lemma bidi_paras_li : LI_para -> forall e text, valid_text e text ->
  forall ds classes paras flags acc out',
    bidi_paras U32 ds false (map fst (view_of e text)) classes paras flags acc = Ok out' ->
    bidi_paras e ds false text (expand (map snd (view_of e text)) classes)
               (map (upara (map snd (view_of e text))) paras) flags
               (expand (map snd (view_of e text)) acc)
      = Ok (expand (map snd (view_of e text)) out').
Proof.
  intros HP e text Hv ds classes.
  induction paras as [|p ps IH]; intros flags acc out' H; cbn [bidi_paras map] in *.
  - injection H as <-. reflexivity.
  - destruct flags as [|f fs]; [injection H as <-; reflexivity|].
    set (chars := view_of e text) in *. set (lens := map snd chars) in *.
    apply la_bind_ok in H. destruct H as (u & Hchk & H).
    destruct (length acc =? p_start p) eqn:Ea; [|discriminate]. apply Nat.eqb_eq in Ea. clear Hchk u.
    apply la_bind_ok in H. destruct H as (ptext & Hpt & H).
    apply la_bind_ok in H. destruct H as (poc & Hpo & H).
    apply la_bind_ok in H. destruct H as (pl & Hpl & H).
    cbn [t_subrange] in Hpt.
    pose proof (la_slice_length _ _ _ _ _ Hpt) as (_ & Hab & Hbk). rewrite map_length in Hbk.
    pose proof (la_slice_length _ _ _ _ _ Hpo) as (Lpoc & _ & Hbc).
    cbn [upara p_start p_end p_level].
    rewrite la_expand_length_gen, Ea, Nat.eqb_refl. cbn [bind].
    destruct (subrange_view_proved 509 e text (p_start p) (p_end p) Hv Hab Hbk) as (sub & Hsub & Hview & Hvs).
    fold chars in Hsub, Hview. fold lens in Hsub.
    change (total (firstn (p_start p) lens)) with (ustart lens (p_start p)) in Hsub.
    change (total (firstn (p_end p) lens)) with (ustart lens (p_end p)) in Hsub.
    rewrite Hsub. cbn [bind].
    rewrite la_slice_expand; [|exact Hab|exact Hbc|unfold lens; rewrite map_length; exact Hbk]. cbn [bind].
    assert (Ept : ptext = map fst (view_of e sub)).
    { rewrite Hview, <- firstn_map, <- skipn_map.
      unfold slice in Hpt. destruct ((p_start p <=? p_end p) && (p_end p <=? length (map fst chars))); [|discriminate].
      injection Hpt as <-. reflexivity. }
    assert (Epo : poc = firstn (p_end p - p_start p) (skipn (p_start p) classes)).
    { unfold slice in Hpo. destruct ((p_start p <=? p_end p) && (p_end p <=? length classes)); [|discriminate].
      injection Hpo as <-. reflexivity. }
    assert (Elens : firstn (p_end p - p_start p) (skipn (p_start p) lens) = map snd (view_of e sub)).
    { rewrite Hview, <- firstn_map, <- skipn_map. reflexivity. }
    rewrite <- Epo, Elens. rewrite Ept in Hpl.
    pose proof (para_length_U32 _ _ _ _ _ _ _ Hpl) as (Lpl & _).
    pose proof (li_para_nolen HP e sub Hvs ds _ _ _ _ _ Hpl) as HQ.
    unfold compute_bidi_info_for_para in HQ. rewrite HQ. cbn [bind].
    replace (expand lens acc ++ expand (map snd (view_of e sub)) pl) with (expand lens (acc ++ pl)).
    { apply IH. exact H. }
    rewrite (la_expand_split lens (acc ++ pl) (length acc)).
    rewrite la_firstn_app_exact, la_skipn_app_exact by reflexivity.
    rewrite <- la_expand_trunc_l. f_equal.
    rewrite (la_expand_trunc_l (skipn (length acc) lens) pl).
    rewrite Lpl, Lpoc, Ea, Elens. reflexivity.
Qed.

Lemma li_bidi_info_from : LI_initial -> LI_para -> LI_bidi_info.
Proof.
  intros HI HP e text Hv. unfold li_bidi_info_statement. intros ds d b' Hfsi H.
  unfold bidi_info_new, bidi_info_new_gen in *.
  apply la_bind_ok in H. destruct H as (ii' & Hii & H).
  apply la_bind_ok in H. destruct H as (lv' & Hlv & H). injection H as <-.
  rewrite (HI e text Hv ds d true ii' Hfsi Hii). cbn [bind in_classes in_paras in_flags bi_classes bi_levels bi_paras].
  pose proof (bidi_paras_li HP e text Hv ds _ _ _ _ _ Hlv) as HQ.
  rewrite la_expand_nil_r in HQ. rewrite HQ. reflexivity.
Qed.
