(* C12: the model consults the data source only through its two answers (ds_class, ds_bracket).
   No functional extensionality is available, so the equality is proved function by function. *)
From Coq Require Import List NArith Bool Arith.
Import ListNotations.
From BidiVerif Require Import Base ConstsGen TablesGen ModelText ModelResolve ModelLine Spec Obs Judge Stmts Stmts2.

Lemma bind_congr : forall (A B : Type) (e1 e2 : res A) (f1 f2 : A -> res B),
  e1 = e2 -> (forall x, f1 x = f2 x) -> bind e1 f1 = bind e2 f2.
Proof.
  intros A B e1 e2 f1 f2 He Hf. subst e2. destruct e1 as [a|s]; cbn [bind]; [apply Hf | reflexivity].
Qed.

Section Ext.
Variables d1 d2 : datasource.
Hypothesis Hext : ds_ext d1 d2.

Lemma ext_class : forall c, ds_class d1 c = ds_class d2 c.
Proof. intro c. exact (proj1 (Hext c)). Qed.
Lemma ext_bracket : forall c, ds_bracket d1 c = ds_bracket d2 c.
Proof. intro c. exact (proj2 (Hext c)). Qed.

(* ---------------------------------------------------------------- compute_initial_info *)
Lemma ii_step_ext : forall e split dl st ic,
  ii_step e d1 split dl st ic = ii_step e d2 split dl st ic.
Proof.
  intros e split dl st [i c]. unfold ii_step. rewrite (ext_class c). reflexivity.
Qed.

Lemma ii_fold_ext : forall e split dl l st,
  ii_fold e d1 split dl st l = ii_fold e d2 split dl st l.
Proof.
  intros e split dl l. induction l as [|ic rest IH]; intro st; cbn [ii_fold].
  - reflexivity.
  - apply bind_congr; [apply ii_step_ext | intro st'; apply IH].
Qed.

Lemma compute_initial_info_ext : forall e text dl split,
  compute_initial_info e d1 text dl split = compute_initial_info e d2 text dl split.
Proof.
  intros e text dl split. unfold compute_initial_info.
  apply bind_congr; [apply ii_fold_ext | intro st; reflexivity].
Qed.

(* ---------------------------------------------------------------- bracket pairs *)
Lemma bd16_run_ext : forall legacy oc pc run_index start cis stack pairs,
  bd16_run d1 legacy oc pc run_index start cis stack pairs =
  bd16_run d2 legacy oc pc run_index start cis stack pairs.
Proof.
  intros legacy oc pc run_index start cis.
  induction cis as [|[i ch] rest IH]; intros stack pairs; cbn [bd16_run].
  - reflexivity.
  - apply bind_congr; [reflexivity | intro c].
    rewrite (ext_bracket ch).
    destruct (negb (c =c ON)); [apply IH |].
    apply bind_congr; [reflexivity | intro o].
    destruct (removed_by_x9 o && negb legacy); [apply IH |].
    destruct (ds_bracket d2 ch) as [[opening is_open]|]; [| apply IH].
    destruct is_open.
    + destruct (bracket_limit <=? length stack); [reflexivity | apply IH].
    + destruct (bracket_match opening stack) as [[[pos ri] below]|]; apply IH.
Qed.

Lemma bd16_runs_ext : forall e legacy text oc pc runs run_index stack pairs,
  bd16_runs e d1 legacy text oc pc run_index runs stack pairs =
  bd16_runs e d2 legacy text oc pc run_index runs stack pairs.
Proof.
  intros e legacy text oc pc runs.
  induction runs as [|[s en] rest IH]; intros run_index stack pairs; cbn [bd16_runs].
  - reflexivity.
  - apply bind_congr; [reflexivity | intro sub].
    apply bind_congr; [apply bd16_run_ext | intros [[stack' pairs'] stopped]].
    destruct (stopped && negb legacy); [reflexivity | apply IH].
Qed.

Lemma identify_bracket_pairs_gen_ext : forall e legacy text sq oc pc,
  identify_bracket_pairs_gen e d1 legacy text sq oc pc = identify_bracket_pairs_gen e d2 legacy text sq oc pc.
Proof.
  intros. unfold identify_bracket_pairs_gen.
  apply bind_congr; [apply bd16_runs_ext | intro; reflexivity].
Qed.

(* n0_pair / n0_pairs / n12_loop / resolve_weak / explicit_compute / isolating_run_sequences /
   resolve_levels / assign_levels_to_removed_chars do not take the data source at all. *)

Lemma resolve_neutral_gen_ext : forall e legacy text sq levels oc pc,
  resolve_neutral_gen e d1 legacy text sq levels oc pc = resolve_neutral_gen e d2 legacy text sq levels oc pc.
Proof.
  intros. unfold resolve_neutral_gen.
  destruct (irs_runs sq) as [|r0 rs]; [reflexivity |].
  apply bind_congr; [reflexivity | intro l0].
  apply bind_congr; [apply identify_bracket_pairs_gen_ext | intro prs; reflexivity].
Qed.

Lemma resolve_sequences_ext : forall e legacy text levels oc seqs pc,
  resolve_sequences e d1 legacy text levels oc pc seqs = resolve_sequences e d2 legacy text levels oc pc seqs.
Proof.
  intros e legacy text levels oc seqs.
  induction seqs as [|sq rest IH]; intro pc; cbn [resolve_sequences].
  - reflexivity.
  - apply bind_congr; [reflexivity | intro pc1].
    apply bind_congr; [apply resolve_neutral_gen_ext | intro pc2; apply IH].
Qed.

Lemma compute_bidi_info_for_para_gen_ext : forall e legacy pl pure iso text oc,
  compute_bidi_info_for_para_gen e d1 legacy pl pure iso text oc =
  compute_bidi_info_for_para_gen e d2 legacy pl pure iso text oc.
Proof.
  intros. unfold compute_bidi_info_for_para_gen.
  destruct ((pl =? 0) && pure); [reflexivity |].
  apply bind_congr; [reflexivity | intros [[levels pc] runs]].
  apply bind_congr; [reflexivity | intro seqs].
  apply bind_congr; [apply resolve_sequences_ext | intro pc'; reflexivity].
Qed.

Lemma bidi_paras_ext : forall e legacy text classes paras flags levels,
  bidi_paras e d1 legacy text classes paras flags levels =
  bidi_paras e d2 legacy text classes paras flags levels.
Proof.
  intros e legacy text classes paras.
  induction paras as [|p ps IH]; intros flags levels; cbn [bidi_paras].
  - reflexivity.
  - destruct flags as [|f fs]; [reflexivity |].
    apply bind_congr; [reflexivity | intro u].
    apply bind_congr; [reflexivity | intro ptext].
    apply bind_congr; [reflexivity | intro poc].
    apply bind_congr; [apply compute_bidi_info_for_para_gen_ext | intro plv; apply IH].
Qed.

Lemma bidi_info_new_gen_ext : forall e legacy text dl,
  bidi_info_new_gen e d1 legacy text dl = bidi_info_new_gen e d2 legacy text dl.
Proof.
  intros. unfold bidi_info_new_gen.
  apply bind_congr; [apply compute_initial_info_ext | intro ii].
  apply bind_congr; [apply bidi_paras_ext | intro; reflexivity].
Qed.

Lemma para_bidi_info_new_gen_ext : forall e legacy text dl,
  para_bidi_info_new_gen e d1 legacy text dl = para_bidi_info_new_gen e d2 legacy text dl.
Proof.
  intros. unfold para_bidi_info_new_gen.
  apply bind_congr; [apply compute_initial_info_ext | intro ii].
  apply bind_congr; [apply compute_bidi_info_for_para_gen_ext | intro; reflexivity].
Qed.

(* ---------------------------------------------------------------- get_base_direction *)
Lemma base_direction_from_ext : forall full cs lvl,
  base_direction_from d1 full lvl cs = base_direction_from d2 full lvl cs.
Proof.
  intros full cs. induction cs as [|c rest IH]; intro lvl; cbn [base_direction_from].
  - reflexivity.
  - rewrite (ext_class c).
    destruct (ds_class d2 c); try apply IH;
      try (destruct (lvl =? 0); [reflexivity | apply IH]);
      (destruct full; [apply IH | reflexivity]).
Qed.

Lemma get_base_direction_ext : forall e full text,
  get_base_direction e d1 full text = get_base_direction e d2 full text.
Proof. intros. unfold get_base_direction. apply base_direction_from_ext. Qed.

End Ext.

Lemma C12_main : C12_statement.
Proof.
  split.
  - intros e d1 d2 text d Hext. repeat split.
    + apply compute_initial_info_ext; exact Hext.
    + unfold bidi_info_new. apply bidi_info_new_gen_ext; exact Hext.
    + unfold para_bidi_info_new. apply para_bidi_info_new_gen_ext; exact Hext.
    + intro full. apply get_base_direction_ext; exact Hext.
  - intro c. split; reflexivity.
Qed.

(* ---------------------------------------------------------------- a concrete instance
   Two syntactically different custom data sources (an if-chain on N.eqb; a pattern match on the
   binary numeral) that answer alike on every scalar value. *)
Definition ex_d1 : datasource :=
  {| ds_class := fun c => if (c =? 97)%N then R else if (c =? 10)%N then B
                          else if (c =? 40)%N || (c =? 41)%N then ON
                          else if (c =? 49)%N then EN
                          else if (c =? 60)%N then RLI else if (c =? 62)%N then PDI else L;
     ds_bracket := fun c => if (c =? 40)%N then Some (40%N, true)
                            else if (c =? 41)%N then Some (40%N, false) else None |}.
Definition ex_d2 : datasource :=
  {| ds_class := fun c => match c with
                          | 10%N => B | 40%N | 41%N => ON | 49%N => EN | 60%N => RLI | 62%N => PDI
                          | 97%N => R | _ => L end;
     ds_bracket := fun c => match c with
                            | 40%N => Some (40%N, true) | 41%N => Some (40%N, false) | _ => None end |}.
(* "b a(b)1\nb<a (1)>b" with a = R, b = L, 1 = EN, ( ) = bracket pair, < = RLI, > = PDI, \n = B *)
Definition ex_text : list N := [98; 32; 97; 40; 98; 41; 49; 10; 98; 60; 97; 32; 40; 49; 41; 62; 98]%N.

Lemma ex_ds_ext : ds_ext ex_d1 ex_d2.
Proof.
  intro c. unfold ex_d1, ex_d2; cbn [ds_class ds_bracket].
  destruct c as [|p]; [split; reflexivity|].
  repeat (destruct p as [p|p|]; try (split; reflexivity)).
Qed.
