(* Proofs/LLReorderLine.v — LENGTH INDEPENDENCE of reorder_line, for EVERY text of every encoding
   (ill-formed UTF-16 included).

   Route:
   1. UTF-16 round trip: the characters produced by [decode16] are scalar values (never surrogates,
      below 0x110000); on scalar values [decode16 (flat_map encode_utf16 cs)] gives the characters
      back with their lengths, and the encoding is a list of 16-bit units.
   2. a well-formed text cut on character boundaries is the encoding of its characters.
   3. the per-run readers [t_chars] / [t_chars_rev] on a valid text are its view (forwards / reversed).
   4. [all_runs_ltr] and [emit_runs] on expansions: every run is mapped with [urun], the sub-range
      is the text of the run's characters (subrange_view), so every emitted chunk is the encoding
      of the character-level chunk.
   5. the three exits of reorder_line (stored-levels early exit, all-LTR raw copy, emit_runs). *)
From BidiVerif Require Import Base ConstsGen TablesGen ModelText ModelResolve ModelLine Spec Obs Judge
     Stmts Stmts2 Stmts3 Stmts4 Stmts5 Stmts6.
From BidiVerif.Proofs Require Import Utf16 TextView LISequences LIAssemble LLLevels LLRuns.
From Coq Require Import Lia List Arith NArith.
Import ListNotations.

(* ================================================================== *)
(* 1. UTF-16 round trip *)

Section RoundTrip.
Local Open Scope N_scope.

Definition scalar (c : N) : Prop := c < 1114112 /\ (c < 55296 \/ 57343 < c).

Lemma scalar_repl : scalar 65533.
Proof. unfold scalar. lia. Qed.

Lemma is_hi_spec u : is_hi u = true <-> 55296 <= u /\ u <= 56319.
Proof. unfold is_hi. rewrite Bool.andb_true_iff, !N.leb_le. reflexivity. Qed.

Lemma is_lo_spec u : is_lo u = true <-> 56320 <= u /\ u <= 57343.
Proof. unfold is_lo. rewrite Bool.andb_true_iff, !N.leb_le. reflexivity. Qed.

Lemma is_hi_false u : is_hi u = false <-> (u < 55296 \/ 56319 < u).
Proof.
  destruct (is_hi u) eqn:E.
  - apply is_hi_spec in E. split; [discriminate | lia].
  - split; [intros _|reflexivity].
    destruct (N.lt_ge_cases u 55296) as [H|H]; [left; exact H|].
    destruct (N.lt_ge_cases 56319 u) as [H'|H']; [right; exact H'|].
    assert (X : is_hi u = true) by (apply is_hi_spec; lia). congruence.
Qed.

Lemma is_lo_false u : is_lo u = false <-> (u < 56320 \/ 57343 < u).
Proof.
  destruct (is_lo u) eqn:E.
  - apply is_lo_spec in E. split; [discriminate | lia].
  - split; [intros _|reflexivity].
    destruct (N.lt_ge_cases u 56320) as [H|H]; [left; exact H|].
    destruct (N.lt_ge_cases 57343 u) as [H'|H']; [right; exact H'|].
    assert (X : is_lo u = true) by (apply is_lo_spec; lia). congruence.
Qed.

(* the characters of the lossy decoding are scalar values *)
Lemma decode16_scalars t : is_u16 t -> Forall scalar (map fst (decode16 t)).
Proof.
  induction t as [|u r IHr IHr'] using decode16_ind2; intros Hu; [constructor|].
  inversion Hu as [|? ? Hu1 Hur]; subst. specialize (IHr Hur).
  cbn [decode16]. destruct (is_hi u) eqn:Eh.
  - destruct r as [|d r'].
    + cbn [map fst]. constructor; [apply scalar_repl | constructor].
    + destruct (is_lo d) eqn:El.
      * inversion Hur as [|? ? Hd Hr']; subst.
        cbn [map fst]. constructor; [|exact (IHr' _ _ eq_refl Hr')].
        apply is_hi_spec in Eh. apply is_lo_spec in El. unfold scalar. lia.
      * cbn [map fst]. constructor; [apply scalar_repl | exact IHr].
  - destruct (is_lo u) eqn:El.
    + cbn [map fst]. constructor; [apply scalar_repl | exact IHr].
    + cbn [map fst]. constructor; [|exact IHr].
      apply is_hi_false in Eh. apply is_lo_false in El. unfold scalar. lia.
Qed.

Lemma encode_utf16_small c : c < 65536 -> encode_utf16 c = [c].
Proof. intros H. unfold encode_utf16. destruct (N.ltb_spec c 65536) as [_|H']; [reflexivity | lia]. Qed.

Lemma encode_utf16_big c : 65536 <= c ->
  encode_utf16 c = [55296 + (c - 65536) / 1024; 56320 + (c - 65536) mod 1024].
Proof. intros H. unfold encode_utf16. destruct (N.ltb_spec c 65536) as [H'|_]; [lia | reflexivity]. Qed.

Lemma big_parts c : 65536 <= c -> c < 1114112 ->
  let q := (c - 65536) / 1024 in let m := (c - 65536) mod 1024 in
  q < 1024 /\ m < 1024 /\ c = 65536 + q * 1024 + m.
Proof.
  intros H1 H2 q m.
  assert (Hm : m < 1024) by (apply N.mod_lt; lia).
  assert (Hq : q < 1024) by (apply N.div_lt_upper_bound; lia).
  pose proof (N.div_mod (c - 65536) 1024 ltac:(lia)) as D. fold q m in D.
  split; [exact Hq | split; [exact Hm | lia]].
Qed.

Lemma decode16_encode c r : scalar c ->
  decode16 (encode_utf16 c ++ r) = (c, len_utf16 c) :: decode16 r.
Proof.
  intros [Hc Hs].
  destruct (N.lt_ge_cases c 65536) as [Hlt|Hge].
  - rewrite (encode_utf16_small c Hlt). cbn [app decode16].
    assert (Eh : is_hi c = false) by (apply is_hi_false; lia).
    assert (El : is_lo c = false) by (apply is_lo_false; lia).
    rewrite Eh, El. rewrite (len_utf16_unit c Hlt). reflexivity.
  - rewrite (encode_utf16_big c Hge). cbn [app].
    destruct (big_parts c Hge Hc) as (Hq & Hm & Ec).
    set (q := (c - 65536) / 1024) in *. set (m := (c - 65536) mod 1024) in *.
    assert (Eh : is_hi (55296 + q) = true) by (apply is_hi_spec; lia).
    assert (El : is_lo (56320 + m) = true) by (apply is_lo_spec; lia).
    cbn [decode16]. rewrite Eh, El.
    f_equal. f_equal.
    + lia.
    + unfold len_utf16. destruct (N.ltb_spec c 65536) as [H'|_]; [lia | reflexivity].
Qed.

Lemma decode16_encode_all cs : Forall scalar cs ->
  decode16 (flat_map encode_utf16 cs) = map (fun c => (c, len_utf16 c)) cs.
Proof.
  induction 1 as [|c cs Hc _ IH]; [reflexivity|].
  cbn [flat_map map]. rewrite (decode16_encode c _ Hc), IH. reflexivity.
Qed.

Lemma encode_utf16_u16 c : scalar c -> is_u16 (encode_utf16 c).
Proof.
  intros [Hc Hs]. unfold is_u16.
  destruct (N.lt_ge_cases c 65536) as [Hlt|Hge].
  - rewrite (encode_utf16_small c Hlt). constructor; [exact Hlt | constructor].
  - rewrite (encode_utf16_big c Hge).
    destruct (big_parts c Hge Hc) as (Hq & Hm & _).
    constructor; [lia|]. constructor; [lia | constructor].
Qed.

Lemma encode_all_u16 cs : Forall scalar cs -> is_u16 (flat_map encode_utf16 cs).
Proof.
  induction 1 as [|c cs Hc _ IH]; [constructor|].
  cbn [flat_map]. apply is_u16_app. split; [apply encode_utf16_u16; exact Hc | exact IH].
Qed.

Lemma encode_utf16_length c : length (encode_utf16 c) = len_utf16 c.
Proof. unfold encode_utf16, len_utf16. destruct (c <? 65536); reflexivity. Qed.

End RoundTrip.

(* the encoding of a list of characters that all occur in a decoded text: valid, decodes back *)
Lemma encode_chars_app e a b : encode_chars e (a ++ b) = encode_chars e a ++ encode_chars e b.
Proof. destruct e; cbn [encode_chars]; try reflexivity. apply flat_map_app. Qed.

Lemma view_fst_8 t : map fst (view_of U8 t) = t.
Proof. cbn [view_of]. rewrite map_map. cbn [fst]. apply map_id. Qed.

Lemma view_fst_32 t : map fst (view_of U32 t) = t.
Proof. cbn [view_of]. rewrite map_map. cbn [fst]. apply map_id. Qed.

Lemma view_scalars e t : valid_text e t ->
  match e with U16 => Forall scalar (map fst (view_of e t)) | _ => True end.
Proof. destruct e; intros H; try exact I. apply decode16_scalars. exact H. Qed.

Lemma encode_chars_ok e text out' :
  valid_text e text -> incl out' (map fst (view_of e text)) ->
  valid_text e (encode_chars e out') /\ map fst (view_of e (encode_chars e out')) = out'.
Proof.
  intros Hv Hin. destruct e.
  - split; [exact I | apply view_fst_8].
  - assert (Hs : Forall scalar out').
    { apply Forall_forall. intros c Hc.
      pose proof (decode16_scalars text Hv) as F. rewrite Forall_forall in F. apply F, Hin, Hc. }
    cbn [encode_chars valid_text view_of]. split; [apply encode_all_u16; exact Hs|].
    rewrite (decode16_encode_all out' Hs), map_map. cbn [fst]. apply map_id.
  - split; [exact I | apply view_fst_32].
Qed.

(* ================================================================== *)
(* 2. a well-formed text cut on character boundaries *)

Lemma flat_encode_length d :
  Forall (fun ch : N * nat => snd ch = char_len U16 (fst ch) /\ 0 < snd ch) d ->
  length (flat_map encode_utf16 (map fst d)) = slen d.
Proof.
  induction 1 as [|[c l] d [Hl _] _ IH]; [reflexivity|].
  cbn [map fst flat_map]. rewrite app_length, IH, slen_cons, encode_utf16_length.
  cbn [fst snd char_len] in Hl. lia.
Qed.

Lemma In_firstn {A} (x : A) n : forall l, In x (firstn n l) -> In x l.
Proof.
  induction n as [|n IH]; intros [|y l] H; cbn [firstn] in H; try contradiction.
  destruct H as [->|H]; [left; reflexivity | right; apply IH, H].
Qed.

Lemma In_skipn {A} (x : A) n : forall l, In x (skipn n l) -> In x l.
Proof.
  induction n as [|n IH]; intros [|y l] H; cbn [skipn] in H; try assumption.
  right. apply IH, H.
Qed.

Lemma In_sub {A} (x : A) l i j : In x (sub l i j) -> In x l.
Proof. intros H. unfold sub in H. eapply In_skipn, In_firstn, H. Qed.

Lemma Forall_sub {A} (P : A -> Prop) (l : list A) i j : Forall P l -> Forall P (sub l i j).
Proof.
  intros H. unfold sub. apply Forall_forall. intros x Hx.
  rewrite Forall_forall in H. apply H. fold (sub l i j) in Hx. eapply In_sub, Hx.
Qed.

Lemma sub_sub_fst (d : list (N * nat)) i j : map fst (sub d i j) = sub (map fst d) i j.
Proof. symmetry. apply sub_map. Qed.

Lemma wf_subrange site e text i j subt :
  valid_text e text -> well_formed e text -> i <= j -> j <= length (view_of e text) ->
  t_subrange site e text (ustart (map snd (view_of e text)) i) (ustart (map snd (view_of e text)) j) = Ok subt ->
  view_of e subt = sub (view_of e text) i j ->
  subt = encode_chars e (map fst (view_of e subt)).
Proof.
  intros Hv Hwf Hij Hj Hsub Hview. destruct e.
  - cbn [encode_chars]. symmetry. apply view_fst_8.
  - cbn [encode_chars view_of valid_text] in *. unfold well_formed in Hwf. cbn [encode_chars view_of] in Hwf.
    set (d := decode16 text) in *.
    pose proof (decode16_char_len text Hv) as HF. fold d in HF.
    unfold ustart in Hsub. rewrite !total_firstn_slen in Hsub.
    cbn [t_subrange] in Hsub. unfold slice in Hsub.
    destruct ((slen (firstn i d) <=? slen (firstn j d)) && (slen (firstn j d) <=? length text))%bool;
      [|discriminate].
    injection Hsub as <-. rewrite Hview.
    pose proof (split_sub d i j Hij) as Hd.
    assert (Ht : text = flat_map encode_utf16 (map fst (firstn i d))
                        ++ flat_map encode_utf16 (map fst (sub d i j))
                        ++ flat_map encode_utf16 (map fst (skipn j d))).
    { rewrite <- Hwf at 1. rewrite Hd at 1. rewrite !map_app, !flat_map_app. reflexivity. }
    assert (L1 : length (flat_map encode_utf16 (map fst (firstn i d))) = slen (firstn i d)).
    { apply flat_encode_length. apply Forall_forall. intros x Hx. rewrite Forall_forall in HF.
      apply HF. eapply In_firstn, Hx. }
    assert (L2 : length (flat_map encode_utf16 (map fst (sub d i j))) = slen (sub d i j)).
    { apply flat_encode_length, Forall_sub, HF. }
    assert (Hb : slen (firstn j d) = slen (firstn i d) + slen (sub d i j))
      by (apply slen_firstn_split; exact Hij).
    rewrite Ht. rewrite la_skipn_app_exact by (symmetry; exact L1).
    apply la_firstn_app_exact. rewrite L2. lia.
  - cbn [encode_chars]. symmetry. apply view_fst_32.
Qed.

(* ================================================================== *)
(* 3. the readers used by emit_runs *)

Lemma t_chars_view e t : valid_text e t -> t_chars e t = map fst (view_of e t).
Proof.
  intros Hv. destruct (view_of_proved e t Hv) as (_ & _ & H & _). exact H.
Qed.

Lemma t_chars_rev_view e t : valid_text e t -> t_chars_rev e t = Ok (rev (map fst (view_of e t))).
Proof.
  intros Hv. destruct e.
  - cbn [t_chars_rev]. rewrite view_fst_8. reflexivity.
  - cbn [t_chars_rev view_of valid_text] in *.
    destruct (utf16_text_access t Hv) as (_ & _ & _ & _ & H & _). exact H.
  - cbn [t_chars_rev]. rewrite view_fst_32. reflexivity.
Qed.

(* ================================================================== *)
(* 4. all_runs_ltr / emit_runs on expansions *)

Lemma existsb_repeat {A} (f : A -> bool) x n : 0 < n -> existsb f (repeat x n) = f x.
Proof.
  induction n as [|n IH]; intros H; [lia|].
  cbn [repeat existsb]. destruct n as [|n]; [cbn [repeat existsb]; apply Bool.orb_false_r|].
  rewrite IH by lia. apply Bool.orb_diag.
Qed.

Lemma existsb_expand {A} (f : A -> bool) lens : forall v,
  allpos lens -> length lens = length v -> existsb f (expand lens v) = existsb f v.
Proof.
  induction lens as [|l lens IH]; intros [|x v] P E; cbn [length] in E; try discriminate; [reflexivity|].
  inversion P as [|a b Hl P']; subst a b.
  rewrite la_expand_cons, existsb_app, existsb_repeat by exact Hl.
  cbn [existsb]. rewrite IH by (assumption || lia). reflexivity.
Qed.

Lemma allpos_sub lens i j : allpos lens -> allpos (sub lens i j).
Proof. apply Forall_sub. Qed.

Section Emit.
Variable e : enc.
Variable text : list N.
Hypothesis Hvalid : valid_text e text.
Let chars := view_of e text.
Let cps := map fst chars.
Let lens := map snd chars.
Let k := length chars.

Variable lv : list nat.
Hypothesis Elv : length lv = k.

Lemma lens_allpos : allpos lens.
Proof. apply ll_view_lens_pos. exact Hvalid. Qed.

Lemma lens_len : length lens = length lv.
Proof. unfold lens. rewrite map_length. symmetry. exact Elv. Qed.

Lemma cps_len : length cps = k.
Proof. unfold cps. apply map_length. Qed.

Lemma all_runs_ltr_expand runs : forall b,
  all_runs_ltr lv runs = Ok b ->
  all_runs_ltr (expand lens lv) (map (urun lens) runs) = Ok b.
Proof.
  induction runs as [|r rest IH]; intros b H; cbn [all_runs_ltr map] in *; [exact H|].
  apply bind_ok in H as (l & Hl & H).
  change (fst (urun lens r)) with (ustart lens (fst r)).
  rewrite (get_expand_start 891 lens lv _ _ lens_allpos lens_len Hl). cbn [bind].
  destruct (is_ltr l); [apply IH; exact H | exact H].
Qed.

(* the sub-text of a range of whole characters *)
Lemma subrange_chars site s t sub' :
  t_subrange site U32 cps s t = Ok sub' ->
  s <= t /\ t <= k /\ sub' = sub cps s t /\
  exists subt,
    t_subrange site e text (ustart lens s) (ustart lens t) = Ok subt /\
    view_of e subt = sub chars s t /\ valid_text e subt.
Proof.
  intros H. cbn [t_subrange] in H.
  destruct (la_slice_length _ _ _ _ _ H) as (_ & Hst & Ht). rewrite cps_len in Ht.
  unfold slice in H.
  destruct ((s <=? t) && (t <=? length cps))%bool; [|discriminate]. injection H as <-.
  split; [exact Hst|]. split; [exact Ht|]. split; [reflexivity|].
  destruct (subrange_view_proved site e text s t Hvalid Hst Ht) as (subt & Hsub & Hview & Hvs).
  cbv zeta in Hsub. exists subt. split; [exact Hsub | split; [exact Hview | exact Hvs]].
Qed.

Lemma sub_cps s t : map fst (sub chars s t) = sub cps s t.
Proof. apply sub_sub_fst. Qed.

Lemma emit_runs_expand runs : forall out',
  emit_runs U32 false cps lv runs = Ok out' ->
  emit_runs e false text (expand lens lv) (map (urun lens) runs) = Ok (encode_chars e out') /\
  incl out' cps.
Proof.
  induction runs as [|r rest IH]; intros out' H; cbn [emit_runs map] in *.
  - injection H as <-. split; [destruct e; reflexivity | intros x []].
  - apply bind_ok in H as (l & Hl & H).
    apply bind_ok in H as (sub' & Hsub & H).
    apply bind_ok in H as (o & Ho & H).
    apply bind_ok in H as (rest' & Hrest & H). injection H as <-.
    destruct (IH rest' Hrest) as [IH1 IH2].
    change (fst (urun lens r)) with (ustart lens (fst r)).
    change (snd (urun lens r)) with (ustart lens (snd r)).
    rewrite (get_expand_start 897 lens lv _ _ lens_allpos lens_len Hl). cbn [bind].
    destruct (subrange_chars 898 _ _ _ Hsub) as (Hst & Ht & -> & subt & Hs & Hview & Hvs).
    rewrite Hs. cbn [bind].
    assert (Hfst : map fst (view_of e subt) = sub cps (fst r) (snd r)).
    { rewrite Hview. apply sub_cps. }
    assert (Hinc : incl (sub cps (fst r) (snd r)) cps).
    { intros x Hx. eapply In_sub, Hx. }
    destruct (is_rtl l).
    + cbn [t_chars_rev bind] in Ho. injection Ho as <-.
      rewrite (t_chars_rev_view e subt Hvs), Hfst. cbn [bind].
      rewrite IH1. cbn [bind]. split.
      * rewrite encode_chars_app. destruct e; reflexivity.
      * apply incl_app; [|exact IH2]. intros x Hx. apply Hinc, in_rev, Hx.
    + injection Ho as <-. cbn [bind]. rewrite IH1. cbn [bind]. split.
      * rewrite encode_chars_app. f_equal. f_equal.
        destruct e; cbn [encode_chars].
        -- rewrite <- Hfst. symmetry. apply view_fst_8.
        -- rewrite (t_chars_view U16 subt Hvs), Hfst. reflexivity.
        -- rewrite <- Hfst. symmetry. apply view_fst_32.
      * apply incl_app; [exact Hinc | exact IH2].
Qed.

End Emit.

(* ================================================================== *)
(* 5. reorder_line *)

Section Main.
Variable e : enc.
Variable text : list N.
Hypothesis Hvalid : valid_text e text.
Let chars := view_of e text.
Let cps := map fst chars.
Let lens := map snd chars.
Let k := length chars.

(* the raw sub-range exits *)
Lemma raw_exit site i j out' :
  t_subrange site U32 cps i j = Ok out' ->
  exists out,
    t_subrange site e text (ustart lens i) (ustart lens j) = Ok out /\
    valid_text e out /\ map fst (view_of e out) = out' /\
    (well_formed e text -> out = encode_chars e out').
Proof.
  intros H.
  destruct (subrange_chars e text Hvalid site i j out' H) as (Hij & Hj & -> & subt & Hs & Hview & Hvs).
  exists subt. split; [exact Hs|]. split; [exact Hvs|].
  assert (Hfst : map fst (view_of e subt) = sub (map fst (view_of e text)) i j).
  { rewrite Hview. apply sub_sub_fst. }
  split; [exact Hfst|].
  intros Hwf. rewrite <- Hfst.
  apply (wf_subrange site e text i j subt Hvalid Hwf Hij Hj Hs Hview).
Qed.

Lemma reorder_line_core_expand lv i j runs out' :
  length lv = k ->
  reorder_line_core U32 false cps (i, j) lv runs = Ok out' ->
  exists out,
    reorder_line_core e false text (ustart lens i, ustart lens j) (expand lens lv) (map (urun lens) runs) = Ok out /\
    valid_text e out /\ map fst (view_of e out) = out' /\
    (well_formed e text -> out = encode_chars e out').
Proof.
  intros Elv H. unfold reorder_line_core in *.
  apply bind_ok in H as (b & Hb & H).
  pose proof (all_runs_ltr_expand e text Hvalid lv Elv runs b Hb) as A. fold chars lens in A.
  rewrite A. cbn [bind fst snd] in *.
  destruct b.
  - apply raw_exit. exact H.
  - destruct (emit_runs_expand e text Hvalid lv Elv runs out' H) as [E1 E2]. fold chars lens in E1.
    exists (encode_chars e out'). split; [exact E1|].
    destruct (encode_chars_ok e text out' Hvalid E2) as [V1 V2].
    split; [exact V1|]. split; [exact V2|]. intros _. reflexivity.
Qed.

Lemma reorder_line_gen cls lv pl i j out' :
  length cls = k -> length lv = k -> i < j -> j <= k ->
  reorder_line U32 false cps cls lv pl (i, j) = Ok out' ->
  exists out,
    reorder_line e false text (expand lens cls) (expand lens lv) pl (ustart lens i, ustart lens j) = Ok out /\
    valid_text e out /\ map fst (view_of e out) = out' /\
    (well_formed e text -> out = encode_chars e out').
Proof.
  intros Hc Hl Hij Hj H. unfold reorder_line in *. cbn [fst snd orb] in *.
  assert (Hk : length lens = k) by (unfold lens; apply map_length).
  apply bind_ok in H as (ll & Hll & H).
  rewrite (la_slice_expand 595 lens lv i j) by lia. cbn [bind].
  unfold slice in Hll.
  destruct ((i <=? j) && (j <=? length lv))%bool; [|discriminate]. injection Hll as <-.
  fold (sub lens i j) (sub lv i j) in *.
  assert (Hex : levels_has_rtl (expand (sub lens i j) (sub lv i j)) = levels_has_rtl (sub lv i j)).
  { unfold levels_has_rtl. apply existsb_expand.
    - apply allpos_sub, ll_view_lens_pos, Hvalid.
    - rewrite !sub_length by lia. reflexivity. }
  rewrite Hex.
  destruct (is_ltr pl && negb (levels_has_rtl (sub lv i j)))%bool.
  - apply raw_exit. exact H.
  - apply bind_ok in H as (lv1 & H1 & H).
    apply bind_ok in H as ([lv2 runs] & H2 & H).
    assert (Hcps : length cps = k) by (unfold cps; apply map_length).
    assert (Elv1 : length lv1 = k).
    { destruct (cl_reordered_levels cps cls lv pl i j) as [C _]; try lia.
      rewrite C in H1. injection H1 as <-. apply lline_length; lia. }
    destruct (ll_reordered_levels_proved e text Hvalid cls lv pl i j lv1 Hc Hl ltac:(lia) Hj H1) as [R _].
    fold chars lens in R. rewrite R. cbn [bind].
    assert (lv2 = lv1).
    { unfold visual_runs_for_line in H2. apply bind_ok in H2 as (rr & _ & H2). injection H2 as <- _. reflexivity. }
    subst lv2.
    pose proof (ll_visual_runs_main e text Hvalid lv1 i j runs Elv1 Hij Hj H2) as V.
    fold chars lens in V. rewrite V. cbn [bind].
    apply reorder_line_core_expand; assumption.
Qed.

End Main.

Lemma ll_reorder_line2_proof : LL_reorder_line2.
Proof.
  intros e text Hvalid cls lv pl i j out' Hc Hl Hij Hj H.
  apply (reorder_line_gen e text Hvalid cls lv pl i j out' Hc Hl Hij Hj H).
Qed.

Lemma ll_reorder_line_proof : LL_reorder_line.
Proof.
  intros e text Hvalid cls lv pl i j out' Hc Hl Hij Hj Hwf H.
  destruct (reorder_line_gen e text Hvalid cls lv pl i j out' Hc Hl Hij Hj H) as (out & R & _ & _ & W).
  rewrite R. f_equal. apply W, Hwf.
Qed.
