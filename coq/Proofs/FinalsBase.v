(* Proofs/FinalsBase.v — common infrastructure for the FINAL-FORM property theorems (Stmts5.v):
   the model's observation of a valid case, written through the character-level (U32) analysis.
   1. L1 depends on classes only through their L1 group (FSI/LRI/RLI are interchangeable);
   2. the classes stored by compute_initial_info differ from the data source's only inside a group;
   3. paragraphs tile the text: every line start lies in a paragraph;
   4. the two constructors on a valid case: expansions of the character-level results;
   5. projections of [model_obs] and the fields of [model_line] on a valid line. *)
From BidiVerif Require Import Base ConstsGen TablesGen ModelText ModelResolve ModelLine Spec Obs Judge
     Stmts Stmts2 Stmts3 Stmts4 Stmts5 Stmts6.
From BidiVerif.Proofs Require Import L1 TextView LIAssemble TotalAssemble CLReorderLine LLLevels.
From BidiVerif.Props Require Import C04 C05 TextView LengthIndependence Totality.
From Coq Require Import Lia.

(* ================================================================== *)
(* 1. L1 and the class groups *)

Lemma flags_kgroup : forall cls cls', map kgroup cls = map kgroup cls' ->
  l1_reset_flags cls = l1_reset_flags cls'.
Proof.
  induction cls as [|c r IH]; intros [|c' r'] H; cbn [map] in H; try discriminate; [reflexivity|].
  injection H as Hk Ht. rewrite !l1_reset_flags_cons, Hk, (IH _ Ht). reflexivity.
Qed.

Lemma apply_kgroup pl : forall cls cls' fl lev prev, map kgroup cls = map kgroup cls' ->
  l1_apply pl prev cls fl lev = l1_apply pl prev cls' fl lev.
Proof.
  induction cls as [|c r IH]; intros [|c' r'] fl lev prev H; cbn [map] in H; try discriminate; [reflexivity|].
  injection H as Hk Ht. destruct fl as [|f fr], lev as [|l lr]; cbn [l1_apply]; try reflexivity.
  rewrite !is_removed_kgroup, Hk. f_equal. apply IH. exact Ht.
Qed.

Lemma l1_kgroup pl cls cls' lev : map kgroup cls = map kgroup cls' -> l1 pl cls lev = l1 pl cls' lev.
Proof.
  intros H. unfold l1. rewrite (flags_kgroup cls cls' H). apply apply_kgroup. exact H.
Qed.

(* ================================================================== *)
(* 2. compute_initial_info at character level keeps every class inside its group *)

Lemma upd_opt_kgroup : forall (l : list bclass) i x y l',
  upd_opt l i x = Some l' -> nth_error l i = Some y -> kgroup y = kgroup x ->
  map kgroup l' = map kgroup l.
Proof.
  induction l as [|h t IH]; intros [|i] x y l' H Hn Hk; cbn [upd_opt] in H; try discriminate.
  - injection H as <-. cbn [nth_error] in Hn. injection Hn as ->. cbn [map]. rewrite Hk. reflexivity.
  - destruct (upd_opt t i x) as [t'|] eqn:E; [|discriminate]. injection H as <-.
    cbn [nth_error] in Hn. cbn [map]. f_equal. exact (IH i x y t' E Hn Hk).
Qed.

Lemma fb_bind_ok {A B} (r : res A) (f : A -> res B) (y : B) :
  (x <- r ;; f x) = Ok y -> exists a, r = Ok a /\ f a = Ok y.
Proof. destruct r as [a|s]; cbn [bind]; intros H; [exists a; auto | discriminate]. Qed.

Lemma ii_step_kgroup ds split dl st i c st' :
  ii_step U32 ds split dl st (i, c) = Ok st' ->
  map kgroup (ii_classes st') = map kgroup (ii_classes st) ++ [kgroup (ds_class ds c)].
Proof.
  unfold ii_step. cbn [char_len]. cbn [repeat].
  assert (E0 : map kgroup (ii_classes st ++ [ds_class ds c])
               = map kgroup (ii_classes st) ++ [kgroup (ds_class ds c)])
    by (rewrite map_app; reflexivity).
  assert (Hstrong : forall X,
    (kgroup X = 1) ->
    match ii_stack st with
    | start :: _ =>
      k <- get 383 (ii_classes st ++ [ds_class ds c]) start ;;
      classes' <- (if k =c FSI
                   then write_fsi (ii_classes st ++ [ds_class ds c]) start (range 0 1) X
                   else Ok (ii_classes st ++ [ds_class ds c])) ;;
      Ok classes'
    | [] => Ok (ii_classes st ++ [ds_class ds c])
    end = Ok (ii_classes st') ->
    map kgroup (ii_classes st') = map kgroup (ii_classes st) ++ [kgroup (ds_class ds c)]).
  { intros X HX H. destruct (ii_stack st) as [|start rest].
    - injection H as <-. exact E0.
    - apply fb_bind_ok in H as (k & Hg & H). apply fb_bind_ok in H as (cl' & Hw & H).
      injection H as <-. destruct (k =c FSI) eqn:Ek.
      + apply ceq_eq in Ek. subst k. cbn [range seq Nat.sub write_fsi] in Hw.
        apply fb_bind_ok in Hw as (cl2 & Hu & Hw). injection Hw as <-.
        unfold upd in Hu. destruct (upd_opt _ _ _) as [l2|] eqn:Eu; [|discriminate].
        injection Hu as <-. rewrite Nat.add_0_r in Eu.
        unfold get in Hg. destruct (nth_error _ start) as [y|] eqn:En; [|discriminate].
        injection Hg as ->.
        rewrite (upd_opt_kgroup _ _ _ FSI _ Eu En) by (rewrite HX; reflexivity). exact E0.
      + injection Hw as <-. exact E0. }
  destruct (ds_class ds c) eqn:Ec; intros H;
    try (injection H as <-; cbn [ii_classes]; exact E0);
    try (destruct split; injection H as <-; cbn [ii_classes]; exact E0).
  all: cbn [ii_stack ii_classes] in H.
  all: match type of Ec with
       | _ = L => apply (Hstrong LRI eq_refl)
       | _ => apply (Hstrong RLI eq_refl)
       end.
  all: (destruct (ii_stack st); [injection H as <-; reflexivity|]);
       apply fb_bind_ok in H as (k & Hg & H); apply fb_bind_ok in H as (cl' & Hw & H);
       injection H as <-; cbn [ii_classes]; rewrite Hg; cbn [bind]; cbn [ceq bclass_beq] in Hw;
       rewrite Hw; reflexivity.
Qed.

Lemma ii_fold_kgroup ds split dl : forall l st st',
  ii_fold U32 ds split dl st l = Ok st' ->
  map kgroup (ii_classes st') = map kgroup (ii_classes st) ++ map (fun ic => kgroup (ds_class ds (snd ic))) l.
Proof.
  induction l as [|[i c] r IH]; intros st st' H; cbn [ii_fold] in H.
  - injection H as <-. cbn [map]. rewrite app_nil_r. reflexivity.
  - apply fb_bind_ok in H as (st1 & H1 & H2).
    rewrite (IH _ _ H2), (ii_step_kgroup _ _ _ _ _ _ _ H1), <- app_assoc. reflexivity.
Qed.

Lemma initial_info_kgroup ds cps d split ii :
  compute_initial_info U32 ds cps d split = Ok ii ->
  map kgroup (in_classes ii) = map kgroup (map (ds_class ds) cps).
Proof.
  unfold compute_initial_info. intros H. apply fb_bind_ok in H as (st & Hf & H).
  apply ii_fold_kgroup in Hf. cbn [ii_classes map app t_char_indices] in Hf.
  destruct (split && _); injection H as <-; cbn [in_classes]; rewrite Hf;
    clear; rewrite map_map;
    (assert (G : forall n, map (fun ic : nat * N => kgroup (ds_class ds (snd ic))) (combine (seq n (length cps)) cps)
                           = map (fun x => kgroup (ds_class ds x)) cps)
      by (induction cps as [|c r IH]; intros n; cbn [length seq combine map snd]; [reflexivity | rewrite IH; reflexivity]));
    apply G.
Qed.

(* ================================================================== *)
(* 3. the paragraphs tile the text *)

Lemma ptile_cover ps : forall a b u, ptile a b ps -> a <= u < b ->
  exists p, In p ps /\ p_start p <= u < p_end p.
Proof.
  induction ps as [|p r IH]; intros a b u H Hu; cbn [ptile] in H; [lia|].
  destruct H as (H1 & H2 & H3).
  destruct (Nat.lt_ge_cases u (p_end p)) as [Hlt|Hge].
  - exists p. split; [left; reflexivity | lia].
  - destruct (IH (p_end p) b u H3 ltac:(lia)) as (q & Hq & Hr).
    exists q. split; [right; exact Hq | exact Hr].
Qed.

Lemma ptile_in ps : forall a b p, ptile a b ps -> In p ps -> a <= p_start p /\ p_start p <= p_end p /\ p_end p <= b.
Proof.
  induction ps as [|q r IH]; intros a b p H Hin; [contradiction|].
  cbn [ptile] in H. destruct H as (H1 & H2 & H3). pose proof (ptile_le _ _ _ H3) as Hle.
  destruct Hin as [->|Hin]; [lia|].
  destruct (IH _ _ _ H3 Hin) as (A & B & C). lia.
Qed.

Lemma ustart_lt lens : Forall (fun n => 0 < n) lens ->
  forall i j, i < j -> j <= length lens -> ustart lens i < ustart lens j.
Proof.
  induction 1 as [|l lens Hl HF IH]; intros i j Hij Hj; cbn [length] in Hj; [lia|].
  destruct j as [|j]; [lia|]. destruct i as [|i].
  - rewrite la_ustart_0, la_ustart_S. lia.
  - rewrite !la_ustart_S. specialize (IH i j). lia.
Qed.

Lemma find_line_para lens paras i (b : nat) :
  Forall (fun n => 0 < n) lens -> ptile 0 (length lens) paras -> i < length lens ->
  exists p, In p paras /\
    find (fun p => (p_start p <=? fst (ustart lens i, b)) && (fst (ustart lens i, b) <? p_end p))
         (map (upara lens) paras) = Some (upara lens p).
Proof.
  intros Hpos Ht Hi. cbn [fst].
  destruct (ptile_cover paras 0 (length lens) i Ht ltac:(lia)) as (p & Hp & Hr).
  destruct (find _ (map (upara lens) paras)) as [q|] eqn:Ef.
  - apply find_some in Ef as [Hin _]. apply in_map_iff in Hin as (p1 & <- & Hin).
    exists p1. split; [exact Hin | reflexivity].
  - exfalso. pose proof (find_none _ _ Ef (upara lens p) (in_map _ _ _ Hp)) as Hn.
    cbn [upara p_start p_end] in Hn. apply andb_false_iff in Hn as [Hn|Hn].
    + apply Nat.leb_gt in Hn. pose proof (la_ustart_le lens (p_start p) i ltac:(lia)). lia.
    + apply Nat.ltb_ge in Hn.
      destruct (ptile_in _ _ _ _ Ht Hp) as (_ & _ & Hpe).
      pose proof (ustart_lt lens Hpos i (p_end p) ltac:(lia) Hpe). lia.
Qed.

(* ================================================================== *)
(* 4. the two constructors *)

Definition char_analysis (ds : datasource) (cps : list N) (d : option nat)
           (b' : bidi_info) (p' : para_bidi_info) : Prop :=
  bidi_info_new U32 ds cps d = Ok b' /\
  length (bi_classes b') = length cps /\ length (bi_levels b') = length cps /\
  Forall (fun l => l <= 126) (bi_levels b') /\
  ptile 0 (length cps) (bi_paras b') /\ Forall (fun p => p_level p <= 1) (bi_paras b') /\
  map kgroup (bi_classes b') = map kgroup (map (ds_class ds) cps) /\
  levels_bounded (bi_paras b') (bi_levels b') = true /\
  para_bidi_info_new U32 ds cps d = Ok p' /\
  length (pb_classes p') = length cps /\ length (pb_levels p') = length cps /\
  Forall (fun l => pb_level p' <= l /\ l <= 126) (pb_levels p') /\ pb_level p' <= 1 /\
  map kgroup (pb_classes p') = map kgroup (map (ds_class ds) cps).

Lemma char_analysis_exists ds cps d : dir3 d -> exists b' p', char_analysis ds cps d b' p'.
Proof.
  intros Hd.
  destruct (constructors_total_char ds cps d Hd) as [(b & Eb & Ll & Lc & Bb) (p & Ep & Pl & Pc & Pb)].
  exists b, p. unfold char_analysis.
  destruct (initial_info_32 ds true d Hd cps) as (ii & Ei & _ & _ & Ht & Hlv & _).
  destruct (initial_info_32 ds false d Hd cps) as (ii2 & Ei2 & _ & Hl2 & _).
  pose proof Eb as Eb2. unfold bidi_info_new, bidi_info_new_gen in Eb2. rewrite Ei in Eb2.
  cbn [bind] in Eb2. apply fb_bind_ok in Eb2 as (lvs & _ & Eb2). injection Eb2 as Eb2.
  pose proof Ep as Ep2. unfold para_bidi_info_new, para_bidi_info_new_gen in Ep2. rewrite Ei2 in Ep2.
  cbn [bind] in Ep2. apply fb_bind_ok in Ep2 as (lvs2 & _ & Ep2). injection Ep2 as Ep2.
  assert (Hparas : bi_paras b = in_paras ii) by (rewrite <- Eb2; reflexivity).
  assert (Hcls : bi_classes b = in_classes ii) by (rewrite <- Eb2; reflexivity).
  assert (Hpcls : pb_classes p = in_classes ii2) by (rewrite <- Ep2; reflexivity).
  assert (Hplev : pb_level p = in_level ii2) by (rewrite <- Ep2; reflexivity).
  specialize (Ht eq_refl). rewrite <- Hparas in Ht, Hlv.
  split; [exact Eb|]. split; [exact Lc|]. split; [exact Ll|].
  split.
  { apply Forall_forall. intros l Hin. apply In_nth_error in Hin as (u & Hu).
    assert (Hul : u < length cps) by (rewrite <- Ll; apply nth_error_Some; congruence).
    destruct (ptile_cover _ _ _ u Ht ltac:(lia)) as (q & Hq & Hr).
    apply levels_bounded_iff in Bb. unfold bounded_prop in Bb. rewrite Forall_forall in Bb.
    destruct (Bb q Hq u Hr) as (l' & Hn & _ & H126). congruence. }
  split; [exact Ht|]. split; [exact Hlv|].
  split; [rewrite Hcls; exact (initial_info_kgroup _ _ _ _ _ Ei)|].
  split; [exact Bb|]. split; [exact Ep|]. split; [exact Pc|]. split; [exact Pl|].
  split; [exact Pb|]. split; [rewrite Hplev; exact Hl2|].
  rewrite Hpcls. exact (initial_info_kgroup _ _ _ _ _ Ei2).
Qed.

Lemma case_chars_view c : case_chars c = view_of (tc_enc c) (tc_text c).
Proof. unfold case_chars, view_of. destruct (tc_enc c); reflexivity. Qed.

(* the analysis of a valid case *)
Definition xbi (lens : list nat) (b' : bidi_info) : bidi_info :=
  {| bi_classes := expand lens (bi_classes b'); bi_levels := expand lens (bi_levels b');
     bi_paras := map (upara lens) (bi_paras b') |}.
Definition xpi (lens : list nat) (p' : para_bidi_info) : para_bidi_info :=
  {| pb_classes := expand lens (pb_classes p'); pb_levels := expand lens (pb_levels p');
     pb_level := pb_level p'; pb_pure := pb_pure p' |}.

Lemma case_analysis c : valid_case c ->
  let chars := view_of (tc_enc c) (tc_text c) in
  let lens := map snd chars in
  let cps := map fst chars in
  exists b' p',
    char_analysis (tc_ds c) cps (tc_dir c) b' p' /\
    bidi_info_new (tc_enc c) (tc_ds c) (tc_text c) (tc_dir c) = Ok (xbi lens b') /\
    para_bidi_info_new (tc_enc c) (tc_ds c) (tc_text c) (tc_dir c) = Ok (xpi lens p').
Proof.
  intros (_ & Hv & Hf & Hd & _) chars lens cps. rewrite case_chars_view in Hf.
  destruct (char_analysis_exists (tc_ds c) cps (tc_dir c) Hd) as (b' & p' & CA).
  exists b', p'. split; [exact CA|].
  destruct CA as (Eb & _ & _ & _ & _ & _ & _ & _ & Ep & _).
  split.
  - exact (li_bidi_info _ _ Hv _ _ _ Hf Eb).
  - exact (li_para_bidi_info _ _ Hv _ _ _ Hf Ep).
Qed.

(* ================================================================== *)
(* 5. projections of the observation *)

Section ObsProj.
Variable c : tcase.
Let e := tc_enc c.
Let ds := tc_ds c.
Let text := tc_text c.
Let d := tc_dir c.

Lemma obs_ii : to_ii (model_obs false c)
  = (ii <- compute_initial_info e ds text d true ;; Ok (in_classes ii, in_paras ii)).
Proof. reflexivity. Qed.
Lemma obs_bi : to_bi (model_obs false c) = bidi_info_new e ds text d.
Proof. reflexivity. Qed.
Lemma obs_pi : to_pi (model_obs false c) = para_bidi_info_new e ds text d.
Proof. reflexivity. Qed.

Lemma obs_bi_lines b : bidi_info_new e ds text d = Ok b ->
  to_bi_lines (model_obs false c) =
  map (fun line => model_line false e text (bi_classes b) (bi_levels b)
                              (p <- para_of_line (bi_paras b) line ;; Ok (p_level p)) line) (tc_lines c).
Proof.
  intros H. unfold model_obs. cbn [to_bi_lines]. unfold bidi_info_new in H.
  fold e ds text d. rewrite H. reflexivity.
Qed.

Lemma obs_pi_lines p : para_bidi_info_new e ds text d = Ok p ->
  to_pi_lines (model_obs false c) =
  map (model_line false e text (pb_classes p) (pb_levels p) (Ok (pb_level p))) (tc_lines c).
Proof.
  intros H. unfold model_obs. cbn [to_pi_lines]. unfold para_bidi_info_new in H.
  fold e ds text d. rewrite H. reflexivity.
Qed.

Lemma obs_sub b : bidi_info_new e ds text d = Ok b ->
  to_sub (model_obs false c) =
  map (fun p => sub <- t_subrange 4 e text (p_start p) (p_end p) ;; bidi_info_new e ds sub d) (bi_paras b).
Proof.
  intros H. unfold model_obs. cbn [to_sub]. unfold bidi_info_new in H.
  fold e ds text d. rewrite H. reflexivity.
Qed.

Lemma obs_bi_has_rtl : to_bi_has_rtl (model_obs false c) = (b <- bidi_info_new e ds text d ;; Ok (bidi_info_has_rtl b)).
Proof. reflexivity. Qed.
Lemma obs_bi_dirs : to_bi_dirs (model_obs false c)
  = (b <- bidi_info_new e ds text d ;; map_res (paragraph_direction (bi_levels b)) (bi_paras b)).
Proof. reflexivity. Qed.
Lemma obs_bi_level_at : to_bi_level_at (model_obs false c)
  = (b <- bidi_info_new e ds text d ;;
     map_res (fun p => map_res (paragraph_level_at (bi_levels b) p) (range 0 (p_end p - p_start p))) (bi_paras b)).
Proof. reflexivity. Qed.
Lemma obs_pi_has_rtl : to_pi_has_rtl (model_obs false c)
  = (p <- para_bidi_info_new e ds text d ;; Ok (para_bidi_info_has_rtl false p)).
Proof. reflexivity. Qed.
Lemma obs_pi_dir : to_pi_dir (model_obs false c)
  = (p <- para_bidi_info_new e ds text d ;; Ok (para_direction (pb_levels p))).
Proof. reflexivity. Qed.
Lemma obs_bd : to_bd (model_obs false c) = Ok (get_base_direction e ds false text).
Proof. reflexivity. Qed.
Lemma obs_bdf : to_bdf (model_obs false c) = Ok (get_base_direction e ds true text).
Proof. reflexivity. Qed.
End ObsProj.

Lemma fb_Forall_firstn {A} (P : A -> Prop) n : forall l, Forall P l -> Forall P (firstn n l).
Proof.
  induction n as [|n IH]; intros [|x l] H; cbn [firstn]; try constructor.
  - inversion H; assumption.
  - apply IH. inversion H; assumption.
Qed.
Lemma fb_Forall_skipn {A} (P : A -> Prop) n : forall l, Forall P l -> Forall P (skipn n l).
Proof.
  induction n as [|n IH]; intros [|x l] H; cbn [skipn]; try assumption.
  apply IH. inversion H; assumption.
Qed.

(* ================================================================== *)
(* 6. one valid line: the fields of [model_line] *)

Section Line.
Variable e : enc.
Variable text : list N.
Hypothesis Hvalid : valid_text e text.
Let chars := view_of e text.
Let lens := map snd chars.
Let k := length chars.
Variables (cls : list bclass) (lv : list nat) (pl i j : nat).
Hypothesis Hc : length cls = k.
Hypothesis Hl : length lv = k.
Hypothesis Hij : i < j.
Hypothesis Hj : j <= k.
Hypothesis Hlv : Forall (fun l => l <= 126) lv.
Hypothesis Hpl : pl <= 126.

Definition the_line : nat * nat := (ustart lens i, ustart lens j).
Definition the_L : list nat := lline pl cls lv i j.
Definition the_LV : list nat := expand lens the_L.
Definition the_lo : line_obs :=
  model_line false e text (expand lens cls) (expand lens lv) (Ok pl) the_line.

Lemma fl_lens_length : length lens = k.
Proof. unfold lens. apply map_length. Qed.

Lemma fl_lens_pos : Forall (fun n => 0 < n) lens.
Proof. apply TotalAssemble.view_lens_pos. exact Hvalid. Qed.

Lemma fl_L_length : length the_L = k.
Proof. apply (lline_length pl cls lv i j k); try assumption; lia. Qed.

Lemma fl_LV_length : length the_LV = total lens.
Proof. unfold the_LV. apply la_expand_length. rewrite fl_L_length. exact fl_lens_length. Qed.

Lemma fl_L_bounded : Forall (fun l => l <= 126) the_L.
Proof.
  unfold the_L, lline. apply Forall_app. split; [apply fb_Forall_firstn; exact Hlv|].
  apply Forall_app. split; [|apply fb_Forall_skipn; exact Hlv].
  apply CLReorderLine.l1_Forall; [exact Hpl|]. apply CLReorderLine.Forall_sub. exact Hlv.
Qed.

Lemma fl_LV_bounded : Forall (fun l => l <= 126) the_LV.
Proof.
  apply Forall_forall. intros l Hin. apply In_expand in Hin.
  pose proof fl_L_bounded as H. rewrite Forall_forall in H. exact (H l Hin).
Qed.

Lemma fl_line_lt : ustart lens i < ustart lens j.
Proof. apply ustart_lt; [exact fl_lens_pos | exact Hij | rewrite fl_lens_length; exact Hj]. Qed.

Lemma fl_line_le : ustart lens j <= total lens.
Proof. apply la_ustart_le_total. Qed.

Lemma fl_rl : lo_rl the_lo = Ok the_LV.
Proof.
  unfold the_lo, model_line. cbn [lo_rl bind]. unfold the_line.
  apply (reordered_levels_gen e text Hvalid cls lv pl i j); try assumption; lia.
Qed.

Lemma fl_rlc : lo_rlc the_lo = Ok the_L.
Proof.
  unfold the_lo, model_line. cbn [lo_rlc bind]. unfold the_line.
  apply (per_char_gen e text Hvalid cls lv pl i j); try assumption; lia.
Qed.

Lemma fl_line : lo_line the_lo = the_line.
Proof. reflexivity. Qed.

Lemma fl_vr : exists runs,
  lo_vr the_lo = Ok (the_LV, runs) /\ lo_dvr the_lo = Ok runs /\
  runs_cover (ustart lens i) (ustart lens j) runs = true /\
  forallb (run_uniform_maximal (ustart lens i) (ustart lens j) the_LV) runs = true /\
  runs_visual_order (ustart lens i) (ustart lens j) the_LV runs
    = map (fun x => ustart lens i + x)
          (Spec.l2 (firstn (ustart lens j - ustart lens i) (skipn (ustart lens i) the_LV))).
Proof.
  destruct (C05_visual_runs the_LV (ustart lens i) (ustart lens j) fl_line_lt
              ltac:(rewrite fl_LV_length; exact fl_line_le) fl_LV_bounded)
    as (runs & H1 & H2 & H3 & H4 & H5).
  exists runs. pose proof fl_rl as R. unfold the_lo, model_line in *. cbn [lo_rl] in R.
  cbn [lo_vr lo_dvr]. rewrite R. cbn [bind]. unfold the_line. auto.
Qed.

Lemma fl_rv :
  let sl := firstn (ustart lens j - ustart lens i) (skipn (ustart lens i) the_LV) in
  lo_rv the_lo = Ok (Spec.l2 sl) /\ length (Spec.l2 sl) = length sl.
Proof.
  intros sl. pose proof fl_rl as R. unfold the_lo, model_line in *. cbn [lo_rl] in R.
  cbn [lo_rv]. rewrite R. cbn [bind]. unfold the_line. cbn [fst snd].
  pose proof fl_line_lt as H1. pose proof fl_line_le as H2. pose proof fl_LV_length as H3.
  unfold slice.
  assert (E1 : (ustart lens i <=? ustart lens j) = true) by (apply Nat.leb_le; lia).
  assert (E2 : (ustart lens j <=? length the_LV) = true) by (apply Nat.leb_le; lia).
  rewrite E1, E2. cbn [andb bind]. fold sl.
  assert (HB : Forall (fun l => l <= 126) sl).
  { unfold sl. apply fb_Forall_firstn, fb_Forall_skipn. exact fl_LV_bounded. }
  destruct (C04_reorder_visual sl HB) as (out & Ho & Hlen & _ & Heq & _).
  rewrite Ho. subst out. split; [reflexivity | exact Hlen].
Qed.
End Line.
