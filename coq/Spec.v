(* Spec.v — UAX #9 (Unicode 16, revision 50) as an executable specification, rule by rule, at
   CHARACTER granularity (no code units, no encodings).  Written from the standard's text; it is the
   transcription of the reference in DESIGN Appendix C.  Nothing here mentions the implementation.
   Characters removed by X9 get no level from the algorithm ([None]). *)
From BidiVerif Require Import Base.

Definition is_strong (k : bclass) : bool := match k with L | R | AL => true | _ => false end.
Definition is_init (k : bclass) : bool := match k with LRI | RLI | FSI => true | _ => false end.
Definition is_removed (k : bclass) : bool :=                                   (* X9 *)
  match k with RLE | LRE | RLO | LRO | PDF | BN => true | _ => false end.
Definition is_ni (k : bclass) : bool :=                                        (* NI *)
  match k with B | SS | WS | ON | FSI | LRI | RLI | PDI => true | _ => false end.
Definition is_iso_ctl (k : bclass) : bool := match k with LRI | RLI | FSI | PDI => true | _ => false end.

Definition snth {A} (l : list A) (i : nat) (d : A) : A := nth i l d.
Fixpoint setnth {A} (l : list A) (i : nat) (x : A) : list A :=
  match l, i with
  | [], _ => []
  | _ :: t, O => x :: t
  | h :: t, S j => h :: setnth t j x
  end.

(* ------------------------------------------------------------------ *)
(* BD9: the PDI matching the isolate initiator at position i *)
Fixpoint match_pdi_from (l : list bclass) (depth j : nat) : option nat :=
  match l with
  | [] => None
  | c :: t =>
    if is_init c then match_pdi_from t (S depth) (S j)
    else if c =c PDI then (if depth =? 1 then Some j else match_pdi_from t (depth - 1) (S j))
    else match_pdi_from t depth (S j)
  end.
Definition matching_pdi (cls : list bclass) (i : nat) : option nat :=
  match_pdi_from (skipn (S i) cls) 1 (S i).

(* P2: first L/R/AL in [i, hi), skipping from each isolate initiator to its matching PDI; an
   initiator without a matching PDI inside the range ends the search *)
Fixpoint first_strong_fuel (fuel : nat) (cls : list bclass) (i hi : nat) : option bclass :=
  match fuel with
  | O => None
  | S f =>
    if hi <=? i then None else
    match nth_error cls i with
    | None => None
    | Some c =>
      if is_strong c then Some c
      else if is_init c then
        match matching_pdi cls i with
        | None => None
        | Some j => if hi <=? j then None else first_strong_fuel f cls (S j) hi
        end
      else first_strong_fuel f cls (S i) hi
    end
  end.
Definition first_strong (cls : list bclass) (lo hi : nat) : option bclass :=
  first_strong_fuel (S (hi - lo)) cls lo hi.

(* P2/P3 *)
Definition para_level (cls : list bclass) (dir : option nat) : nat :=
  match dir with
  | Some d => d
  | None => match first_strong cls 0 (length cls) with
            | Some R | Some AL => 1
            | _ => 0
            end
  end.

(* X5c: how an FSI behaves, and the class it reports (C02: changes only if a strong was found) *)
Definition fsi_strong (cls : list bclass) (i : nat) : option bclass :=
  first_strong cls (S i) (match matching_pdi cls i with Some j => j | None => length cls end).

Definition reported_classes (cls : list bclass) : list bclass :=
  map (fun ic => let '(i, c) := ic in
         if c =c FSI then match fsi_strong cls i with
                          | Some L => LRI | Some _ => RLI | None => FSI end
         else c)
      (combine (seq 0 (length cls)) cls).

(* ------------------------------------------------------------------ *)
(* X1-X8.  Stack entries: (level, override, isolate?) with top at head. *)
Inductive ovr := ONone | OvL | OvR.
Definition sentry := (nat * ovr * bool)%type.
Definition max_depth_spec : nat := 125.

Definition next_odd (l : nat) : nat := if Nat.even l then l + 1 else l + 2.
Definition next_even (l : nat) : nat := if Nat.even l then l + 2 else l + 1.

Fixpoint pop_isolate (st : list sentry) : list sentry :=
  match st with
  | [] => []
  | (_, _, true) :: r => r
  | _ :: r => pop_isolate r
  end.

Definition ovr_class (o : ovr) (c : bclass) : bclass :=
  match o with ONone => c | OvL => L | OvR => R end.

Record xstate := { x_stack : list sentry; x_oi : nat; x_oe : nat; x_vi : nat }.

Definition top_of (st : list sentry) (pl : nat) : sentry :=
  match st with s :: _ => s | [] => (pl, ONone, false) end.

(* one character: returns (new state, level, class after override) *)
Definition x_step (cls0 : list bclass) (pl : nat) (s : xstate) (i : nat) (c0 : bclass)
  : xstate * option nat * bclass :=
  let c := if c0 =c FSI
           then match fsi_strong cls0 i with Some R | Some AL => RLI | _ => LRI end
           else c0 in
  let '(tl_, to, _) := top_of (x_stack s) pl in
  match c with
  | RLE | LRE | RLO | LRO =>
    let nl := match c with RLE | RLO => next_odd tl_ | _ => next_even tl_ end in
    if (nl <=? max_depth_spec) && (x_oi s =? 0) && (x_oe s =? 0)
    then ({| x_stack := (nl, match c with RLO => OvR | LRO => OvL | _ => ONone end, false) :: x_stack s;
             x_oi := x_oi s; x_oe := x_oe s; x_vi := x_vi s |}, None, c0)
    else ({| x_stack := x_stack s; x_oi := x_oi s;
             x_oe := if x_oi s =? 0 then S (x_oe s) else x_oe s; x_vi := x_vi s |}, None, c0)
  | RLI | LRI =>
    let nl := match c with RLI => next_odd tl_ | _ => next_even tl_ end in
    let s' := if (nl <=? max_depth_spec) && (x_oi s =? 0) && (x_oe s =? 0)
              then {| x_stack := (nl, ONone, true) :: x_stack s;
                      x_oi := x_oi s; x_oe := x_oe s; x_vi := S (x_vi s) |}
              else {| x_stack := x_stack s; x_oi := S (x_oi s); x_oe := x_oe s; x_vi := x_vi s |} in
    (s', Some tl_, ovr_class to c0)
  | PDI =>
    let s' := if 0 <? x_oi s
              then {| x_stack := x_stack s; x_oi := x_oi s - 1; x_oe := x_oe s; x_vi := x_vi s |}
              else if x_vi s =? 0 then s
              else {| x_stack := pop_isolate (x_stack s); x_oi := x_oi s; x_oe := 0; x_vi := x_vi s - 1 |} in
    let '(tl2, to2, _) := top_of (x_stack s') pl in
    (s', Some tl2, ovr_class to2 c0)
  | PDF =>
    let s' := if 0 <? x_oi s then s
              else if 0 <? x_oe s
                   then {| x_stack := x_stack s; x_oi := x_oi s; x_oe := x_oe s - 1; x_vi := x_vi s |}
              else match x_stack s with
                   | (_, _, false) :: ((_ :: _) as below) =>
                     {| x_stack := below; x_oi := x_oi s; x_oe := x_oe s; x_vi := x_vi s |}
                   | _ => s
                   end in
    (s', None, c0)
  | B => (s, Some pl, c0)
  | BN => (s, None, c0)
  | _ => (s, Some tl_, ovr_class to c0)
  end.

Fixpoint x_run (cls0 : list bclass) (pl : nat) (s : xstate) (i : nat) (l : list bclass)
  : list (option nat) * list bclass :=
  match l with
  | [] => ([], [])
  | c0 :: rest =>
    let '(s', lv, c) := x_step cls0 pl s i c0 in
    let '(lvs, cs) := x_run cls0 pl s' (S i) rest in
    (lv :: lvs, c :: cs)
  end.

Definition explicit_levels (cls0 : list bclass) (pl : nat) : list (option nat) * list bclass :=
  x_run cls0 pl {| x_stack := [(pl, ONone, false)]; x_oi := 0; x_oe := 0; x_vi := 0 |} 0 cls0.

(* ------------------------------------------------------------------ *)
(* X9, BD7, BD13 *)

(* positions of the characters that remain after X9 *)
Definition remaining (cls0 : list bclass) : list nat :=
  filter (fun i => negb (is_removed (snth cls0 i BN))) (seq 0 (length cls0)).

(* BD7: maximal blocks of equal level among the remaining characters *)
Fixpoint level_runs_from (lev : list (option nat)) (cur : list nat) (curl : option nat) (idx : list nat)
  : list (list nat) :=
  match idx with
  | [] => match cur with [] => [] | _ => [cur] end
  | i :: rest =>
    let li := snth lev i None in
    match cur with
    | [] => level_runs_from lev [i] li rest
    | _ => if match li, curl with Some a, Some b => a =? b | _, _ => false end
           then level_runs_from lev (cur ++ [i]) curl rest
           else cur :: level_runs_from lev [i] li rest
    end
  end.
Definition level_runs (lev : list (option nat)) (idx : list nat) : list (list nat) :=
  level_runs_from lev [] None idx.

Definition last_of (l : list nat) : nat := last l 0.
Definition first_of (l : list nat) : nat := hd 0 l.

(* the run (if any) that starts at position p *)
Fixpoint run_starting_at (runs : list (list nat)) (p : nat) : option (list nat) :=
  match runs with
  | [] => None
  | r :: rest => if first_of r =? p then Some r else run_starting_at rest p
  end.

(* does run r continue into another run?  (its last char is an initiator whose matching PDI starts a run) *)
Definition continuation (cls0 : list bclass) (runs : list (list nat)) (r : list nat) : option (list nat) :=
  let l := last_of r in
  if is_init (snth cls0 l ON)
  then match matching_pdi cls0 l with
       | Some j => run_starting_at runs j
       | None => None
       end
  else None.

Fixpoint chain (fuel : nat) (cls0 : list bclass) (runs : list (list nat)) (r : list nat) : list nat :=
  match fuel with
  | O => r
  | S f => match continuation cls0 runs r with
           | Some r' => r ++ chain f cls0 runs r'
           | None => r
           end
  end.

(* BD13: isolating run sequences, each as its list of positions: every run that is not the
   continuation of another run starts a sequence *)
Definition isolating_sequences (cls0 : list bclass) (lev : list (option nat)) : list (list nat) :=
  let runs := level_runs lev (remaining cls0) in
  let targets := map (fun q => match continuation cls0 runs q with
                               | Some r' => Some (first_of r') | None => None end) runs in
  let is_cont r := existsb (fun t => match t with Some p => p =? first_of r | None => false end) targets in
  map (chain (length runs) cls0 runs) (filter (fun r => negb (is_cont r)) runs).

(* ------------------------------------------------------------------ *)
(* W1-W7 on the classes of one sequence *)
Fixpoint w1 (prev : bclass) (t : list bclass) : list bclass :=
  match t with
  | [] => []
  | c :: r => let c' := if c =c NSM then (if is_iso_ctl prev then ON else prev) else c in
              c' :: w1 c' r
  end.
Fixpoint w2 (strong : bclass) (t : list bclass) : list bclass :=
  match t with
  | [] => []
  | c :: r => let c' := if (c =c EN) && (strong =c AL) then AN else c in
              c' :: w2 (if is_strong c then c else strong) r
  end.
Definition w3 (t : list bclass) : list bclass := map (fun c => if c =c AL then R else c) t.
Fixpoint w4 (prev : option bclass) (t : list bclass) : list bclass :=
  match t with
  | [] => []
  | c :: r =>
    let c' := match prev, c, r with
              | Some EN, ES, EN :: _ => EN
              | Some EN, CS, EN :: _ => EN
              | Some AN, CS, AN :: _ => AN
              | _, _, _ => c
              end in
    c' :: w4 (Some c) r
  end.
Fixpoint w5_fwd (prev : bclass) (t : list bclass) : list bclass :=
  match t with
  | [] => []
  | c :: r => let c' := if (c =c ET) && (prev =c EN) then EN else c in c' :: w5_fwd c' r
  end.
Definition w5 (t : list bclass) : list bclass := rev (w5_fwd ON (rev (w5_fwd ON t))).
Definition w6 (t : list bclass) : list bclass :=
  map (fun c => match c with ES | ET | CS => ON | _ => c end) t.
Fixpoint w7 (strong : bclass) (t : list bclass) : list bclass :=
  match t with
  | [] => []
  | c :: r => let c' := if (c =c EN) && (strong =c L) then L else c in
              c' :: w7 (match c with L | R => c | _ => strong end) r
  end.
Definition weak (sos : bclass) (t : list bclass) : list bclass :=
  w7 sos (w6 (w5 (w4 None (w3 (w2 sos (w1 sos t)))))).

(* ------------------------------------------------------------------ *)
(* BD16: bracket pairs of one sequence, as pairs of indices INTO the sequence *)
Fixpoint bd16_match (key : N) (st : list (N * nat)) : option (nat * list (N * nat)) :=
  match st with
  | [] => None
  | (k, p) :: below => if (k =? key)%N then Some (p, below) else bd16_match key below
  end.
Fixpoint bd16 (t : list bclass) (brk : list (option (N * bool))) (k : nat)
         (st : list (N * nat)) (pairs : list (nat * nat)) : list (nat * nat) :=
  match t, brk with
  | c :: tr, b :: br =>
    match b with
    | Some (key, is_open) =>
      if c =c ON then
        if is_open
        then if 63 <=? length st then pairs                       (* stop for the rest of the sequence *)
             else bd16 tr br (S k) ((key, k) :: st) pairs
        else match bd16_match key st with
             | Some (p, below) => bd16 tr br (S k) below (pairs ++ [(p, k)])
             | None => bd16 tr br (S k) st pairs
             end
      else bd16 tr br (S k) st pairs
    | None => bd16 tr br (S k) st pairs
    end
  | _, _ => pairs
  end.
Fixpoint insert_by_fst (p : nat * nat) (l : list (nat * nat)) : list (nat * nat) :=
  match l with
  | [] => [p]
  | q :: r => if fst p <? fst q then p :: l else q :: insert_by_fst p r
  end.
Definition bracket_pairs (t : list bclass) (brk : list (option (N * bool))) : list (nat * nat) :=
  fold_left (fun acc p => insert_by_fst p acc) (bd16 t brk 0 [] []) [].

(* N0 *)
Definition strong_dir (c : bclass) : option bclass :=             (* EN and AN count as R *)
  match c with L => Some L | R | EN | AN => Some R | _ => None end.
Definition opt_ceq (o : option bclass) (c : bclass) : bool :=
  match o with Some x => x =c c | None => false end.

Fixpoint nsm_follow (orig_nsm : list bool) (d : bclass) (k fuel : nat) (t : list bclass) {struct fuel}
  : list bclass :=
  match fuel with
  | O => t
  | S f => if snth orig_nsm k false then nsm_follow orig_nsm d (S k) f (setnth t k d) else t
  end.

Definition n0_one (sos edir : bclass) (orig_nsm : list bool) (t : list bclass) (p : nat * nat)
  : list bclass :=
  let '(a, b) := p in
  let inside := firstn (b - a - 1) (skipn (S a) t) in
  let found_e := existsb (fun c => opt_ceq (strong_dir c) edir) inside in
  let found_o := existsb (fun c => match strong_dir c with
                                   | Some d => negb (d =c edir) | None => false end) inside in
  let new : option bclass :=
    if found_e then Some edir
    else if found_o then
      let ctx := match find (fun c => match strong_dir c with Some _ => true | None => false end)
                            (rev (firstn a t)) with
                 | Some c => match strong_dir c with Some d => d | None => sos end
                 | None => sos
                 end in
      Some ctx                                                    (* ctx if opposite, else e = ctx *)
    else None in
  match new with
  | None => t
  | Some d =>
    let t := setnth (setnth t a d) b d in
    nsm_follow orig_nsm d (S b) (length t) (nsm_follow orig_nsm d (S a) (length t) t)
  end.

(* N1/N2 *)
Fixpoint next_dirs (eos : bclass) (t : list bclass) : list bclass :=
  match t with
  | [] => []
  | c :: r => let ns := next_dirs eos r in
              (match r with
               | [] => eos
               | x :: _ => if is_ni x then hd eos ns
                           else match strong_dir x with Some d => d | None => x end
               end) :: ns
  end.
Fixpoint n12 (lead edir : bclass) (t nexts : list bclass) : list bclass :=
  match t, nexts with
  | c :: r, nx :: nr =>
    if is_ni c then (if lead =c nx then lead else edir) :: n12 lead edir r nr
    else c :: n12 (match strong_dir c with Some d => d | None => c end) edir r nr
  | _, _ => []
  end.
Definition neutral (sos eos edir : bclass) (t : list bclass) : list bclass :=
  n12 sos edir t (next_dirs eos t).

(* I1/I2 *)
Definition implicit_level (l : nat) (c : bclass) : nat :=
  if Nat.even l then match c with R => l + 1 | AN | EN => l + 2 | _ => l end
  else match c with L | EN | AN => l + 1 | _ => l end.

(* ------------------------------------------------------------------ *)
(* one isolating run sequence: X10 then W, N, I; returns the new levels of its positions *)
Definition dir_of_level (l : nat) : bclass := if Nat.even l then L else R.

(* X10: sos / eos of one sequence [sq] (positions); [idx] = all remaining positions of the paragraph *)
Definition lev_at (xlev : list (option nat)) (pl i : nat) : nat :=
  match snth xlev i None with Some l => l | None => pl end.
Definition seq_sos (xlev : list (option nat)) (pl : nat) (idx sq : list nat) : bclass :=
  let first := first_of sq in
  let pred := match rev (filter (fun i => i <? first) idx) with i :: _ => lev_at xlev pl i | [] => pl end in
  dir_of_level (Nat.max (lev_at xlev pl first) pred).
Definition seq_eos (cls0 : list bclass) (xlev : list (option nat)) (pl : nat) (idx sq : list nat) : bclass :=
  let last_ := last_of sq in
  let succ := if is_init (snth cls0 last_ ON) &&
                 match matching_pdi cls0 last_ with None => true | Some _ => false end
              then pl
              else match filter (fun i => last_ <? i) idx with i :: _ => lev_at xlev pl i | [] => pl end in
  dir_of_level (Nat.max (lev_at xlev pl last_) succ).

(* W, N0, N1/N2 on the classes [t0] of one sequence, given sos/eos, the embedding direction and the
   bracket data of its characters *)
(* [orig_nsm]: which characters of the sequence had ORIGINAL class NSM.  N0's clause "characters that
   had original bidirectional character type NSM prior to the application of W1" is read as the
   Unicode reference implementation (BidiReference.java / BidiPBAReference.setBracketsToType) reads
   it: the class the character had on input, before any rule — in particular before an X6 override
   rewrote it. *)
Definition resolve_classes (sos eos edir : bclass) (brks : list (option (N * bool))) (orig_nsm : list bool)
           (t0 : list bclass) : list bclass :=
  let t1 := weak sos t0 in
  let pairs := bracket_pairs t1 brks in
  let t2 := fold_left (n0_one sos edir orig_nsm) pairs t1 in
  neutral sos eos edir t2.

Definition resolve_sequence (cls0 cls : list bclass) (brk : list (option (N * bool)))
           (xlev : list (option nat)) (pl : nat) (idx : list nat) (sq : list nat)
  : list (nat * nat) :=
  let sos := seq_sos xlev pl idx sq in
  let eos := seq_eos cls0 xlev pl idx sq in
  let edir := dir_of_level (lev_at xlev pl (first_of sq)) in
  let t3 := resolve_classes sos eos edir (map (fun i => snth brk i None) sq)
                            (map (fun i => snth cls0 i ON =c NSM) sq) (map (fun i => snth cls i ON) sq) in
  map (fun ic => (fst ic, implicit_level (lev_at xlev pl (fst ic)) (snd ic))) (combine sq t3).

Fixpoint assoc_nat (k : nat) (l : list (nat * nat)) : option nat :=
  match l with
  | [] => None
  | (a, b) :: r => if a =? k then Some b else assoc_nat k r
  end.

(* classes after X1-X8 as the W and N rules see them: the override-rewritten class; an FSI that
   X5c resolved is the RLI/LRI it is treated as (an FSI with no strong character stays FSI, as in
   the reported classes of C02; all isolate initiators behave alike under W1-W7 and N0-N2) *)
Definition x_classes (cls0 xcls : list bclass) : list bclass :=
  map (fun p => match fst p, snd p with FSI, k => k | k, _ => k end) (combine xcls (reported_classes cls0)).

(* The algorithm for ONE paragraph: paragraph level, level of every character X9 keeps. *)
Definition resolve_paragraph (cls0 : list bclass) (brk : list (option (N * bool))) (dir : option nat)
  : nat * list (option nat) :=
  let pl := para_level cls0 dir in
  let '(xlev, xcls) := explicit_levels cls0 pl in
  let cls := x_classes cls0 xcls in
  let idx := remaining cls0 in
  let seqs := isolating_sequences cls0 xlev in
  let assigned := flat_map (resolve_sequence cls0 cls brk xlev pl idx) seqs in
  (pl, map (fun i => if is_removed (snth cls0 i BN) then None
                     else match assoc_nat i assigned with
                          | Some l => Some l
                          | None => snth xlev i None
                          end)
           (seq 0 (length cls0))).

(* P1: split after every B *)
Fixpoint split_paragraphs_from {A} (cls : A -> bclass) (cur : list A) (l : list A) : list (list A) :=
  match l with
  | [] => match cur with [] => [] | _ => [cur] end
  | x :: r => if cls x =c B then (cur ++ [x]) :: split_paragraphs_from cls [] r
              else split_paragraphs_from cls (cur ++ [x]) r
  end.
Definition split_paragraphs {A} (cls : A -> bclass) (l : list A) : list (list A) :=
  split_paragraphs_from cls [] l.

(* "each character that X9 removes carries the level of the nearest preceding character of its
   paragraph, or the paragraph level" (the library's documented convention, C01) *)
Fixpoint fill_removed (prev : nat) (l : list (option nat)) : list nat :=
  match l with
  | [] => []
  | Some x :: r => x :: fill_removed x r
  | None :: r => prev :: fill_removed prev r
  end.

(* ------------------------------------------------------------------ *)
(* L1 on one line (characters of a line inside one paragraph); [lev] = stored level per character *)
Definition l1_candidate (c : bclass) : bool :=
  match c with WS | FSI | LRI | RLI | PDI => true | _ => is_removed c end.

(* trailing.(i) = true iff char i is B/S, or lies in a run of candidates followed by B/S or line end *)
Fixpoint l1_reset_flags (cls : list bclass) : list bool * bool :=
  (* returns flags and "the suffix starts in reset state" *)
  match cls with
  | [] => ([], true)
  | c :: r =>
    let '(fl, st) := l1_reset_flags r in
    match c with
    | B | SS => (true :: fl, true)
    | _ => if l1_candidate c then (st :: fl, st) else (false :: fl, false)
    end
  end.
Fixpoint l1_apply (pl prev : nat) (cls : list bclass) (flags : list bool) (lev : list nat) : list nat :=
  match cls, flags, lev with
  | c :: cr, f :: fr, l :: lr =>
    let l' := if f then pl else if is_removed c then prev else l in
    l' :: l1_apply pl l' cr fr lr
  | _, _, _ => []
  end.
Definition l1 (pl : nat) (cls : list bclass) (lev : list nat) : list nat :=
  l1_apply pl pl cls (fst (l1_reset_flags cls)) lev.

(* ------------------------------------------------------------------ *)
(* L2 on a level sequence: the visual order as a list of logical indices *)
Fixpoint rev_runs_ge (k : nat) (xs : list (nat * nat)) (acc : list (nat * nat)) : list (nat * nat) :=
  (* reverse every maximal run of entries whose level (snd) is >= k; acc = current run, reversed *)
  match xs with
  | [] => acc
  | x :: r => if k <=? snd x then rev_runs_ge k r (x :: acc)
              else acc ++ x :: rev_runs_ge k r []
  end.
Fixpoint l2_down (k lo : nat) (xs : list (nat * nat)) : list (nat * nat) :=
  match k with
  | O => xs
  | S k' => if lo <=? k then l2_down k' lo (rev_runs_ge k xs []) else xs
  end.
Definition lowest_odd (lv : list nat) : option nat :=
  fold_left (fun acc l => if Nat.odd l then match acc with Some m => Some (Nat.min m l) | None => Some l end
                          else acc) lv None.
Definition l2 (lv : list nat) : list nat :=
  match lowest_odd lv with
  | None => seq 0 (length lv)
  | Some lo => map fst (l2_down (fold_left Nat.max lv 0) lo (combine (seq 0 (length lv)) lv))
  end.

(* ------------------------------------------------------------------ *)
(* lossy UTF-16 decoding: (scalar, length in units) per character *)
Local Open Scope N_scope.
Definition is_hi (u : N) : bool := (55296 <=? u) && (u <=? 56319).
Definition is_lo (u : N) : bool := (56320 <=? u) && (u <=? 57343).
Fixpoint decode16 (t : list N) : list (N * nat) :=
  match t with
  | [] => []
  | u :: r =>
    if is_hi u then
      match r with
      | d :: r' => if is_lo d then (65536 + (u - 55296) * 1024 + (d - 56320), 2%nat) :: decode16 r'
                   else (65533, 1%nat) :: decode16 r
      | [] => [(65533, 1%nat)]
      end
    else if is_lo u then (65533, 1%nat) :: decode16 r
    else (u, 1%nat) :: decode16 r
  end.
