(* ModelResolve.v — executable model of the analysis pipeline:
   compute_initial_info (lib.rs:304), explicit::compute (explicit.rs:34),
   prepare::isolating_run_sequences (prepare.rs:54) with iter_forwards_from / iter_backwards_from,
   implicit::resolve_weak / resolve_neutral / identify_bracket_pairs / resolve_levels (implicit.rs),
   assign_levels_to_removed_chars (lib.rs:1264), compute_bidi_info_for_para (lib.rs:1084),
   BidiInfo::new_with_data_source, ParagraphBidiInfo::new_with_data_source, InitialInfo (8 and 16).
   Code-unit granularity; every Rust index/slice/unwrap that can panic is a [res].
   The model follows the REPAIRED code (D6: iter_backwards_from walks earlier runs backwards;
   D7: the 63-limit leaves both loops); the legacy variants are kept as separate definitions. *)
From BidiVerif Require Import Base ConstsGen ModelText.

Definition removed_by_x9 (k : bclass) : bool :=          (* prepare.rs:308 *)
  match k with RLE | LRE | RLO | LRO | PDF | BN => true | _ => false end.
Definition not_removed_by_x9 (k : bclass) : bool := negb (removed_by_x9 k).
Definition is_isolate_init (k : bclass) : bool :=
  match k with RLI | LRI | FSI => true | _ => false end.
Definition is_NI (k : bclass) : bool :=                   (* implicit.rs:604 *)
  match k with B | SS | WS | ON | FSI | LRI | RLI | PDI => true | _ => false end.

Definition run := (nat * nat)%type.                        (* LevelRun = Range<usize> *)
Definition run_range (r : run) : list nat := range (fst r) (snd r).

Section Pipeline.
Variable e : enc.
Variable ds : datasource.

(* ================================================================== *)
(* compute_initial_info, lib.rs:304-445 *)

Record para_info := { p_start : nat; p_end : nat; p_level : nat }.
Record para_flags := { f_pure_ltr : bool; f_has_isolate : bool }.

Record ii_state := {
  ii_classes : list bclass;
  ii_stack : list nat;                  (* isolate_stack, top at head *)
  ii_para_start : nat;
  ii_para_level : option nat;
  ii_pure : bool;
  ii_iso : bool;
  ii_paras : list para_info;
  ii_flags : list para_flags
}.

Fixpoint write_fsi (cls : list bclass) (start : nat) (js : list nat) (k : bclass) : res (list bclass) :=
  match js with
  | [] => Ok cls
  | j :: rest => cls' <- upd 387 cls (start + j) k ;; write_fsi cls' start rest k
  end.

Definition ii_step (split : bool) (default_level : option nat) (st : ii_state) (ic : nat * N)
  : res ii_state :=
  let '(i, c) := ic in
  let class := ds_class ds c in
  let len := char_len e c in
  let classes := ii_classes st ++ repeat class len in
  let st := {| ii_classes := classes; ii_stack := ii_stack st; ii_para_start := ii_para_start st;
               ii_para_level := ii_para_level st; ii_pure := ii_pure st; ii_iso := ii_iso st;
               ii_paras := ii_paras st; ii_flags := ii_flags st |} in
  match class with
  | B =>
    if split then
      let para_end := i + len in
      Ok {| ii_classes := classes; ii_stack := [];
            ii_para_start := para_end; ii_para_level := default_level;
            ii_pure := true; ii_iso := false;
            ii_paras := ii_paras st ++ [{| p_start := ii_para_start st; p_end := para_end;
                                          p_level := opt_or (ii_para_level st) 0 |}];
            ii_flags := ii_flags st ++ [{| f_pure_ltr := ii_pure st; f_has_isolate := ii_iso st |}] |}
    else Ok st
  | L | R | AL =>
    let pure := if class =c L then ii_pure st else false in
    match ii_stack st with
    | start :: _ =>
      k <- get 383 classes start ;;
      classes' <- (if k =c FSI
                   then write_fsi classes start (range 0 (char_len e fc_FSI))
                                  (if class =c L then LRI else RLI)
                   else Ok classes) ;;
      Ok {| ii_classes := classes'; ii_stack := ii_stack st; ii_para_start := ii_para_start st;
            ii_para_level := ii_para_level st; ii_pure := pure; ii_iso := ii_iso st;
            ii_paras := ii_paras st; ii_flags := ii_flags st |}
    | [] =>
      let pl := match ii_para_level st with
                | None => Some (if class =c L then 0 else 1)
                | Some l => Some l
                end in
      Ok {| ii_classes := classes; ii_stack := []; ii_para_start := ii_para_start st;
            ii_para_level := pl; ii_pure := pure; ii_iso := ii_iso st;
            ii_paras := ii_paras st; ii_flags := ii_flags st |}
    end
  | AN | LRE | RLE | LRO | RLO =>
    Ok {| ii_classes := classes; ii_stack := ii_stack st; ii_para_start := ii_para_start st;
          ii_para_level := ii_para_level st; ii_pure := false; ii_iso := ii_iso st;
          ii_paras := ii_paras st; ii_flags := ii_flags st |}
  | RLI | LRI | FSI =>
    Ok {| ii_classes := classes; ii_stack := i :: ii_stack st; ii_para_start := ii_para_start st;
          ii_para_level := ii_para_level st; ii_pure := false; ii_iso := true;
          ii_paras := ii_paras st; ii_flags := ii_flags st |}
  | PDI =>
    Ok {| ii_classes := classes; ii_stack := tl (ii_stack st); ii_para_start := ii_para_start st;
          ii_para_level := ii_para_level st; ii_pure := ii_pure st; ii_iso := ii_iso st;
          ii_paras := ii_paras st; ii_flags := ii_flags st |}
  | _ => Ok st
  end.

Fixpoint ii_fold (split : bool) (dl : option nat) (st : ii_state) (l : list (nat * N)) : res ii_state :=
  match l with
  | [] => Ok st
  | ic :: rest => st' <- ii_step split dl st ic ;; ii_fold split dl st' rest
  end.

Record initial_info := {
  in_classes : list bclass;
  in_level : nat;            (* level of the last (or only) paragraph *)
  in_pure : bool;
  in_iso : bool;
  in_paras : list para_info;
  in_flags : list para_flags
}.

Definition compute_initial_info (text : list N) (default_level : option nat) (split : bool)
  : res initial_info :=
  let st0 := {| ii_classes := []; ii_stack := []; ii_para_start := 0; ii_para_level := default_level;
                ii_pure := true; ii_iso := false; ii_paras := []; ii_flags := [] |} in
  st <- ii_fold split default_level st0 (t_char_indices e text) ;;
  let n := t_len e text in
  let '(paras, flags) :=
    if split && (ii_para_start st <? n)
    then (ii_paras st ++ [{| p_start := ii_para_start st; p_end := n;
                            p_level := opt_or (ii_para_level st) 0 |}],
          ii_flags st ++ [{| f_pure_ltr := ii_pure st; f_has_isolate := ii_iso st |}])
    else (ii_paras st, ii_flags st) in
  Ok {| in_classes := ii_classes st; in_level := opt_or (ii_para_level st) 0;
        in_pure := ii_pure st; in_iso := ii_iso st; in_paras := paras; in_flags := flags |}.

(* ================================================================== *)
(* explicit::compute, explicit.rs:34-215 *)

Inductive ostatus := ONeutral | ORTL | OLTR | OIsolate.
Definition ostatus_is_isolate (s : ostatus) : bool := match s with OIsolate => true | _ => false end.

Record ex_state := {
  ex_stack : list (nat * ostatus);      (* directional status stack, top at head *)
  ex_oi : nat; ex_oe : nat; ex_vi : nat;
  ex_levels : list nat;
  ex_pc : list bclass;
  ex_run_level : nat;
  ex_run_start : nat;
  ex_runs : list run
}.

(* `while !matches!(stack.pop(), None | Some(Status{status: Isolate, ..})) {}` *)
Fixpoint pop_through_isolate (st : list (nat * ostatus)) : list (nat * ostatus) :=
  match st with
  | [] => []
  | (_, OIsolate) :: r => r
  | _ :: r => pop_through_isolate r
  end.

Definition apply_override (site : nat) (s : ostatus) (pc : list bclass) (i : nat) : res (list bclass) :=
  match s with
  | ORTL => upd site pc i R
  | OLTR => upd site pc i L
  | _ => Ok pc
  end.

Fixpoint copy_units (levels : list nat) (pc : list bclass) (i : nat) (js : list nat)
  : res (list nat * list bclass) :=
  match js with
  | [] => Ok (levels, pc)
  | j :: rest =>
    li <- get 191 levels i ;;
    levels' <- upd 191 levels (i + j) li ;;
    ci <- get 192 pc i ;;
    pc' <- upd 192 pc (i + j) ci ;;
    copy_units levels' pc' i rest
  end.

Definition ex_step (oc : list bclass) (st : ex_state) (il : nat * nat) : res ex_state :=
  let '(i, len) := il in
  match ex_stack st with
  | [] => Panic 64                                            (* stack.last().unwrap() *)
  | (last_level, last_status) :: _ =>
    k <- get 66 oc i ;;
    '(stack, oi, oe, vi, levels, pc) <-
      match k with
      | RLE | LRE | RLO | LRO | RLI | LRI | FSI =>
        levels <- upd 70 (ex_levels st) i last_level ;;
        let is_isolate := is_isolate_init k in
        pc <- (if is_isolate then apply_override 78 last_status (ex_pc st) i else Ok (ex_pc st)) ;;
        let new_level := if class_is_rtl k then level_next_rtl last_level
                         else level_next_ltr last_level in
        '(stack, oi, oe, vi, levels) <-
          match new_level with
          | Some nl =>
            if (ex_oi st =? 0) && (ex_oe st =? 0) then
              let status := match k with
                            | RLO => ORTL | LRO => OLTR
                            | RLI | LRI | FSI => OIsolate
                            | _ => ONeutral end in
              let stack := (nl, status) :: ex_stack st in
              if is_isolate then Ok (stack, ex_oi st, ex_oe st, S (ex_vi st), levels)
              else levels' <- upd 109 levels i nl ;;
                   Ok (stack, ex_oi st, ex_oe st, ex_vi st, levels')
            else if is_isolate then Ok (ex_stack st, S (ex_oi st), ex_oe st, ex_vi st, levels)
            else if ex_oi st =? 0 then Ok (ex_stack st, ex_oi st, S (ex_oe st), ex_vi st, levels)
            else Ok (ex_stack st, ex_oi st, ex_oe st, ex_vi st, levels)
          | None =>
            if is_isolate then Ok (ex_stack st, S (ex_oi st), ex_oe st, ex_vi st, levels)
            else if ex_oi st =? 0 then Ok (ex_stack st, ex_oi st, S (ex_oe st), ex_vi st, levels)
            else Ok (ex_stack st, ex_oi st, ex_oe st, ex_vi st, levels)
          end ;;
        pc <- (if is_isolate then Ok pc else upd 121 pc i BN) ;;
        Ok (stack, oi, oe, vi, levels, pc)
      | PDI =>
        let '(stack, oi, oe, vi) :=
          if 0 <? ex_oi st then (ex_stack st, ex_oi st - 1, ex_oe st, ex_vi st)
          else if 0 <? ex_vi st then (pop_through_isolate (ex_stack st), ex_oi st, 0, ex_vi st - 1)
          else (ex_stack st, ex_oi st, ex_oe st, ex_vi st) in
        match stack with
        | [] => Panic 143
        | (ll, ls) :: _ =>
          levels <- upd 144 (ex_levels st) i ll ;;
          pc <- apply_override 147 ls (ex_pc st) i ;;
          Ok (stack, oi, oe, vi, levels, pc)
        end
      | PDF =>
        let '(stack, oe) :=
          if 0 <? ex_oi st then (ex_stack st, ex_oe st)
          else if 0 <? ex_oe st then (ex_stack st, ex_oe st - 1)
          else if negb (ostatus_is_isolate last_status) && (2 <=? length (ex_stack st))
               then (tl (ex_stack st), ex_oe st)
          else (ex_stack st, ex_oe st) in
        match stack with
        | [] => Panic 164
        | (ll, _) :: _ =>
          levels <- upd 164 (ex_levels st) i ll ;;
          pc <- upd 166 (ex_pc st) i BN ;;
          Ok (stack, ex_oi st, oe, ex_vi st, levels, pc)
        end
      | B => Ok (ex_stack st, ex_oi st, ex_oe st, ex_vi st, ex_levels st, ex_pc st)
      | _ =>
        levels <- upd 175 (ex_levels st) i last_level ;;
        pc <- (if k =c BN then Ok (ex_pc st) else apply_override 181 last_status (ex_pc st) i) ;;
        Ok (ex_stack st, ex_oi st, ex_oe st, ex_vi st, levels, pc)
      end ;;
    '(levels, pc) <- copy_units levels pc i (range 1 len) ;;
    li <- get 198 levels i ;;
    let '(run_level, run_start, runs) :=
      if i =? 0 then (li, ex_run_start st, ex_runs st)
      else if negb (removed_by_x9 k) && negb (li =? ex_run_level st)
           then (li, i, ex_runs st ++ [(ex_run_start st, i)])
      else (ex_run_level st, ex_run_start st, ex_runs st) in
    Ok {| ex_stack := stack; ex_oi := oi; ex_oe := oe; ex_vi := vi; ex_levels := levels; ex_pc := pc;
          ex_run_level := run_level; ex_run_start := run_start; ex_runs := runs |}
  end.

Fixpoint ex_fold (oc : list bclass) (st : ex_state) (l : list (nat * nat)) : res ex_state :=
  match l with
  | [] => Ok st
  | il :: rest => st' <- ex_step oc st il ;; ex_fold oc st' rest
  end.

Definition explicit_compute (text : list N) (para_level : nat) (oc : list bclass)
           (levels : list nat) (pc : list bclass) : res (list nat * list bclass * list run) :=
  if negb (t_len e text =? length oc) then Panic 42 else      (* assert_eq! *)
  let st0 := {| ex_stack := [(para_level, ONeutral)]; ex_oi := 0; ex_oe := 0; ex_vi := 0;
                ex_levels := levels; ex_pc := pc; ex_run_level := 0; ex_run_start := 0;
                ex_runs := [] |} in
  st <- ex_fold oc st0 (t_indices_lengths e text) ;;
  let runs := if ex_run_start st <? length (ex_levels st)
              then ex_runs st ++ [(ex_run_start st, length (ex_levels st))]
              else ex_runs st in
  Ok (ex_levels st, ex_pc st, runs).

(* ================================================================== *)
(* prepare.rs *)

Record irs := { irs_runs : list run; irs_sos : bclass; irs_eos : bclass }.

Definition iter_forwards_from (runs : list run) (pos idx : nat) : res (list nat) :=   (* prepare.rs:239 *)
  if length runs <? idx then Panic 244 else
  match skipn idx runs with
  | [] => Panic 251
  | r0 :: rest => Ok (range pos (snd r0) ++ flat_map run_range rest)
  end.

Definition iter_backwards_from (runs : list run) (pos idx : nat) : res (list nat) :=  (* prepare.rs:257, repaired *)
  if length runs <? idx then Panic 262 else
  match nth_error runs idx with
  | None => Panic 263
  | Some cur => Ok (rev (range (fst cur) pos)
                    ++ flat_map (fun r => rev (run_range r)) (rev (firstn idx runs)))
  end.

(* the unrepaired variant: earlier runs in reverse order, each walked forwards (D6) *)
Definition iter_backwards_from_legacy (runs : list run) (pos idx : nat) : res (list nat) :=
  if length runs <? idx then Panic 262 else
  match nth_error runs idx with
  | None => Panic 263
  | Some cur => Ok (rev (range (fst cur) pos) ++ flat_map run_range (rev (firstn idx runs)))
  end.

(* `.find(|i| p(v[*i]))` over an index iterator; indexing may panic *)
Fixpoint find_index_by {A} (site : nat) (p : A -> bool) (v : list A) (idxs : list nat) : res (option nat) :=
  match idxs with
  | [] => Ok None
  | i :: rest => x <- get site v i ;; if p x then Ok (Some i) else find_index_by site p v rest
  end.

(* `.map(|j| v[j]).find(p)` *)
Fixpoint find_value_by {A} (site : nat) (p : A -> bool) (v : list A) (idxs : list nat) : res (option A) :=
  match idxs with
  | [] => Ok None
  | i :: rest => x <- get site v i ;; if p x then Ok (Some x) else find_value_by site p v rest
  end.

Definition rfind {A} (p : A -> bool) (l : list A) : option A := find p (rev l).

Definition pred_level_of (para_level : nat) (oc : list bclass) (levels : list nat) (start : nat)
  : res nat :=
  if length oc <? start then Panic 86 else                      (* original_classes[..start] *)
  match rposition not_removed_by_x9 (firstn start oc) with
  | Some idx => get 90 levels idx
  | None => Ok para_level
  end.

Definition succ_level_of (para_level : nat) (oc : list bclass) (levels : list nat) (en : nat)
  : res nat :=
  if length oc <? en then Panic 95 else                         (* original_classes[end..] *)
  match position not_removed_by_x9 (skipn en oc) with
  | Some idx => get 99 levels (en + idx)
  | None => Ok para_level
  end.

Definition irs_fast_one (para_level : nat) (oc : list bclass) (levels : list nat) (r : run) : res irs :=
  let '(s, en) := r in
  run_levels <- slice 73 levels s en ;;
  run_classes <- slice 74 oc s en ;;
  seq_level <- get 75 run_levels (opt_or (position not_removed_by_x9 run_classes) 0) ;;
  _ <- (if en <=? s then Panic 83 else Ok tt) ;;                     (* run.end - run.start - 1 *)
  end_level <- get 80 run_levels (opt_or (rposition not_removed_by_x9 run_classes) (en - s - 1)) ;;
  pred_level <- pred_level_of para_level oc levels s ;;
  succ_level <- succ_level_of para_level oc levels en ;;
  Ok {| irs_runs := [r];
        irs_sos := level_class (Nat.max seq_level pred_level);
        irs_eos := level_class (Nat.max end_level succ_level) |}.

Fixpoint map_res {A B} (f : A -> res B) (l : list A) : res (list B) :=
  match l with
  | [] => Ok []
  | x :: t => y <- f x ;; ys <- map_res f t ;; Ok (y :: ys)
  end.

(* BD13 grouping, prepare.rs:114-158.  [stack] top at head. *)
Fixpoint bd13_fold (oc : list bclass) (runs : list run)
         (stack : list (list run)) (sequences : list (list run)) : res (list (list run)) :=
  match runs with
  | [] => Ok (sequences ++ filter (fun s => negb (length s =? 0)) stack)
  | r :: rest =>
    let '(s, en) := r in
    if en <=? s then Panic 124 else                              (* assert!(!run.is_empty()) *)
    match stack with
    | [] => Panic 125                                            (* assert!(!stack.is_empty()) *)
    | top :: below =>
      start_class <- get 127 oc s ;;
      sl <- slice 132 oc s en ;;
      let end_class := opt_or (rfind not_removed_by_x9 sl) start_class in
      let '(sequence, stack1) :=
        if (start_class =c PDI) && (1 <? length stack) then (top, below) else ([], stack) in
      let sequence := sequence ++ [r] in
      if is_isolate_init end_class
      then bd13_fold oc rest (sequence :: stack1) sequences
      else bd13_fold oc rest stack1 (sequences ++ [sequence])
    end
  end.

Definition irs_general_one (para_level : nat) (oc : list bclass) (levels : list nat)
           (sequence : list run) : res irs :=
  match sequence with
  | [] => Panic 163                                              (* assert!(!sequence.is_empty()) *)
  | r0 :: _ =>
    let start_of_seq := fst r0 in
    let runs_len := length sequence in
    rl <- get 167 sequence (runs_len - 1) ;;
    let end_of_seq := snd rl in
    fw <- iter_forwards_from sequence start_of_seq 0 ;;
    fi <- find_index_by 178 not_removed_by_x9 oc fw ;;
    seq_level <- get 176 levels (opt_or fi start_of_seq) ;;
    bw <- iter_backwards_from sequence end_of_seq (runs_len - 1) ;;
    bi <- find_index_by 185 not_removed_by_x9 oc bw ;;
    _ <- (if end_of_seq =? 0 then Panic 186 else Ok tt) ;;
    end_level <- get 183 levels (opt_or bi (end_of_seq - 1)) ;;
    pred_level <- pred_level_of para_level oc levels start_of_seq ;;
    _ <- (if length oc <? end_of_seq then Panic 208 else Ok tt) ;;
    let last_non_removed := opt_or (rfind not_removed_by_x9 (firstn end_of_seq oc)) BN in
    succ_level <- (if is_isolate_init last_non_removed then Ok para_level
                   else succ_level_of para_level oc levels end_of_seq) ;;
    Ok {| irs_runs := sequence;
          irs_sos := level_class (Nat.max seq_level pred_level);
          irs_eos := level_class (Nat.max end_level succ_level) |}
  end.

Definition isolating_run_sequences (para_level : nat) (oc : list bclass) (levels : list nat)
           (runs : list run) (has_isolate_controls : bool) : res (list irs) :=
  if negb has_isolate_controls
  then map_res (irs_fast_one para_level oc levels) runs
  else seqs <- bd13_fold oc runs [[]] [] ;;
       map_res (irs_general_one para_level oc levels) seqs.

(* ================================================================== *)
(* implicit::resolve_weak, implicit.rs:27-252 *)

Record w_state := {
  w_prev4 : bclass; w_prev5 : bclass; w_prev1 : bclass;
  w_al : bool;
  w_et : list nat; w_bn : list nat;
  w_pc : list bclass
}.

(* for idx in idxs { if pc[idx] != BN { break }; pc[idx] = x } *)
Fixpoint set_while_bn (site : nat) (pc : list bclass) (idxs : list nat) (x : bclass) : res (list bclass) :=
  match idxs with
  | [] => Ok pc
  | j :: rest =>
    c <- get site pc j ;;
    if c =c BN then pc' <- upd site pc j x ;; set_while_bn site pc' rest x
    else Ok pc
  end.

Definition weak_step (text : list N) (sq : irs) (st : w_state) (ri : nat * nat) : res w_state :=
  let '(run_index, i) := ri in
  c0 <- get 56 (w_pc st) i ;;
  if c0 =c BN then
    Ok {| w_prev4 := w_prev4 st; w_prev5 := w_prev5 st; w_prev1 := w_prev1 st; w_al := w_al st;
          w_et := w_et st; w_bn := w_bn st ++ [i]; w_pc := w_pc st |}
  else
  (* W1 *)
  '(pc, w2c) <- (if c0 =c NSM
                 then let c1 := match w_prev1 st with RLI | LRI | FSI | PDI => ON | k => k end in
                      pc <- upd 73 (w_pc st) i c1 ;; Ok (pc, c1)
                 else Ok (w_pc st, c0)) ;;
  c1 <- get 81 pc i ;;
  let prev1 := c1 in
  (* W2 / W3 *)
  pc <- (match c1 with
         | EN => if w_al st then upd 90 pc i AN else Ok pc
         | AL => upd 94 pc i R
         | _ => Ok pc
         end) ;;
  let al := match w2c with L | R => false | AL => true | _ => w_al st end in
  c456 <- get 109 pc i ;;
  (* W4 / W5 / W6 *)
  '(pc, et) <-
    match c456 with
    | EN => pc <- set_all 121 pc (w_et st) EN ;; Ok (pc, [])
    | ES | CS =>
      match t_char_at e text i with
      | Some (_, clen) =>
        fw <- iter_forwards_from (irs_runs sq) (i + clen) run_index ;;
        nx <- find_value_by 135 not_removed_by_x9 pc fw ;;
        let next_class := opt_or nx (irs_eos sq) in
        let next_class := if (next_class =c EN) && al then AN else next_class in
        let newc := match w_prev4 st, c456, next_class with
                    | EN, ES, EN | EN, CS, EN => EN
                    | AN, CS, AN => AN
                    | _, _, _ => ON
                    end in
        pc <- upd 145 pc i newc ;;
        pc <- (if newc =c ON then
                 bw <- iter_backwards_from (irs_runs sq) i run_index ;;
                 pc <- set_while_bn 162 pc bw ON ;;
                 fw2 <- iter_forwards_from (irs_runs sq) (i + clen) run_index ;;
                 set_while_bn 169 pc fw2 ON
               else Ok pc) ;;
        Ok (pc, w_et st)
      | None =>
        if i =? 0 then Panic 179 else
        p <- get 179 pc (i - 1) ;;
        pc <- upd 179 pc i p ;;
        Ok (pc, w_et st)
      end
    | ET =>
      match w_prev5 st with
      | EN => pc <- upd 185 pc i EN ;; Ok (pc, w_et st)
      | _ => Ok (pc, w_et st ++ w_bn st ++ [i])
      end
    | _ => Ok (pc, w_et st)
    end ;;
  prev5 <- get 208 pc i ;;
  '(pc, et) <- (if prev5 =c ET then Ok (pc, et)
                else pc <- set_all 216 pc et ON ;; Ok (pc, [])) ;;
  Ok {| w_prev4 := c456; w_prev5 := prev5; w_prev1 := prev1; w_al := al;
        w_et := et; w_bn := []; w_pc := pc |}.

Fixpoint weak_fold (text : list N) (sq : irs) (st : w_state) (l : list (nat * nat)) : res w_state :=
  match l with
  | [] => Ok st
  | ri :: rest => st' <- weak_step text sq st ri ;; weak_fold text sq st' rest
  end.

(* [(run_index, i)] for every unit of every run, in order *)
Fixpoint indexed_units (k : nat) (runs : list run) : list (nat * nat) :=
  match runs with
  | [] => []
  | r :: rest => map (fun i => (k, i)) (run_range r) ++ indexed_units (S k) rest
  end.

Fixpoint w7_fold (pc : list bclass) (last_strong_is_l : bool) (idxs : list nat) : res (list bclass) :=
  match idxs with
  | [] => Ok pc
  | i :: rest =>
    c <- get 237 pc i ;;
    match c with
    | EN => if last_strong_is_l then pc' <- upd 239 pc i L ;; w7_fold pc' last_strong_is_l rest
            else w7_fold pc last_strong_is_l rest
    | L => w7_fold pc true rest
    | R | AL => w7_fold pc false rest
    | _ => w7_fold pc last_strong_is_l rest
    end
  end.

Definition resolve_weak (text : list N) (sq : irs) (pc : list bclass) : res (list bclass) :=
  let st0 := {| w_prev4 := irs_sos sq; w_prev5 := irs_sos sq; w_prev1 := irs_sos sq; w_al := false;
                w_et := []; w_bn := []; w_pc := pc |} in
  st <- weak_fold text sq st0 (indexed_units 0 (irs_runs sq)) ;;
  pc <- set_all 230 (w_pc st) (w_et st) ON ;;
  w7_fold pc (irs_sos sq =c L) (flat_map run_range (irs_runs sq)).

(* ================================================================== *)
(* implicit::identify_bracket_pairs (implicit.rs:504-574) and resolve_neutral (263-486) *)

Record bracket_pair := { bp_start : nat; bp_end : nat; bp_start_run : nat; bp_end_run : nat }.

(* search the stack (top at head) for the nearest element with this key; on a hit return that
   element and the stack truncated below it *)
Fixpoint bracket_match (key : N) (stack : list (N * nat * nat)) : option (nat * nat * list (N * nat * nat)) :=
  match stack with
  | [] => None
  | (k, pos, ri) :: below => if (k =? key)%N then Some (pos, ri, below) else bracket_match key below
  end.

(* one level run; returns (stack, pairs, stopped) *)
Fixpoint bd16_run (legacy : bool) (oc pc : list bclass) (run_index start : nat) (cis : list (nat * N))
         (stack : list (N * nat * nat)) (pairs : list bracket_pair)
  : res (list (N * nat * nat) * list bracket_pair * bool) :=
  match cis with
  | [] => Ok (stack, pairs, false)
  | (i, ch) :: rest =>
    let actual := start + i in
    c <- get 524 pc actual ;;
    if negb (c =c ON) then bd16_run legacy oc pc run_index start rest stack pairs else
    (* repaired (D9): a character removed by X9 takes no part in BD16 even when a W rule rewrote its
       working class to ON *)
    o <- get 530 oc actual ;;
    if removed_by_x9 o && negb legacy then bd16_run legacy oc pc run_index start rest stack pairs else
    match ds_bracket ds ch with
    | None => bd16_run legacy oc pc run_index start rest stack pairs
    | Some (opening, is_open) =>
      if is_open then
        if bracket_limit <=? length stack then Ok (stack, pairs, true)     (* break *)
        else bd16_run legacy oc pc run_index start rest ((opening, actual, run_index) :: stack) pairs
      else
        match bracket_match opening stack with
        | Some (pos, ri, below) =>
          bd16_run legacy oc pc run_index start rest below
                   (pairs ++ [{| bp_start := pos; bp_end := actual;
                                 bp_start_run := ri; bp_end_run := run_index |}])
        | None => bd16_run legacy oc pc run_index start rest stack pairs
        end
    end
  end.

Fixpoint bd16_runs (legacy : bool) (text : list N) (oc pc : list bclass) (run_index : nat) (runs : list run)
         (stack : list (N * nat * nat)) (pairs : list bracket_pair) : res (list bracket_pair) :=
  match runs with
  | [] => Ok pairs
  | (s, en) :: rest =>
    sub <- t_subrange 517 e text s en ;;
    '(stack', pairs', stopped) <- bd16_run legacy oc pc run_index s (t_char_indices e sub) stack pairs ;;
    if stopped && negb legacy then Ok pairs'                 (* repaired: break 'sequence *)
    else bd16_runs legacy text oc pc (S run_index) rest stack' pairs'
  end.

(* stable sort_by_key(|r| r.start) *)
Fixpoint insert_pair (p : bracket_pair) (l : list bracket_pair) : list bracket_pair :=
  match l with
  | [] => [p]
  | q :: rest => if bp_start p <? bp_start q then p :: l else q :: insert_pair p rest
  end.
Definition sort_pairs (l : list bracket_pair) : list bracket_pair :=
  fold_left (fun acc p => insert_pair p acc) l [].

Definition identify_bracket_pairs_gen (legacy : bool) (text : list N) (sq : irs) (oc pc : list bclass)
  : res (list bracket_pair) :=
  pairs <- bd16_runs legacy text oc pc 0 (irs_runs sq) [] [] ;;
  Ok (sort_pairs pairs).
Definition identify_bracket_pairs := identify_bracket_pairs_gen false.

(* the enclosed-character scan, implicit.rs:316-344 *)
(* repaired (D11): an X9-removed position is not an enclosed character, whatever N0 wrote into its
   working class while passing over it *)
Fixpoint n0_scan (legacy : bool) (oc pc : list bclass) (ecls : bclass) (not_e : bclass) (pair_end : nat)
         (idxs : list nat) (found_e found_not_e : bool) : res (bool * bool) :=
  match idxs with
  | [] => Ok (found_e, found_not_e)
  | i :: rest =>
    if pair_end <=? i then Ok (found_e, found_not_e) else
    o <- get 326 oc i ;;
    if removed_by_x9 o && negb legacy
    then n0_scan legacy oc pc ecls not_e pair_end rest found_e found_not_e else
    c <- get 325 pc i ;;
    let '(fe, fn) :=
      if c =c ecls then (true, found_not_e)
      else if c =c not_e then (found_e, true)
      else if (c =c EN) || (c =c AN)
           then (if ecls =c L then (found_e, true) else (true, found_not_e))
      else (found_e, found_not_e) in
    if fe then Ok (fe, fn) else n0_scan legacy oc pc ecls not_e pair_end rest fe fn
  end.

(* NSM fix-up after a changed bracket, implicit.rs:407-423 *)
(* repaired (D10): an X9-removed character is skipped whatever its working class has become; the
   unrepaired code tested the working class for BN *)
Fixpoint n0_nsm (legacy : bool) (oc : list bclass) (pc : list bclass) (idxs : list nat) (x : bclass)
  : res (list bclass) :=
  match idxs with
  | [] => Ok pc
  | j :: rest =>
    o <- get 408 oc j ;;
    p <- get 409 pc j ;;
    if (o =c NSM) || (if legacy then p =c BN else removed_by_x9 o)
    then pc' <- upd 410 pc j x ;; n0_nsm legacy oc pc' rest x
    else Ok pc
  end.

Definition first_char_len (site : nat) (sub : list N) : res nat :=
  match t_chars e sub with
  | [] => Panic site                                           (* .chars().next().unwrap() *)
  | c :: _ => Ok (char_len e c)
  end.

Definition n0_pair (legacy : bool) (backwards : list run -> nat -> nat -> res (list nat))
           (text : list N) (sq : irs) (oc : list bclass) (ecls not_e : bclass)
           (pc : list bclass) (pair : bracket_pair) : res (list bclass) :=
  let runs := irs_runs sq in
  sub <- t_subrange 311 e text (bp_start pair) (bp_end pair) ;;
  start_char_len <- first_char_len 311 sub ;;
  fw <- iter_forwards_from runs (bp_start pair + start_char_len) (bp_start_run pair) ;;
  '(found_e, found_not_e) <- n0_scan legacy oc pc ecls not_e (bp_end pair) fw false false ;;
  class_to_set <-
    (if found_e then Ok (Some ecls)
     else if found_not_e then
       bw <- backwards runs (bp_start pair) (bp_start_run pair) ;;
       ps <- find_value_by 357 (fun k => match k with L | R | EN | AN => true | _ => false end) pc bw ;;
       let previous_strong := opt_or ps (irs_sos sq) in
       let previous_strong := match previous_strong with EN | AN => R | k => k end in
       Ok (Some previous_strong)
     else Ok None) ;;
  match class_to_set with
  | None => Ok pc
  | Some cts =>
    sub2 <- t_subrange 386 e text (bp_end pair) (t_len e text) ;;
    end_char_len <- first_char_len 386 sub2 ;;
    pc <- set_range 387 pc (bp_start pair) (bp_start pair + start_char_len) cts ;;
    pc <- set_range 390 pc (bp_end pair) (bp_end pair + end_char_len) cts ;;
    bw <- backwards runs (bp_start pair) (bp_start_run pair) ;;
    pc <- set_while_bn 395 pc bw cts ;;
    fw1 <- iter_forwards_from runs (bp_start pair + start_char_len) (bp_start_run pair) ;;
    pc <- n0_nsm legacy oc pc fw1 cts ;;
    fw2 <- iter_forwards_from runs (bp_end pair + end_char_len) (bp_end_run pair) ;;
    n0_nsm legacy oc pc fw2 cts
  end.

Fixpoint n0_pairs (legacy : bool) (backwards : list run -> nat -> nat -> res (list nat))
         (text : list N) (sq : irs) (oc : list bclass) (ecls not_e : bclass)
         (pc : list bclass) (pairs : list bracket_pair) : res (list bclass) :=
  match pairs with
  | [] => Ok pc
  | p :: rest => pc' <- n0_pair legacy backwards text sq oc ecls not_e pc p ;;
                 n0_pairs legacy backwards text sq oc ecls not_e pc' rest
  end.

(* N1/N2, implicit.rs:431-485: one shared iterator consumed by an outer and an inner loop *)
Fixpoint ni_consume (pc : list bclass) (idxs : list nat) (ni_run : list nat) (last_i : nat)
  : res (list nat * nat * option bclass * list nat) :=
  (* returns (ni_run, i, next_class or None for "iterator exhausted", remaining indices) *)
  match idxs with
  | [] => Ok (ni_run, last_i, None, [])
  | j :: rest =>
    c <- get 448 pc j ;;
    if is_NI c || (c =c BN) then ni_consume pc rest (ni_run ++ [j]) j
    else Ok (ni_run, j, Some c, rest)
  end.

Definition n12_class (prev next ecls : bclass) : bclass :=
  match prev, next with
  | L, L => L
  | R, R | R, AN | R, EN | AN, R | AN, AN | AN, EN | EN, R | EN, AN | EN, EN => R
  | _, _ => ecls
  end.

Fixpoint n12_loop (fuel : nat) (sq : irs) (ecls : bclass) (pc : list bclass) (idxs : list nat)
         (prev_class : bclass) : res (list bclass) :=
  match fuel with
  | O => Panic 4999                                            (* out of fuel: excluded by Proofs *)
  | S f =>
    match idxs with
    | [] => Ok pc
    | i :: rest =>
      c <- get 440 pc i ;;
      if is_NI c || (c =c BN) then
        '(ni_run, last_i, nc, rest') <- ni_consume pc rest [i] i ;;
        let next_class := opt_or nc (irs_eos sq) in
        let new_class := n12_class prev_class next_class ecls in
        pc' <- set_all 480 pc ni_run new_class ;;
        p <- get 484 pc' last_i ;;
        n12_loop f sq ecls pc' rest' p
      else n12_loop f sq ecls pc rest c
    end
  end.

Definition resolve_neutral_gen (legacy : bool) (text : list N) (sq : irs) (levels : list nat)
           (oc : list bclass) (pc : list bclass) : res (list bclass) :=
  match irs_runs sq with
  | [] => Panic 272                                            (* sequence.runs[0] *)
  | r0 :: _ =>
    l0 <- get 272 levels (fst r0) ;;
    let ecls := level_class l0 in
    let not_e := if ecls =c L then R else L in
    pairs <- identify_bracket_pairs_gen legacy text sq oc pc ;;
    pc <- n0_pairs legacy (if legacy then iter_backwards_from_legacy else iter_backwards_from)
                   text sq oc ecls not_e pc pairs ;;
    let idxs := flat_map run_range (irs_runs sq) in
    n12_loop (S (length idxs)) sq ecls pc idxs (irs_sos sq)
  end.
Definition resolve_neutral := resolve_neutral_gen false.

(* implicit::resolve_levels, implicit.rs:582-598 *)
Fixpoint resolve_levels (pc : list bclass) (levels : list nat) : res (list nat) :=
  match pc, levels with
  | [], [] => Ok []
  | c :: pcs, l :: ls =>
    l' <- match is_rtl l, c with
          | false, AN | false, EN =>
            match level_raise l 2 with Some x => Ok x | None => Panic 587 end
          | false, R | true, L | true, EN | true, AN =>
            match level_raise l 1 with Some x => Ok x | None => Panic 589 end
          | _, _ => Ok l
          end ;;
    rest <- resolve_levels pcs ls ;;
    Ok (l' :: rest)
  | _, _ => Panic 584                                          (* assert_eq!(len, len) *)
  end.

(* assign_levels_to_removed_chars, lib.rs:1264-1270 *)
Fixpoint assign_removed_from (prev : nat) (oc : list bclass) (levels : list nat) : res (list nat) :=
  match levels with
  | [] => Ok []
  | l :: ls =>
    match oc with
    | [] => Panic 1266                                         (* classes[i] *)
    | c :: cs =>
      let l' := if removed_by_x9 c then prev else l in
      rest <- assign_removed_from l' cs ls ;;
      Ok (l' :: rest)
    end
  end.
Definition assign_levels_to_removed_chars (para_level : nat) (oc : list bclass) (levels : list nat) :=
  assign_removed_from para_level oc levels.

(* compute_bidi_info_for_para, lib.rs:1084-1137.  [text], [oc], [pc] are the paragraph's slices;
   returns the paragraph's levels. *)
Fixpoint resolve_sequences (legacy : bool) (text : list N) (levels : list nat) (oc : list bclass)
         (pc : list bclass) (seqs : list irs) : res (list bclass) :=
  match seqs with
  | [] => Ok pc
  | sq :: rest =>
    pc1 <- resolve_weak text sq pc ;;
    pc2 <- resolve_neutral_gen legacy text sq levels oc pc1 ;;
    resolve_sequences legacy text levels oc pc2 rest
  end.

Definition compute_bidi_info_for_para_gen (legacy : bool) (para_level : nat) (is_pure_ltr has_iso : bool)
           (text : list N) (oc : list bclass) : res (list nat) :=
  let levels0 := repeat para_level (length oc) in
  if (para_level =? 0) && is_pure_ltr then Ok levels0 else
  '(levels, pc, runs) <- explicit_compute text para_level oc levels0 oc ;;
  seqs <- isolating_run_sequences para_level oc levels runs has_iso ;;
  pc <- resolve_sequences legacy text levels oc pc seqs ;;
  levels <- resolve_levels pc levels ;;
  assign_levels_to_removed_chars para_level oc levels.
Definition compute_bidi_info_for_para := compute_bidi_info_for_para_gen false.

(* ================================================================== *)
(* constructors *)

Record bidi_info := {
  bi_classes : list bclass;
  bi_levels : list nat;
  bi_paras : list para_info
}.

Fixpoint bidi_paras (legacy : bool) (text : list N) (classes : list bclass)
         (paras : list para_info) (flags : list para_flags) (levels : list nat) : res (list nat) :=
  match paras, flags with
  | p :: ps, f :: fs =>
    _ <- (if length levels =? p_start p then Ok tt else Panic 1101) ;;   (* &mut levels[para.range] *)
    ptext <- t_subrange 509 e text (p_start p) (p_end p) ;;
    poc <- slice 510 classes (p_start p) (p_end p) ;;
    pl <- compute_bidi_info_for_para_gen legacy (p_level p) (f_pure_ltr f) (f_has_isolate f) ptext poc ;;
    bidi_paras legacy text classes ps fs (levels ++ pl)
  | _, _ => Ok levels                                              (* zip stops at the shorter *)
  end.

Definition bidi_info_new_gen (legacy : bool) (text : list N) (default_level : option nat) : res bidi_info :=
  ii <- compute_initial_info text default_level true ;;
  levels <- bidi_paras legacy text (in_classes ii) (in_paras ii) (in_flags ii) [] ;;
  Ok {| bi_classes := in_classes ii; bi_levels := levels; bi_paras := in_paras ii |}.
Definition bidi_info_new := bidi_info_new_gen false.

Record para_bidi_info := {
  pb_classes : list bclass;
  pb_levels : list nat;
  pb_level : nat;
  pb_pure : bool
}.

Definition para_bidi_info_new_gen (legacy : bool) (text : list N) (default_level : option nat)
  : res para_bidi_info :=
  ii <- compute_initial_info text default_level false ;;
  levels <- compute_bidi_info_for_para_gen legacy (in_level ii) (in_pure ii) (in_iso ii) text (in_classes ii) ;;
  Ok {| pb_classes := in_classes ii; pb_levels := levels; pb_level := in_level ii; pb_pure := in_pure ii |}.
Definition para_bidi_info_new := para_bidi_info_new_gen false.

End Pipeline.
