(* StageRel.v — how the model's per-stage state relates to the specification's, at CHARACTER level
   (ghost encoding U32: one unit per character).  The model keeps the characters X9 removes inside
   its arrays (working class BN) and works on index ranges; Spec.v really removes them and works on
   the class list of each isolating run sequence.  The definitions here are used
   (a) by the pinned statements of Stmts6.v (agreement of every stage with UAX #9), and
   (b) as an executable check ([stage_check_para]) run by the correspondence driver on every
       generated case — that use is TESTING of the statements, not proof. *)
From BidiVerif Require Import Base ConstsGen ModelText ModelResolve ModelLine Spec Obs Judge.

(* positions of a sequence, in order; the ones X9 keeps ("live") *)
Definition seq_idx (sq : irs) : list nat := flat_map run_range (irs_runs sq).
Definition live (oc : list bclass) (i : nat) : bool := not_removed_by_x9 (nth i oc BN).
Definition live_idx (oc : list bclass) (sq : irs) : list nat := filter (live oc) (seq_idx sq).
Definition at_ {A} (d : A) (v : list A) (l : list nat) : list A := map (fun i => nth i v d) l.

(* What the working class of a REMOVED position may be after the weak stage ("retaining BNs",
   UAX #9 section 5.2): still BN, or ON, or the class of the next live character of the sequence
   (a BN inside a run of ETs that W5 turned into EN, possibly L after W7).  Such a position is
   invisible to N0-N2. *)
Fixpoint transparent_from (oc v : list bclass) (l : list nat) : bool :=
  match l with
  | [] => true
  | j :: r =>
    (if live oc j then true
     else let c := nth j v BN in
          (c =c BN) || (c =c ON) ||
          match find (live oc) r with Some j' => nth j' v BN =c c | None => false end)
    && transparent_from oc v r
  end.
Definition transparent (oc v : list bclass) (sq : irs) : bool := transparent_from oc v (seq_idx sq).

(* the input of the weak stage: working class BN exactly at the removed positions *)
Definition bn_exact (oc pc : list bclass) (sq : irs) : bool :=
  forallb (fun i => Bool.eqb (nth i pc BN =c BN) (negb (live oc i))) (seq_idx sq).

(* ---- what the specification computes for one model sequence ---- *)
Definition sq_weak_spec (oc pc : list bclass) (sq : irs) : list bclass :=
  Spec.weak (irs_sos sq) (at_ BN pc (live_idx oc sq)).

Definition sq_ecls (lv : list nat) (sq : irs) : bclass :=
  level_class (nth (match irs_runs sq with r0 :: _ => fst r0 | [] => 0 end) lv 0).

Definition sq_neutral_spec (ds : datasource) (cps : list N) (oc : list bclass) (lv : list nat)
           (pc1 : list bclass) (sq : irs) : list bclass :=
  let li := live_idx oc sq in
  let t1 := at_ BN pc1 li in
  let brks := map (fun i => ds_bracket ds (nth i cps 0%N)) li in
  let onsm := map (fun i => nth i oc BN =c NSM) li in
  let ecls := sq_ecls lv sq in
  Spec.neutral (irs_sos sq) (irs_eos sq) ecls
               (fold_left (n0_one (irs_sos sq) ecls onsm) (bracket_pairs t1 brks) t1).

(* ---- BD7: the model's level runs against the specification's ---- *)
Definition nonempty {A} (l : list A) : bool := match l with [] => false | _ => true end.
Definition runs_live (oc : list bclass) (runs : list run) : list (list nat) :=
  filter nonempty (map (fun r => filter (live oc) (run_range r)) runs).
Definition nat_ll_eqb := list_eqb (list_eqb Nat.eqb).

Definition runs_bd7 (cls0 : list bclass) (xlev : list (option nat)) (oc : list bclass) (lv : list nat)
           (runs : list run) : bool :=
  nat_ll_eqb (runs_live oc runs) (level_runs xlev (remaining cls0)) &&
  forallb (fun r => forallb (fun i => match nth i xlev None with
                                      | Some l => l =? nth (fst r) lv 0
                                      | None => false end)
                            (filter (live oc) (run_range r))) runs &&
  (* only the first run can start at a removed character *)
  forallb (fun r => live oc (fst r)) (tl runs).

(* ---- BD13 / X10: the model's sequences against the specification's ---- *)
Definition seq3 := (list nat * bclass * bclass)%type.
Definition seq3_eqb (a b : seq3) : bool :=
  list_eqb Nat.eqb (fst (fst a)) (fst (fst b)) && (snd (fst a) =c snd (fst b)) && (snd a =c snd b).
Fixpoint insert_seq3 (x : seq3) (l : list seq3) : list seq3 :=
  match l with
  | [] => [x]
  | y :: r => if hd 0 (fst (fst x)) <? hd 0 (fst (fst y)) then x :: l else y :: insert_seq3 x r
  end.
Definition sort_seq3 (l : list seq3) : list seq3 := fold_left (fun acc x => insert_seq3 x acc) l [].

Definition model_seq3 (oc : list bclass) (seqs : list irs) : list seq3 :=
  filter (fun t => nonempty (fst (fst t))) (map (fun sq => (live_idx oc sq, irs_sos sq, irs_eos sq)) seqs).
Definition spec_seq3 (cls0 : list bclass) (xlev : list (option nat)) (pl : nat) : list seq3 :=
  let idx := remaining cls0 in
  map (fun s => (s, seq_sos xlev pl idx s, seq_eos cls0 xlev pl idx s)) (isolating_sequences cls0 xlev).

(* ---- I1/I2 ---- *)
Fixpoint map2_implicit (lv : list nat) (pc : list bclass) : list nat :=
  match lv, pc with
  | l :: lr, c :: cr => implicit_level l c :: map2_implicit lr cr
  | _, _ => []
  end.

(* ------------------------------------------------------------------ *)
(* the executable stage-by-stage check of one paragraph's characters; 0 = every stage agrees *)
Fixpoint stage_check_seqs (ds : datasource) (cps : list N) (oc : list bclass) (lv : list nat)
         (pc : list bclass) (seqs : list irs) : nat + list bclass :=
  match seqs with
  | [] => inr pc
  | sq :: rest =>
    if negb (bn_exact oc pc sq) then inl 10 else
    if negb (forallb not_removed_by_x9 (at_ BN pc (live_idx oc sq))) then inl 16 else
    match resolve_weak U32 cps sq pc with
    | Panic _ => inl 11
    | Ok pc1 =>
      if negb (cls_list_eqb (at_ BN pc1 (live_idx oc sq)) (sq_weak_spec oc pc sq)) then inl 12 else
      if negb (transparent oc pc1 sq) then inl 13 else
      if negb (forallb (fun c => is_ni c || match strong_dir c with Some _ => true | None => false end)
                       (at_ BN pc1 (live_idx oc sq))) then inl 17 else
      match resolve_neutral U32 ds cps sq lv oc pc1 with
      | Panic _ => inl 14
      | Ok pc2 =>
        if negb (cls_list_eqb (at_ BN pc2 (live_idx oc sq)) (sq_neutral_spec ds cps oc lv pc1 sq)) then inl 15
        else stage_check_seqs ds cps oc lv pc2 rest
      end
    end
  end.

Definition stage_check_para (ds : datasource) (cps : list N) (dir : option nat) : nat :=
  let cls0 := map (ds_class ds) cps in
  let brk := map (ds_bracket ds) cps in
  let k := length cps in
  let pl := Spec.para_level cls0 dir in
  let oc := reported_classes cls0 in
  let '(xlev, xcls) := explicit_levels cls0 pl in
  match explicit_compute U32 cps pl oc (repeat pl k) oc with
  | Panic _ => 1
  | Ok (lv, pc0, runs) =>
    if negb (runs_bd7 cls0 xlev oc lv runs) then 2 else
    let check_with (has_iso : bool) : nat :=
      match isolating_run_sequences pl oc lv runs has_iso with
      | Panic _ => 3
      | Ok seqs =>
        if negb (list_eqb seq3_eqb (sort_seq3 (model_seq3 oc seqs)) (sort_seq3 (spec_seq3 cls0 xlev pl))) then 4 else
        match stage_check_seqs ds cps oc lv pc0 seqs with
        | inl n => n
        | inr pc =>
          match resolve_levels pc lv with
          | Panic _ => 20
          | Ok lv2 =>
            if negb (nat_list_eqb lv2 (map2_implicit lv pc)) then 21 else
            match assign_levels_to_removed_chars pl oc lv2 with
            | Panic _ => 22
            | Ok lv3 =>
              if nat_list_eqb lv3 (fill_removed pl (snd (resolve_paragraph cls0 brk dir))) then 0 else 23
            end
          end
        end
      end in
    match check_with true with
    | 0 => if existsb is_isolate_init oc then 0 else (match check_with false with 0 => 0 | n => 100 + n end)
    | n => n
    end
  end.

(* every paragraph of a case *)
Definition stage_check (c : tcase) : nat :=
  let paras := split_paragraphs (fun ch => ds_class (tc_ds c) (fst ch)) (case_chars c) in
  fold_left (fun acc p => match acc with
                          | 0 => stage_check_para (tc_ds c) (map fst p) (tc_dir c)
                          | n => n end) paras 0.
