(* Judge.v — per-property boolean predicates "this observed behaviour satisfies the property for this
   input", written with Spec.v only (never with the model).  The same function is (a) what the
   property theorems in Props/ are stated with, applied to the model's observation, and (b) extracted
   and applied to what the real crate returned. *)
From BidiVerif Require Import Base ConstsGen ModelText ModelResolve ModelLine Obs Spec.

Fixpoint list_eqb2 {A B} (eqb : A -> B -> bool) (l1 : list A) (l2 : list B) : bool :=
  match l1, l2 with
  | [], [] => true
  | x :: t1, y :: t2 => eqb x y && list_eqb2 eqb t1 t2
  | _, _ => false
  end.
Definition nat_list_eqb := list_eqb Nat.eqb.
Definition cls_list_eqb := list_eqb ceq.
Definition N_list_eqb := list_eqb N.eqb.
Definition run_eqb (a b : run) : bool := (fst a =? fst b) && (snd a =? snd b).
Definition para_eqb (a b : para_info) : bool :=
  (p_start a =? p_start b) && (p_end a =? p_end b) && (p_level a =? p_level b).
Definition dir_eqb (a b : direction) : bool :=
  match a, b with Ltr, Ltr | Rtl, Rtl | Mixed, Mixed => true | _, _ => false end.

Definition okb {A} (r : res A) (p : A -> bool) : bool := match r with Ok a => p a | Panic _ => false end.

(* ------------------------------------------------------------------ *)
(* the characters of a case: (scalar, length in code units) *)
Definition case_chars (c : tcase) : list (N * nat) :=
  match tc_enc c with
  | U8 => map (fun cp => (cp, len_utf8 cp)) (tc_text c)
  | U16 => decode16 (tc_text c)
  | U32 => map (fun cp => (cp, 1)) (tc_text c)
  end.

Definition expand {A} (lens : list nat) (vals : list A) : list A :=
  flat_map (fun lv => repeat (snd lv) (fst lv)) (combine lens vals).

Fixpoint starts_from (pos : nat) (lens : list nat) : list nat :=
  match lens with [] => [] | l :: r => pos :: starts_from (pos + l) r end.
Definition total (lens : list nat) : nat := fold_left Nat.add lens 0.

(* value at the first unit of every character *)
Definition at_starts {A} (lens : list nat) (v : list A) : list (option A) :=
  map (nth_error v) (starts_from 0 lens).

(* every character's units carry one value *)
Fixpoint uniform {A} (eqb : A -> A -> bool) (lens : list nat) (v : list A) : bool :=
  match lens with
  | [] => match v with [] => true | _ => false end
  | l :: r => match firstn l v with
              | [] => (l =? 0) && uniform eqb r (skipn l v)
              | (x :: _) as blk => (length blk =? l) && forallb (eqb x) blk && uniform eqb r (skipn l v)
              end
  end.

(* ------------------------------------------------------------------ *)
(* what UAX #9 says about a whole text *)
Record spec_para := {
  sp_start : nat; sp_end : nat;          (* unit range *)
  sp_lens : list nat;                    (* unit length of each character *)
  sp_cls : list bclass;                  (* Bidi_Class per character, as the data source gives it *)
  sp_reported : list bclass;             (* with FSI resolved (C02) *)
  sp_level : nat;                        (* P2/P3 *)
  sp_levels : list nat                   (* per character; X9-removed ones carry the preceding level *)
}.

Fixpoint spec_paras_from (ds : datasource) (dir : option nat) (pos : nat) (paras : list (list (N * nat)))
  : list spec_para :=
  match paras with
  | [] => []
  | p :: rest =>
    let lens := map snd p in
    let cls := map (fun ch => ds_class ds (fst ch)) p in
    let brk := map (fun ch => ds_bracket ds (fst ch)) p in
    let '(pl, lv) := resolve_paragraph cls brk dir in
    {| sp_start := pos; sp_end := pos + total lens; sp_lens := lens; sp_cls := cls;
       sp_reported := reported_classes cls; sp_level := pl; sp_levels := fill_removed pl lv |}
    :: spec_paras_from ds dir (pos + total lens) rest
  end.

Definition spec_text (c : tcase) : list spec_para :=
  spec_paras_from (tc_ds c) (tc_dir c) 0
                  (split_paragraphs (fun ch => ds_class (tc_ds c) (fst ch)) (case_chars c)).

(* the whole text taken as ONE paragraph (the single-paragraph API); only meaningful when the text
   has no paragraph separator before its last character *)
Definition spec_single (c : tcase) : list spec_para :=
  match case_chars c with
  | [] => []
  | chars => spec_paras_from (tc_ds c) (tc_dir c) 0 [chars]
  end.
Definition is_single_paragraph (c : tcase) : bool := length (spec_text c) <=? 1.

Definition opt_nat_eqb (a : option nat) (b : nat) : bool := match a with Some x => x =? b | None => false end.
Definition opt_cls_eqb (a : option bclass) (b : bclass) : bool := match a with Some x => x =c b | None => false end.

(* ------------------------------------------------------------------ *)
(* C01: levels at character starts follow the algorithm; removed characters carry the previous level *)
Definition levels_follow_spec (sps : list spec_para) (levels : list nat) : bool :=
  let lens := flat_map sp_lens sps in
  let want := flat_map sp_levels sps in
  (length levels =? total lens) &&
  list_eqb2 opt_nat_eqb (at_starts lens levels) want.

Definition C01_judge (c : tcase) (o : text_obs) : bool :=
  okb (to_bi o) (fun b => levels_follow_spec (spec_text c) (bi_levels b)) &&
  (if is_single_paragraph c
   then okb (to_pi o) (fun p => levels_follow_spec (spec_single c) (pb_levels p))
   else true).

(* C02: paragraphs, paragraph levels, reported classes *)
Definition paras_follow_spec (sps : list spec_para) (paras : list para_info) : bool :=
  list_eqb2 (fun (p : para_info) (s : spec_para) =>
              (p_start p =? sp_start s) && (p_end p =? sp_end s) && (p_level p =? sp_level s))
           paras sps.
Definition classes_follow_spec (sps : list spec_para) (classes : list bclass) : bool :=
  cls_list_eqb classes (flat_map (fun s => expand (sp_lens s) (sp_reported s)) sps).

Definition C02_judge (c : tcase) (o : text_obs) : bool :=
  let sps := spec_text c in
  okb (to_ii o) (fun x => classes_follow_spec sps (fst x) && paras_follow_spec sps (snd x)) &&
  okb (to_bi o) (fun b => classes_follow_spec sps (bi_classes b) && paras_follow_spec sps (bi_paras b)) &&
  (if is_single_paragraph c
   then okb (to_pi o) (fun p => classes_follow_spec (spec_single c) (pb_classes p) &&
                                match spec_single c with
                                | [s] => pb_level p =? sp_level s
                                | _ => pb_level p =? match tc_dir c with Some d => d | None => 0 end
                                end)
   else true).

(* ------------------------------------------------------------------ *)
(* lines: the characters of the text lying in [a, b) (None if a or b is not a character boundary) *)
Fixpoint chars_in (pos a b : nat) (chs : list (N * nat)) : option (list (N * nat)) :=
  match chs with
  | [] => if (pos =? b) || (b <=? a) then Some [] else None
  | ch :: rest =>
    if pos <? a then (if a <? pos + snd ch then None else chars_in (pos + snd ch) a b rest)
    else if pos <? b then
      (if b <? pos + snd ch then None
       else match chars_in (pos + snd ch) a b rest with Some r => Some (ch :: r) | None => None end)
    else Some []
  end.

(* C03: expected L1 vector for one line, from the STORED levels and classes *)
Definition l1_expected (c : tcase) (stored : list nat) (pl : nat) (line : nat * nat) : option (list nat) :=
  let '(a, b) := line in
  match chars_in 0 a b (case_chars c) with
  | None => None
  | Some lch =>
    let lens := map snd lch in
    let cls := map (fun ch => ds_class (tc_ds c) (fst ch)) lch in
    let seg := firstn (b - a) (skipn a stored) in
    let at_ := at_starts lens seg in
    if forallb (fun x => match x with Some _ => true | None => false end) at_ then
      let per_char := l1 pl cls (map (fun x => match x with Some l => l | None => 0 end) at_) in
      Some (firstn a stored ++ expand lens per_char ++ skipn b stored)
    else None
  end.

Definition line_l1_ok (c : tcase) (stored : list nat) (pl : nat) (lo : line_obs) : bool :=
  match l1_expected c stored pl (lo_line lo) with
  | None => false
  | Some want =>
    okb (lo_rl lo) (fun got => nat_list_eqb got want) &&
    okb (lo_rlc lo) (fun got => list_eqb2 opt_nat_eqb (at_starts (map snd (case_chars c)) want) got
                                && (length got =? length (case_chars c)))
  end.

Definition level_of_line (paras : list para_info) (line : nat * nat) : nat :=
  match find (fun p => (p_start p <=? fst line) && (fst line <? p_end p)) paras with
  | Some p => p_level p
  | None => 0
  end.

Definition C03_judge (c : tcase) (o : text_obs) : bool :=
  okb (to_bi o) (fun b => forallb (fun lo => line_l1_ok c (bi_levels b) (level_of_line (bi_paras b) (lo_line lo)) lo)
                                  (to_bi_lines o)) &&
  okb (to_pi o) (fun p => forallb (line_l1_ok c (pb_levels p) (pb_level p)) (to_pi_lines o)).

(* C04: reorder_visual = L2 (also used standalone on raw level vectors) *)
Definition C04_judge_levels (lv : list nat) (out : res (list nat)) : bool :=
  okb out (fun got => nat_list_eqb got (l2 lv) && (length got =? length lv)).

Definition line_rv_ok (lo : line_obs) : bool :=
  match lo_rl lo with
  | Ok lv => let '(a, b) := lo_line lo in C04_judge_levels (firstn (b - a) (skipn a lv)) (lo_rv lo)
  | Panic _ => false
  end.
Definition C04_judge (c : tcase) (o : text_obs) : bool :=
  forallb line_rv_ok (to_bi_lines o) && forallb line_rv_ok (to_pi_lines o).

(* C05: visual_runs *)
Definition runs_cover (a b : nat) (runs : list run) : bool :=
  (* sorted by start, the runs tile [a, b) and are non-empty *)
  let sorted := fold_left (fun acc r =>
                  (fix ins (l : list run) := match l with
                                             | [] => [r]
                                             | q :: t => if fst r <? fst q then r :: l else q :: ins t
                                             end) acc) runs [] in
  (fix go (pos : nat) (l : list run) : bool :=
     match l with
     | [] => pos =? b
     | r :: t => (fst r =? pos) && (fst r <? snd r) && go (snd r) t
     end) a sorted.

Definition run_uniform_maximal (a b : nat) (lv : list nat) (r : run) : bool :=
  match nth_error lv (fst r) with
  | None => false
  | Some l =>
    forallb (fun i => opt_nat_eqb (nth_error lv i) l) (range (fst r) (snd r)) &&
    ((fst r =? a) || negb (opt_nat_eqb (nth_error lv (fst r - 1)) l)) &&
    ((snd r =? b) || negb (opt_nat_eqb (nth_error lv (snd r)) l))
  end.

Definition runs_visual_order (a b : nat) (lv : list nat) (runs : list run) : list nat :=
  flat_map (fun r => match nth_error lv (fst r) with
                     | Some l => if Nat.odd l then rev (range (fst r) (snd r)) else range (fst r) (snd r)
                     | None => []
                     end) runs.

Definition line_runs_ok (lo : line_obs) : bool :=
  let '(a, b) := lo_line lo in
  match lo_rl lo, lo_vr lo with
  | Ok rl, Ok (lv, runs) =>
    nat_list_eqb lv rl &&
    runs_cover a b runs &&
    forallb (run_uniform_maximal a b lv) runs &&
    nat_list_eqb (runs_visual_order a b lv runs)
                 (map (fun i => a + i) (l2 (firstn (b - a) (skipn a lv)))) &&
    okb (lo_dvr lo) (fun d => list_eqb run_eqb d runs)
  | _, _ => false
  end.
Definition C05_judge (c : tcase) (o : text_obs) : bool :=
  forallb line_runs_ok (to_bi_lines o) && forallb line_runs_ok (to_pi_lines o).

(* C06: reorder_line = the line's characters permuted by L2 of the per-character L1 levels *)
Definition well_formed16 (t : list N) : bool :=
  forallb (fun ch => negb ((fst ch =? 65533)%N && (snd ch =? 1))) (decode16 t)
  || forallb (fun u => negb (is_hi u || is_lo u)) t.

Definition encode_chars (e : enc) (chs : list N) : list N :=
  match e with U8 => chs | U16 => flat_map encode_utf16 chs | U32 => chs end.

Definition reorder_expected (c : tcase) (stored : list nat) (pl : nat) (line : nat * nat) : option (list N) :=
  let '(a, b) := line in
  match chars_in 0 a b (case_chars c) with
  | None => None
  | Some lch =>
    let lens := map snd lch in
    let cls := map (fun ch => ds_class (tc_ds c) (fst ch)) lch in
    let seg := firstn (b - a) (skipn a stored) in
    let per_char := l1 pl cls (map (fun x => match x with Some l => l | None => 0 end) (at_starts lens seg)) in
    Some (encode_chars (tc_enc c) (map (fun i => fst (nth i lch (0%N, 0))) (l2 per_char)))
  end.

Definition unpaired_free (c : tcase) : bool :=
  match tc_enc c with
  | U8 => true
  | U32 => true
  | U16 => forallb (fun u => negb (is_hi u || is_lo u)) (tc_text c) ||
           N_list_eqb (flat_map (fun ch => encode_utf16 (fst ch)) (decode16 (tc_text c))) (tc_text c)
  end.

Definition line_reorder_ok (c : tcase) (stored : list nat) (pl : nat) (lo : line_obs) : bool :=
  match reorder_expected c stored pl (lo_line lo) with
  | None => false
  | Some want => okb (lo_ro lo) (fun got => N_list_eqb got want)
  end.
Definition C06_judge (c : tcase) (o : text_obs) : bool :=
  if negb (unpaired_free c) then true else
  okb (to_bi o) (fun b => forallb (fun lo => line_reorder_ok c (bi_levels b) (level_of_line (bi_paras b) (lo_line lo)) lo)
                                  (to_bi_lines o)) &&
  okb (to_pi o) (fun p => forallb (line_reorder_ok c (pb_levels p) (pb_level p)) (to_pi_lines o)).

(* C07: nothing panicked *)
Definition line_no_panic (lo : line_obs) : bool :=
  is_ok (lo_rl lo) && is_ok (lo_rlc lo) && is_ok (lo_vr lo) && is_ok (lo_dvr lo) &&
  is_ok (lo_ro lo) && is_ok (lo_rv lo).
Definition C07_judge (c : tcase) (o : text_obs) : bool :=
  is_ok (to_ii o) && is_ok (to_bi o) && is_ok (to_bi_has_rtl o) && is_ok (to_bi_dirs o) &&
  is_ok (to_bi_level_at o) && forallb line_no_panic (to_bi_lines o) &&
  is_ok (to_pi o) && is_ok (to_pi_has_rtl o) && is_ok (to_pi_dir o) &&
  forallb line_no_panic (to_pi_lines o) && is_ok (to_bd o) && is_ok (to_bdf o) &&
  forallb is_ok (to_sub o).

(* C08: one entry per unit, uniform inside each character, para level <= level <= 126 *)
Definition levels_bounded (paras : list para_info) (levels : list nat) : bool :=
  forallb (fun p => forallb (fun i => match nth_error levels i with
                                      | Some l => (p_level p <=? l) && (l <=? 126)
                                      | None => false end)
                            (range (p_start p) (p_end p))) paras.

Definition C08_judge (c : tcase) (o : text_obs) : bool :=
  let lens := map snd (case_chars c) in
  let n := total lens in
  okb (to_ii o) (fun x => uniform ceq lens (fst x)) &&
  okb (to_bi o) (fun b => uniform ceq lens (bi_classes b) && uniform Nat.eqb lens (bi_levels b) &&
                          levels_bounded (bi_paras b) (bi_levels b)) &&
  okb (to_pi o) (fun p => uniform ceq lens (pb_classes p) && uniform Nat.eqb lens (pb_levels p) &&
                          forallb (fun l => (pb_level p <=? l) && (l <=? 126)) (pb_levels p)) &&
  forallb (fun lo => okb (lo_rl lo) (uniform Nat.eqb lens) &&
                     okb (lo_rlc lo) (fun v => length v =? length lens))
          (to_bi_lines o ++ to_pi_lines o).

(* C10: paragraph independence; single-paragraph API agreement *)
(* equality of results; a panic on both sides counts as agreement (panics are C07's business) *)
Definition res_eqb {A} (eqb : A -> A -> bool) (x y : res A) : bool :=
  match x, y with Ok a, Ok b => eqb a b | Panic _, Panic _ => true | _, _ => false end.
Definition line_obs_eqb (x y : line_obs) : bool :=
  res_eqb nat_list_eqb (lo_rl x) (lo_rl y) &&
  res_eqb nat_list_eqb (lo_rlc x) (lo_rlc y) &&
  res_eqb (fun a b => nat_list_eqb (fst a) (fst b) && list_eqb run_eqb (snd a) (snd b)) (lo_vr x) (lo_vr y) &&
  res_eqb N_list_eqb (lo_ro x) (lo_ro y).

Definition C10_judge (c : tcase) (o : text_obs) : bool :=
  okb (to_bi o) (fun b =>
    (length (to_sub o) =? length (bi_paras b)) &&
    forallb (fun ps =>
      let '(p, s) := ps in
      okb s (fun sb =>
        cls_list_eqb (bi_classes sb) (firstn (p_end p - p_start p) (skipn (p_start p) (bi_classes b))) &&
        nat_list_eqb (bi_levels sb) (firstn (p_end p - p_start p) (skipn (p_start p) (bi_levels b))) &&
        match bi_paras sb with
        | [q] => (p_start q =? 0) && (p_end q =? p_end p - p_start p) && (p_level q =? p_level p)
        | _ => false
        end))
      (combine (bi_paras b) (to_sub o)) &&
    (if is_single_paragraph c then
       okb (to_pi o) (fun p =>
         cls_list_eqb (pb_classes p) (bi_classes b) && nat_list_eqb (pb_levels p) (bi_levels b) &&
         match bi_paras b with
         | [q] => pb_level p =? p_level q
         | _ => match tc_text c with [] => true | _ => false end
         end) &&
       list_eqb line_obs_eqb (to_bi_lines o) (to_pi_lines o)
     else true)).

(* C11: levels stay within 0..126 whatever the nesting; and on inputs that actually reach the
   limits (an overflow isolate/embedding count became non-zero under X1-X8, or 63+ opening brackets
   occur) the levels are exactly those of the algorithm with its overflow rules (C01 on those inputs) *)
Fixpoint x_overflows (cls0 : list bclass) (pl : nat) (s : xstate) (i : nat) (l : list bclass) : bool :=
  match l with
  | [] => false
  | c0 :: rest =>
    let '(s', _, _) := x_step cls0 pl s i c0 in
    (0 <? x_oi s') || (0 <? x_oe s') || x_overflows cls0 pl s' (S i) rest
  end.
Definition reaches_limits (ds : datasource) (sp : spec_para) (chars : list (N * nat)) : bool :=
  x_overflows (sp_cls sp) (sp_level sp) {| x_stack := [(sp_level sp, ONone, false)]; x_oi := 0; x_oe := 0; x_vi := 0 |} 0 (sp_cls sp).
Definition many_brackets (c : tcase) : bool :=
  63 <=? length (filter (fun ch => match ds_bracket (tc_ds c) (fst ch) with Some (_, true) => true | _ => false end)
                        (case_chars c)).
Definition case_reaches_limits (c : tcase) : bool :=
  many_brackets c || existsb (fun sp => reaches_limits (tc_ds c) sp []) (spec_text c).

Definition C11_judge (c : tcase) (o : text_obs) : bool :=
  okb (to_bi o) (fun b => forallb (fun l => l <=? 126) (bi_levels b)) &&
  okb (to_pi o) (fun p => forallb (fun l => l <=? 126) (pb_levels p)) &&
  (if case_reaches_limits c then C01_judge c o else true).

(* C16: base direction *)
Definition spec_direction (cls : list bclass) : direction :=
  match first_strong cls 0 (length cls) with
  | Some L => Ltr
  | Some _ => Rtl
  | None => Mixed
  end.
Definition C16_judge (c : tcase) (o : text_obs) : bool :=
  let paras := map (map (fun ch => ds_class (tc_ds c) (fst ch)))
                   (split_paragraphs (fun ch => ds_class (tc_ds c) (fst ch)) (case_chars c)) in
  let want := match paras with p :: _ => spec_direction p | [] => Mixed end in
  let want_full := match find (fun p => negb (dir_eqb (spec_direction p) Mixed)) paras with
                   | Some p => spec_direction p | None => Mixed end in
  okb (to_bd o) (fun d => dir_eqb d want) &&
  okb (to_bdf o) (fun d => dir_eqb d want_full) &&
  (* whenever Ltr/Rtl, it agrees with the auto-detected level of that paragraph *)
  (match tc_dir c with
   | Some _ => true
   | None => okb (to_bi o) (fun b =>
       match want, bi_paras b with
       | Ltr, p :: _ => p_level p =? 0
       | Rtl, p :: _ => p_level p =? 1
       | _, _ => true
       end)
   end).

(* the text of a line, in the API's own units *)
Definition line_text (c : tcase) (line : nat * nat) : option (list N) :=
  match tc_enc c with
  | U16 => Some (firstn (snd line - fst line) (skipn (fst line) (tc_text c)))
  | U8 | U32 => option_map (map fst) (chars_in 0 (fst line) (snd line) (case_chars c))
  end.

(* C17: summary queries *)
Definition all_even (l : list nat) := forallb Nat.even l.
Definition all_odd (l : list nat) := forallb Nat.odd l.
(* "Ltr exactly when all levels are even, Rtl exactly when all are odd, Mixed otherwise"; for an
   empty level vector both hold and the code answers Rtl — accepted for either (no paragraph is empty
   in BidiInfo; ParagraphBidiInfo of "" is the only case). *)
Definition direction_ok' (lv : list nat) (d : direction) : bool :=
  match lv with
  | [] => match d with Mixed => false | _ => true end
  | _ => match d with
         | Ltr => all_even lv
         | Rtl => all_odd lv
         | Mixed => negb (all_even lv) && negb (all_odd lv)
         end
  end.

Definition C17_judge (c : tcase) (o : text_obs) : bool :=
  okb (to_bi o) (fun b =>
    okb (to_bi_dirs o) (fun ds_ =>
      (length ds_ =? length (bi_paras b)) &&
      forallb (fun pd => direction_ok' (firstn (p_end (fst pd) - p_start (fst pd))
                                               (skipn (p_start (fst pd)) (bi_levels b))) (snd pd))
              (combine (bi_paras b) ds_)) &&
    okb (to_bi_level_at o) (fun la =>
      (length la =? length (bi_paras b)) &&
      forallb (fun pl => nat_list_eqb (snd pl) (firstn (p_end (fst pl) - p_start (fst pl))
                                                       (skipn (p_start (fst pl)) (bi_levels b))))
              (combine (bi_paras b) la)) &&
    okb (to_bi_has_rtl o) (fun h => Bool.eqb h (existsb Nat.odd (bi_levels b)))) &&
  okb (to_pi o) (fun p =>
    okb (to_pi_dir o) (direction_ok' (pb_levels p)) &&
    okb (to_pi_has_rtl o) (fun h =>
      if h then true
      else negb (existsb Nat.odd (pb_levels p)) &&
           forallb (fun lo => match line_text c (lo_line lo) with
                              | Some want => okb (lo_ro lo) (fun got => N_list_eqb got want)
                              | None => false
                              end)
                   (to_pi_lines o))).

(* ------------------------------------------------------------------ *)
(* C09: the UTF-16 analysis agrees, character for character, with the UTF-8 analysis of the same
   text (lone surrogates read as U+FFFD).  [c16]/[o16] and [c8]/[o8] are the two cases; their line
   lists correspond position by position. *)
Definition opt_eqb {A} (eqb : A -> A -> bool) (a b : option A) : bool :=
  match a, b with Some x, Some y => eqb x y | None, None => true | _, _ => false end.

Fixpoint unit_to_char_from (k pos : nat) (lens : list nat) (u : nat) : option nat :=
  if pos =? u then Some k else
  match lens with
  | [] => None
  | l :: r => unit_to_char_from (S k) (pos + l) r u
  end.
Definition unit_to_char (lens : list nat) (u : nat) : option nat := unit_to_char_from 0 0 lens u.

Definition char_range (lens : list nat) (r : nat * nat) : option (nat * nat) :=
  match unit_to_char lens (fst r), unit_to_char lens (snd r) with
  | Some a, Some b => Some (a, b)
  | _, _ => None
  end.
Definition opt_run_eqb := opt_eqb run_eqb.

Definition res_rel {A B} (rel : A -> B -> bool) (x : res A) (y : res B) : bool :=
  match x, y with Ok a, Ok b => rel a b | Panic _, Panic _ => true | _, _ => false end.

Definition line_agree (l16 l8 : list nat) (wf : bool) (x16 x8 : line_obs) : bool :=
  opt_run_eqb (char_range l16 (lo_line x16)) (char_range l8 (lo_line x8)) &&
  res_rel nat_list_eqb (lo_rlc x16) (lo_rlc x8) &&
  res_rel (fun a b => list_eqb (opt_eqb Nat.eqb) (at_starts l16 a) (at_starts l8 b)) (lo_rl x16) (lo_rl x8) &&
  res_rel (fun a b => list_eqb opt_run_eqb (map (char_range l16) (snd a)) (map (char_range l8) (snd b)))
          (lo_vr x16) (lo_vr x8) &&
  res_rel (fun a b => N_list_eqb (map fst (decode16 a)) b &&
                      (if wf then N_list_eqb a (flat_map encode_utf16 b) else true))
          (lo_ro x16) (lo_ro x8).

Definition para_agree (l16 l8 : list nat) (p q : para_info) : bool :=
  opt_run_eqb (char_range l16 (p_start p, p_end p)) (char_range l8 (p_start q, p_end q)) &&
  (p_level p =? p_level q).

Definition C09_judge (c16 : tcase) (o16 : text_obs) (c8 : tcase) (o8 : text_obs) : bool :=
  let l16 := map snd (case_chars c16) in
  let l8 := map snd (case_chars c8) in
  let wf := unpaired_free c16 in
  N_list_eqb (map fst (case_chars c16)) (map fst (case_chars c8)) &&
  res_rel (fun a b => list_eqb (opt_eqb ceq) (at_starts l16 (fst a)) (at_starts l8 (fst b)) &&
                      list_eqb2 (para_agree l16 l8) (snd a) (snd b)) (to_ii o16) (to_ii o8) &&
  res_rel (fun a b =>
             list_eqb (opt_eqb ceq) (at_starts l16 (bi_classes a)) (at_starts l8 (bi_classes b)) &&
             list_eqb (opt_eqb Nat.eqb) (at_starts l16 (bi_levels a)) (at_starts l8 (bi_levels b)) &&
             list_eqb2 (para_agree l16 l8) (bi_paras a) (bi_paras b)) (to_bi o16) (to_bi o8) &&
  res_rel Bool.eqb (to_bi_has_rtl o16) (to_bi_has_rtl o8) &&
  res_rel (list_eqb dir_eqb) (to_bi_dirs o16) (to_bi_dirs o8) &&
  list_eqb2 (line_agree l16 l8 wf) (to_bi_lines o16) (to_bi_lines o8) &&
  res_rel (fun a b =>
             list_eqb (opt_eqb ceq) (at_starts l16 (pb_classes a)) (at_starts l8 (pb_classes b)) &&
             list_eqb (opt_eqb Nat.eqb) (at_starts l16 (pb_levels a)) (at_starts l8 (pb_levels b)) &&
             (pb_level a =? pb_level b) && Bool.eqb (pb_pure a) (pb_pure b)) (to_pi o16) (to_pi o8) &&
  res_rel Bool.eqb (to_pi_has_rtl o16) (to_pi_has_rtl o8) &&
  res_rel dir_eqb (to_pi_dir o16) (to_pi_dir o8) &&
  list_eqb2 (line_agree l16 l8 wf) (to_pi_lines o16) (to_pi_lines o8) &&
  res_rel dir_eqb (to_bd o16) (to_bd o8) &&
  res_rel dir_eqb (to_bdf o16) (to_bdf o8).

(* C13: two texts  prefix ++ [I] ++ content_k ++ [PDI] ++ suffix  (k = 1, 2); [pu] = units of
   prefix ++ [I], [su] = units of [PDI] ++ suffix.  Everything outside the contents is unchanged. *)
Definition lastn {A} (n : nat) (l : list A) : list A := skipn (length l - n) l.
Definition C13_judge (pu su : nat) (o1 o2 : text_obs) : bool :=
  res_rel (fun a b =>
             nat_list_eqb (firstn pu (bi_levels a)) (firstn pu (bi_levels b)) &&
             nat_list_eqb (lastn su (bi_levels a)) (lastn su (bi_levels b)) &&
             (pu + su <=? length (bi_levels a)) && (pu + su <=? length (bi_levels b)) &&
             nat_list_eqb (map p_level (bi_paras a)) (map p_level (bi_paras b)))
          (to_bi o1) (to_bi o2) &&
  res_rel (fun a b =>
             nat_list_eqb (firstn pu (pb_levels a)) (firstn pu (pb_levels b)) &&
             nat_list_eqb (lastn su (pb_levels a)) (lastn su (pb_levels b)) &&
             (pb_level a =? pb_level b))
          (to_pi o1) (to_pi o2).

(* ------------------------------------------------------------------ *)
(* C18: UTF-16 text access against lossy decoding *)
Fixpoint char_at_spec (dec : list (N * nat)) (i : nat) : option (N * nat) :=
  match dec with
  | [] => None
  | (c, l) :: r => if i =? 0 then Some (c, l) else if i <? l then None else char_at_spec r (i - l)
  end.

(* an ideal double-ended iterator over the decoded characters *)
Fixpoint deque_run (chars : list N) (ops : list bool) : list (option N) :=
  match ops with
  | [] => []
  | true :: r => match chars with
                 | [] => None :: deque_run chars r
                 | c :: cs => Some c :: deque_run cs r
                 end
  | false :: r => match rev chars with
                  | [] => None :: deque_run chars r
                  | c :: cs => Some c :: deque_run (rev cs) r
                  end
  end.

(* the model's iterator under the same program ([true] = next, [false] = next_back) *)
Fixpoint iter16_run (legacy : bool) (t : list N) (st : nat * nat) (ops : list bool) : res (list (option N)) :=
  match ops with
  | [] => Ok []
  | true :: r => let '(x, st') := (if legacy then chars16_next_legacy t st else chars16_next t st) in
                 rest <- iter16_run legacy t st' r ;; Ok (x :: rest)
  | false :: r => xs <- chars16_next_back t st ;;
                  rest <- iter16_run legacy t (snd xs) r ;; Ok (fst xs :: rest)
  end.
Definition iter16_program (legacy : bool) (t : list N) (ops : list bool) : res (list (option N)) :=
  iter16_run legacy t (chars16_new t) ops.

Definition C18_iter_judge (t : list N) (ops : list bool) (out : res (list (option N))) : bool :=
  okb out (fun got => list_eqb (opt_eqb N.eqb) got (deque_run (map fst (decode16 t)) ops)).

(* ------------------------------------------------------------------ *)
(* model-internal differential (testing, not proof): the analysis in the case's encoding is the
   per-unit expansion of the analysis of its character list in the ghost encoding U32 — the
   executable form of the length-independence statements of Stmts3.v *)
Definition LI_check (c : tcase) : bool :=
  let chars := case_chars c in
  let lens := map snd chars in
  let cps := map fst chars in
  let us i := fold_left Nat.add (firstn i lens) 0 in
  match bidi_info_new (tc_enc c) (tc_ds c) (tc_text c) (tc_dir c),
        bidi_info_new U32 (tc_ds c) cps (tc_dir c) with
  | Ok b, Ok b' =>
    cls_list_eqb (bi_classes b) (expand lens (bi_classes b')) &&
    nat_list_eqb (bi_levels b) (expand lens (bi_levels b')) &&
    list_eqb para_eqb (bi_paras b)
             (map (fun p => {| p_start := us (p_start p); p_end := us (p_end p); p_level := p_level p |}) (bi_paras b'))
  | Panic _, Panic _ => true
  | _, _ => false
  end &&
  match para_bidi_info_new (tc_enc c) (tc_ds c) (tc_text c) (tc_dir c),
        para_bidi_info_new U32 (tc_ds c) cps (tc_dir c) with
  | Ok p, Ok p' =>
    cls_list_eqb (pb_classes p) (expand lens (pb_classes p')) &&
    nat_list_eqb (pb_levels p) (expand lens (pb_levels p')) &&
    (pb_level p =? pb_level p') && Bool.eqb (pb_pure p) (pb_pure p')
  | Panic _, Panic _ => true
  | _, _ => false
  end.
