(* ModelText.v — executable model of: level.rs (Level arithmetic), char_data/mod.rs (lookups),
   the two TextSource implementations (lib.rs:1351-1416 for str, utf16.rs:612-795 for [u16]).
   One model function per Rust function; no proofs here (Proofs/ holds them). *)
From BidiVerif Require Import Base ConstsGen TablesGen.

(* ================================================================== *)
(* level.rs.  A Level is a [nat]; u8 arithmetic is written out: [checked_add] fails above 255,
   [checked_sub] fails below 0.  Errors (Err(OutOfRangeNumber)) are [None]. *)

Definition max_explicit_depth : nat := max_depth.          (* level.rs:44 *)
Definition max_implicit_depth : nat := max_depth + 1.      (* level.rs:46 *)

Definition level_new (n : nat) : option nat :=              (* level.rs:82 *)
  if n <=? max_implicit_depth then Some n else None.
Definition level_new_explicit (n : nat) : option nat :=     (* level.rs:92 *)
  if n <=? max_explicit_depth then Some n else None.
Definition is_ltr (l : nat) : bool := (l mod 2 =? 0).        (* level.rs:110 *)
Definition is_rtl (l : nat) : bool := (l mod 2 =? 1).        (* level.rs:116 *)

(* Mutators return the new value of [self] on Ok and [None] on Err (self unchanged). *)
Definition level_raise (l amount : nat) : option nat :=     (* level.rs:124 *)
  if l + amount <=? 255                                        (* checked_add *)
  then (if l + amount <=? max_implicit_depth then Some (l + amount) else None)
  else None.
Definition level_raise_explicit (l amount : nat) : option nat :=   (* level.rs:140 *)
  if l + amount <=? 255
  then (if l + amount <=? max_explicit_depth then Some (l + amount) else None)
  else None.
Definition level_lower (l amount : nat) : option nat :=     (* level.rs:156 *)
  if amount <=? l then Some (l - amount) else None.           (* checked_sub *)

(* (self.0 + 2) & !1  — clear bit 0;  (self.0 + 1) | 1 — set bit 0;  self.0 | 1 *)
Definition clear_bit0 (n : nat) : nat := n - n mod 2.
Definition set_bit0 (n : nat) : nat := if n mod 2 =? 0 then n + 1 else n.
Definition level_next_ltr (l : nat) : option nat := level_new_explicit (clear_bit0 (l + 2)).  (* :170 *)
Definition level_next_rtl (l : nat) : option nat := level_new_explicit (set_bit0 (l + 1)).    (* :176 *)
Definition level_lowest_ge_rtl (l : nat) : option nat := level_new (set_bit0 l).               (* :183 *)
Definition level_class (l : nat) : bclass := if is_rtl l then R else L.                        (* :189 *)
Definition levels_has_rtl (ls : list nat) : bool := existsb is_rtl ls.                         (* :219 *)

(* ================================================================== *)
(* char_data/mod.rs *)

Local Open Scope N_scope.

(* What `binary_search_by` is documented to do on a slice sorted w.r.t. the comparator: return a
   matching element if there is one.  [lookup_linear] is that contract; [bsearch_class] is a concrete
   halving search; Proofs/Tables.v shows they agree on every sorted, disjoint table. *)
Fixpoint lookup_linear (tab : list (N * N * bclass)) (c : N) : option bclass :=
  match tab with
  | [] => None
  | (lo, hi, k) :: rest => if (lo <=? c) && (c <=? hi) then Some k else lookup_linear rest c
  end.

Fixpoint bsearch_fuel (fuel : nat) (tab : list (N * N * bclass)) (c : N) (lo hi : nat) : option bclass :=
  match fuel with
  | O => None
  | S f =>
    if (hi <=? lo)%nat then None else
    let mid := (lo + (hi - lo) / 2)%nat in
    match nth_error tab mid with
    | None => None
    | Some (a, b, k) =>
      if (a <=? c) && (c <=? b) then Some k
      else if b <? c then bsearch_fuel f tab c (S mid) hi
      else bsearch_fuel f tab c lo mid
    end
  end.

Definition bsearch_class (tab : list (N * N * bclass)) (c : N) : bclass :=   (* mod.rs:66-86 *)
  match bsearch_fuel (S (length tab)) tab c 0%nat (length tab) with
  | Some k => k
  | None => L
  end.

Definition hardcoded_class (c : N) : bclass := bsearch_class bidi_class_table c.

(* bidi_matched_opening_bracket (mod.rs:48-59): first pair containing c; (opening key, is_open) *)
Fixpoint matched_opening_bracket_in (tab : list (N * N * option N)) (c : N) : option (N * bool) :=
  match tab with
  | [] => None
  | (o, cl, k) :: rest =>
    if (o =? c) || (cl =? c)
    then Some (match k with Some s => s | None => o end, (o =? c))
    else matched_opening_bracket_in rest c
  end.
Definition hardcoded_bracket (c : N) : option (N * bool) :=
  matched_opening_bracket_in bidi_pairs_table c.

Definition class_is_rtl (k : bclass) : bool :=           (* char_data::is_rtl, mod.rs:61 *)
  match k with RLE | RLO | RLI => true | _ => false end.

(* A data source: the answers of `bidi_class` and `bidi_matched_opening_bracket`. *)
Record datasource := { ds_class : N -> bclass; ds_bracket : N -> option (N * bool) }.
Definition hardcoded_ds : datasource := {| ds_class := hardcoded_class; ds_bracket := hardcoded_bracket |}.

(* ================================================================== *)
(* Text sources.  A text is a [list N]: for UTF-8 the list of scalar values of a (valid) &str,
   for UTF-16 the raw list of 16-bit units.  All positions are code-unit indices. *)

(* U32: a ghost encoding in which every character is ONE unit (the text is its scalar list).  It has
   no counterpart in the Rust crate; it is the character-level instance of the same generic model,
   used to state that results do not depend on how many code units a character occupies. *)
Inductive enc := U8 | U16 | U32.

Definition len_utf8 (c : N) : nat :=                       (* char::len_utf8 *)
  if c <? 128 then 1%nat else if c <? 2048 then 2%nat else if c <? 65536 then 3%nat else 4%nat.
Definition len_utf16 (c : N) : nat :=                      (* char::len_utf16 *)
  if c <? 65536 then 1%nat else 2%nat.
Definition char_len (e : enc) (c : N) : nat :=             (* TextSource::char_len *)
  match e with U8 => len_utf8 c | U16 => len_utf16 c | U32 => 1%nat end.

Definition REPLACEMENT : N := 65533.

(* ---- UTF-16 (utf16.rs:612-689) ---- *)
Definition is_high_surrogate (u : N) : bool := N.land u 64512 =? 55296.   (* (code & 0xFC00) == 0xD800 *)
Definition is_low_surrogate (u : N) : bool := N.land u 64512 =? 56320.    (* (code & 0xFC00) == 0xDC00 *)
Definition from_u32_ok (u : N) : bool := negb ((55296 <=? u) && (u <=? 57343)).  (* char::from_u32 on a u16 *)

(* first item of char::decode_utf16(t[i..]) given t[i] = c is a surrogate *)
Definition decode_first (t : list N) (i : nat) (c : N) : N * nat :=
  if is_high_surrogate c then
    match nth_error t (S i) with
    | Some d => if is_low_surrogate d
                then (65536 + (c - 55296) * 1024 + (d - 56320), 2%nat)
                else (REPLACEMENT, 1%nat)
    | None => (REPLACEMENT, 1%nat)
    end
  else (REPLACEMENT, 1%nat).

Definition char_at16 (t : list N) (i : nat) : option (N * nat) :=        (* utf16.rs:634 *)
  match nth_error t i with
  | None => None
  | Some c =>
    if from_u32_ok c then Some (c, 1%nat)
    else if is_low_surrogate c && (0 <? i)%nat &&
            match nth_error t (i - 1) with Some p => is_high_surrogate p | None => false end
    then None
    else Some (decode_first t i c)
  end.

(* Utf16CharIndexIter / Utf16IndexLenIter: repeat char_at(cur_pos) until None. Each step advances
   by >= 1, so [length t + 1] steps of fuel always suffice (Proofs/Utf16.v). *)
Fixpoint iter16 (fuel : nat) (t : list N) (pos : nat) : list (nat * N * nat) :=
  match fuel with
  | O => []
  | S f => match char_at16 t pos with
           | Some (c, l) => (pos, c, l) :: iter16 f t (pos + l)
           | None => []
           end
  end.
Definition char_indices16 (t : list N) : list (nat * N) :=
  map (fun x => match x with (p, c, _) => (p, c) end) (iter16 (S (length t)) t 0).
Definition indices_lengths16 (t : list N) : list (nat * nat) :=
  map (fun x => match x with (p, _, l) => (p, l) end) (iter16 (S (length t)) t 0).

(* Utf16CharIter (double ended), utf16.rs:748-795.  State (cur_pos, end_pos). *)
Definition chars16_new (t : list N) : nat * nat := (0%nat, length t).
Definition chars16_next (t : list N) (st : nat * nat) : option N * (nat * nat) :=
  let '(cur, en) := st in
  if (en <=? cur)%nat then (None, st)                       (* guard added by the D5 repair *)
  else match char_at16 t cur with
       | Some (c, l) => (Some c, ((cur + l)%nat, en))
       | None => (None, st)
       end.
(* The unrepaired `next` (no end_pos guard), kept for the legacy/refutation lemmas. *)
Definition chars16_next_legacy (t : list N) (st : nat * nat) : option N * (nat * nat) :=
  let '(cur, en) := st in
  match char_at16 t cur with
  | Some (c, l) => (Some c, ((cur + l)%nat, en))
  | None => (None, st)
  end.
Definition chars16_next_back (t : list N) (st : nat * nat) : res (option N * (nat * nat)) :=
  let '(cur, en) := st in
  if (en <=? cur)%nat then Ok (None, st)
  else
    let en1 := (en - 1)%nat in
    u <- get 782 t en1 ;;
    if from_u32_ok u then Ok (Some u, (cur, en1))
    else
      if (cur <? en1)%nat then
        match char_at16 t (en1 - 1) with
        | Some (c, 2%nat) => Ok (Some c, (cur, (en1 - 1)%nat))
        | _ => Ok (Some REPLACEMENT, (cur, en1))
        end
      else Ok (Some REPLACEMENT, (cur, en1)).

(* text.chars() consumed forwards / `.chars().rev()` consumed from the back *)
Definition chars16 (t : list N) : list N := map snd (char_indices16 t).
Fixpoint chars16_rev_fuel (fuel : nat) (t : list N) (st : nat * nat) : res (list N) :=
  match fuel with
  | O => Ok []
  | S f => r <- chars16_next_back t st ;;
           match r with
           | (Some c, st') => rest <- chars16_rev_fuel f t st' ;; Ok (c :: rest)
           | (None, _) => Ok []
           end
  end.
Definition chars16_rev (t : list N) : res (list N) := chars16_rev_fuel (S (length t)) t (chars16_new t).

(* ---- UTF-8: the text is its list of scalar values; unit positions are sums of len_utf8 ---- *)
Fixpoint char_indices8_from (pos : nat) (t : list N) : list (nat * N) :=
  match t with
  | [] => []
  | c :: rest => (pos, c) :: char_indices8_from (pos + len_utf8 c) rest
  end.
Definition char_indices8 (t : list N) : list (nat * N) := char_indices8_from 0 t.
Fixpoint len8 (t : list N) : nat := match t with [] => 0%nat | c :: r => (len_utf8 c + len8 r)%nat end.

(* `str::get(index..)` then `.chars().next()`: the char starting exactly at unit [i], if any *)
Fixpoint char_at8 (t : list N) (i : nat) : option (N * nat) :=           (* lib.rs:1361 *)
  match t with
  | [] => None
  | c :: rest => if (i =? 0)%nat then Some (c, len_utf8 c)
                 else if (i <? len_utf8 c)%nat then None
                 else char_at8 rest (i - len_utf8 c)
  end.

(* `&s[a..]` restricted to what is needed: drop a prefix of exactly [a] units; None = off a boundary
   (Rust panics) *)
Fixpoint drop_units8 (t : list N) (a : nat) : option (list N) :=
  match a with
  | O => Some t
  | _ => match t with
         | [] => None
         | c :: rest => if (len_utf8 c <=? a)%nat then drop_units8 rest (a - len_utf8 c) else None
         end
  end.
Fixpoint take_units8 (t : list N) (n : nat) : option (list N) :=
  match n with
  | O => Some []
  | _ => match t with
         | [] => None
         | c :: rest => if (len_utf8 c <=? n)%nat
                        then match take_units8 rest (n - len_utf8 c) with
                             | Some r => Some (c :: r) | None => None end
                        else None
         end
  end.

(* ---- the TextSource trait, by encoding ---- *)
Definition t_len (e : enc) (t : list N) : nat :=
  match e with U8 => len8 t | U16 => length t | U32 => length t end.
Definition t_char_at (e : enc) (t : list N) (i : nat) : option (N * nat) :=
  match e with
  | U8 => char_at8 t i
  | U16 => char_at16 t i
  | U32 => match nth_error t i with Some c => Some (c, 1%nat) | None => None end
  end.
Definition t_subrange (site : nat) (e : enc) (t : list N) (a b : nat) : res (list N) :=
  match e with
  | U8 => if (a <=? b)%nat
          then match drop_units8 t a with
               | Some t1 => match take_units8 t1 (b - a) with Some t2 => Ok t2 | None => Panic site end
               | None => Panic site
               end
          else Panic site
  | U16 => slice site t a b
  | U32 => slice site t a b
  end.
Definition t_char_indices (e : enc) (t : list N) : list (nat * N) :=
  match e with U8 => char_indices8 t | U16 => char_indices16 t | U32 => combine (seq 0 (length t)) t end.
Definition t_indices_lengths (e : enc) (t : list N) : list (nat * nat) :=
  match e with
  | U8 => map (fun x => (fst x, len_utf8 (snd x))) (char_indices8 t)     (* Utf8IndexLenIter *)
  | U16 => indices_lengths16 t
  | U32 => map (fun i => (i, 1%nat)) (seq 0 (length t))
  end.
Definition t_chars (e : enc) (t : list N) : list N :=
  match e with U8 => t | U16 => chars16 t | U32 => t end.
Definition t_chars_rev (e : enc) (t : list N) : res (list N) :=
  match e with U8 => Ok (rev t) | U16 => chars16_rev t | U32 => Ok (rev t) end.
