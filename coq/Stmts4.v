(* Stmts4.v — pinned statements, fourth group: TOTALITY (no panic) and bounds of the analysis at
   character level (ghost encoding U32).  Together with length independence (Stmts3.v) this gives
   totality, vector lengths, per-character uniformity and level bounds for every encoding. *)
From BidiVerif Require Import Base ConstsGen TablesGen ModelText ModelResolve ModelLine Spec Obs Judge Stmts Stmts2 Stmts3.
From Coq Require Import Permutation.

(* the runs of one sequence are in text order and do not overlap *)
Fixpoint runs_ascending (prev_end : nat) (runs : list run) : Prop :=
  match runs with
  | [] => True
  | (s, en) :: r => prev_end <= s /\ s < en /\ runs_ascending en r
  end.

Definition seq_wf (k : nat) (sq : irs) : Prop :=
  irs_runs sq <> [] /\ seq_in k sq /\ runs_ascending 0 (irs_runs sq) /\
  (irs_sos sq = L \/ irs_sos sq = R) /\ (irs_eos sq = L \/ irs_eos sq = R).

(* ---- prepare::isolating_run_sequences ---- *)
Definition T_sequences : Prop :=
  forall pl cls lv runs has_iso k,
    length cls = k -> length lv = k -> 0 < k -> tile_from 0 k runs ->
    exists seqs,
      isolating_run_sequences pl cls lv runs has_iso = Ok seqs /\
      Forall (seq_wf k) seqs /\
      Permutation (flat_map irs_runs seqs) runs.

(* ---- implicit::resolve_weak ---- *)
Definition T_weak : Prop :=
  forall cps sq pc,
    length pc = length cps -> seq_wf (length cps) sq ->
    exists out, resolve_weak U32 cps sq pc = Ok out /\ length out = length pc /\
                (forall i, ~ In i (flat_map run_range (irs_runs sq)) -> nth_error out i = nth_error pc i).

(* ---- implicit::resolve_neutral ---- *)
Definition T_neutral : Prop :=
  forall ds cps sq lv oc pc,
    length pc = length cps -> length oc = length cps -> length lv = length cps ->
    seq_wf (length cps) sq ->
    exists out, resolve_neutral U32 ds cps sq lv oc pc = Ok out /\ length out = length pc /\
                (forall i, ~ In i (flat_map run_range (irs_runs sq)) -> nth_error out i = nth_error pc i).

(* ---- implicit::resolve_levels and assign_levels_to_removed_chars ---- *)
Definition T_levels : Prop :=
  (forall pc lv, length pc = length lv -> Forall (fun l => l <= 125) lv ->
     exists out, resolve_levels pc lv = Ok out /\ length out = length lv /\
                 Forall2 (fun l o => l <= o /\ o <= 126) lv out) /\
  (forall pl oc lv, length oc = length lv ->
     exists out, assign_levels_to_removed_chars pl oc lv = Ok out /\ length out = length lv /\
                 (forall lo hi, lo <= pl <= hi -> Forall (fun l => lo <= l <= hi) lv -> Forall (fun l => lo <= l <= hi) out)).

(* ---- the constructors, at character level ---- *)
Definition T_constructors_char : Prop :=
  forall ds cps d, dir3 d ->
    (exists b, bidi_info_new U32 ds cps d = Ok b /\
               length (bi_levels b) = length cps /\ length (bi_classes b) = length cps /\
               levels_bounded (bi_paras b) (bi_levels b) = true) /\
    (exists p, para_bidi_info_new U32 ds cps d = Ok p /\
               length (pb_levels p) = length cps /\ length (pb_classes p) = length cps /\
               Forall (fun l => pb_level p <= l /\ l <= 126) (pb_levels p)).

(* ---- the constructors, for every encoding (needs Stmts3's LI_bidi_info / LI_para_bidi_info) ---- *)
Definition C07_C08_constructors : Prop :=
  forall e ds text d,
    valid_text e text -> fsi_proviso e ds (view_of e text) -> dir3 d ->
    let lens := map snd (view_of e text) in
    (exists b, bidi_info_new e ds text d = Ok b /\
               length (bi_levels b) = total lens /\ length (bi_classes b) = total lens /\
               uniform ceq lens (bi_classes b) = true /\ uniform Nat.eqb lens (bi_levels b) = true /\
               levels_bounded (bi_paras b) (bi_levels b) = true) /\
    (exists p, para_bidi_info_new e ds text d = Ok p /\
               length (pb_levels p) = total lens /\ length (pb_classes p) = total lens /\
               uniform ceq lens (pb_classes p) = true /\ uniform Nat.eqb lens (pb_levels p) = true /\
               Forall (fun l => pb_level p <= l /\ l <= 126) (pb_levels p)).
