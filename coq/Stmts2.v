(* Stmts2.v — pinned statements, second group: the view of a text as characters, C02, the explicit
   stage (invariants and agreement with X1-X8), C12 (extensionality in the data source). *)
From BidiVerif Require Import Base ConstsGen TablesGen ModelText ModelResolve ModelLine Spec Obs Judge Stmts.

(* A text as the implementation sees it through TextSource: its characters (scalar, units > 0). *)
Definition text_view (e : enc) (text : list N) (chars : list (N * nat)) : Prop :=
  t_char_indices e text = map (fun x => (fst (fst x), snd (fst x))) (positions 0 chars) /\
  t_indices_lengths e text = map (fun x => (fst (fst x), snd x)) (positions 0 chars) /\
  t_chars e text = map fst chars /\
  t_len e text = total (map snd chars) /\
  Forall (fun ch => snd ch = char_len e (fst ch) /\ 0 < snd ch) chars.

(* every valid UTF-8 text has a view; every list of 16-bit units has one (its lossy decoding) *)
Definition text_view_exists_statement : Prop :=
  (forall t, text_view U8 t (map (fun c => (c, len_utf8 c)) t)) /\
  (forall t, is_u16 t -> text_view U16 t (decode16 t)).

(* "explicit formatting classes kept on their own characters": the one place where the code uses a
   fixed encoded length is the FSI rewrite (lib.rs:386), which assumes an FSI-class character is as
   long as U+2068 *)
Definition fsi_proviso (e : enc) (ds : datasource) (chars : list (N * nat)) : Prop :=
  Forall (fun ch => ds_class ds (fst ch) = FSI -> snd ch = char_len e fc_FSI) chars.

(* ------------------------------------------------------------------ C02 *)
Definition C02_statement : Prop :=
  forall e ds text chars d,
    text_view e text chars -> fsi_proviso e ds chars ->
    let sps := spec_paras_from ds d 0 (split_paragraphs (fun ch => ds_class ds (fst ch)) chars) in
    exists ii,
      compute_initial_info e ds text d true = Ok ii /\
      classes_follow_spec sps (in_classes ii) = true /\
      paras_follow_spec sps (in_paras ii) = true /\
      length (in_flags ii) = length (in_paras ii).

(* ------------------------------------------------------------------ explicit stage *)
Fixpoint tile_from (pos n : nat) (runs : list run) : Prop :=
  match runs with
  | [] => pos = n
  | (s, en) :: r => s = pos /\ s < en /\ tile_from en n r
  end.

Definition explicit_invariants_statement : Prop :=
  forall e text chars cls pl,
    text_view e text chars -> length cls = length chars -> pl <= 1 ->
    let lens := map snd chars in
    let n := total lens in
    let oc := expand lens cls in
    exists levels pc runs,
      explicit_compute e text pl oc (repeat pl n) oc = Ok (levels, pc, runs) /\
      length levels = n /\ length pc = n /\
      Forall (fun l => pl <= l /\ l <= 125) levels /\
      uniform Nat.eqb lens levels = true /\ uniform ceq lens pc = true /\
      (* the level runs tile the paragraph, are non-empty and start on character boundaries *)
      (0 < n -> tile_from 0 n runs) /\ (n = 0 -> runs = []) /\
      Forall (fun r => In (fst r) (starts_from 0 lens)) runs.

(* agreement with X1-X8 of the specification.  [cls0]: classes as the data source gives them;
   the model is run on the classes reported after FSI resolution (C02). *)
Definition explicit_agrees_statement : Prop :=
  forall e text chars cls0 pl,
    text_view e text chars -> length cls0 = length chars -> pl <= 1 ->
    (* a single paragraph: no B except possibly as the last character *)
    (forall i, i + 1 < length cls0 -> nth i cls0 L <> B) ->
    let lens := map snd chars in
    let n := total lens in
    let oc := expand lens (reported_classes cls0) in
    forall levels pc runs,
      explicit_compute e text pl oc (repeat pl n) oc = Ok (levels, pc, runs) ->
      let '(xlev, xcls) := explicit_levels cls0 pl in
      forall i, i < length cls0 ->
        let st := nth i (starts_from 0 lens) 0 in
        (is_removed (nth i cls0 L) = false ->
           nth_error levels st = nth i xlev None /\
           (* processing class = class after override; an unresolved FSI stays FSI *)
           nth_error pc st = Some (match nth i xcls L, nth i (reported_classes cls0) L with
                                   | FSI, k => k | k, _ => k end)) /\
        (is_removed (nth i cls0 L) = true -> nth_error pc st = Some BN).

(* ------------------------------------------------------------------ C12 (extensionality) *)
Definition ds_ext (d1 d2 : datasource) : Prop :=
  forall c, ds_class d1 c = ds_class d2 c /\ ds_bracket d1 c = ds_bracket d2 c.

Definition C12_statement : Prop :=
  (* the model consults the data source only through its two answers: sources that answer alike give
     identical results from every constructor and query *)
  (forall e d1 d2 text d, ds_ext d1 d2 ->
     compute_initial_info e d1 text d true = compute_initial_info e d2 text d true /\
     bidi_info_new e d1 text d = bidi_info_new e d2 text d /\
     para_bidi_info_new e d1 text d = para_bidi_info_new e d2 text d /\
     (forall full, get_base_direction e d1 full text = get_base_direction e d2 full text)) /\
  (* the convenience constructors are the explicit built-in source *)
  (forall c, ds_class hardcoded_ds c = hardcoded_class c /\ ds_bracket hardcoded_ds c = hardcoded_bracket c).

(* ------------------------------------------------------------------ concrete views and sub-ranges *)
Definition view_of (e : enc) (t : list N) : list (N * nat) :=
  match e with U8 => map (fun c => (c, len_utf8 c)) t | U16 => decode16 t | U32 => map (fun c => (c, 1)) t end.
Definition valid_text (e : enc) (t : list N) : Prop :=
  match e with U8 => True | U16 => is_u16 t | U32 => True end.

Definition view_of_statement : Prop :=
  forall e t, valid_text e t -> text_view e t (view_of e t).

(* `&text[a..b]` / `text.subrange(a..b)` on character boundaries is the text of those characters *)
Definition subrange_view_statement : Prop :=
  forall site e t i j,
    valid_text e t -> i <= j -> j <= length (view_of e t) ->
    let lens := map snd (view_of e t) in
    exists sub,
      t_subrange site e t (total (firstn i lens)) (total (firstn j lens)) = Ok sub /\
      view_of e sub = firstn (j - i) (skipn i (view_of e t)) /\
      valid_text e sub.
